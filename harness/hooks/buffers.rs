// Suites that need access to items private to this module (feature ipa-verif, test builds only).
//
// This file is `include!`d as `helpers::buffers::ipa_verif_hook`; `super::circular` (private to
// `helpers::buffers`) is visible from here.

// ------------------------------------------------------------------------------------------------
// C14 (a): CircularBuf as a FIFO byte queue.   Request:  c14.circ <cap> <ws> <rs> <op,op,…>
//   ops: w<hex> = next().write(bytes) | t = take() | c = close()
//   response: `<out>|<len>|<can_read>|<can_write>|<closed>` per op, `;`-separated, where <out> is
//   `ok` or the hex of the bytes returned by take (`-` = none); the trace ends with
//   `panic:<tag>` at the first panic.
// ------------------------------------------------------------------------------------------------
mod c14_circ {
    use super::super::circular::CircularBuf;
    use crate::ipa_verif::proto::*;

    /// Panic messages are reduced to a stable tag (a substring of the Rust message).
    pub fn c14_panic_tag(msg: &str) -> String {
        const TAGS: &[&str] = &[
            "must all be greater than zero",
            "write size must divide capacity",
            "write size must divide read_size",
            "Already closed",
            "Writing to a closed buffer",
            "Not enough space for the next write",
            "Expect to keep messages of size",
        ];
        for t in TAGS {
            if msg.contains(t) {
                return format!("panic:{t}");
            }
        }
        msg.to_string()
    }

    fn b(x: bool) -> &'static str {
        if x { "1" } else { "0" }
    }

    fn obs(buf: &CircularBuf) -> String {
        format!("{}|{}|{}|{}", buf.len(), b(buf.can_read()), b(buf.can_write()), b(buf.is_closed()))
    }

    pub fn exec(req: &str) -> String {
        let t: Vec<&str> = req.split(' ').collect();
        assert_eq!(t[0], "c14.circ");
        let cap: usize = t[1].parse().unwrap();
        let ws: usize = t[2].parse().unwrap();
        let rs: usize = t[3].parse().unwrap();
        let mut buf = match guarded(|| CircularBuf::new(cap, ws, rs)) {
            Ok(b) => b,
            Err(p) => return c14_panic_tag(&p),
        };
        let mut out: Vec<String> = vec![];
        if t[4] != "-" {
            for op in t[4].split(',') {
                let r = match op.as_bytes()[0] {
                    b'w' => {
                        let m = unhex(if op.len() == 1 { "-" } else { &op[1..] });
                        guarded(|| {
                            buf.next().write(m.as_slice());
                            "ok".to_string()
                        })
                    }
                    b't' => guarded(|| hex(&buf.take())),
                    b'c' => guarded(|| {
                        buf.close();
                        "ok".to_string()
                    }),
                    _ => panic!("harness: bad op {op}"),
                };
                match r {
                    Ok(s) => out.push(format!("{s}|{}", obs(&buf))),
                    Err(p) => {
                        out.push(c14_panic_tag(&p));
                        break;
                    }
                }
            }
        }
        if out.is_empty() { "-".into() } else { out.join(";") }
    }

    /// Generator-side bookkeeping (only used to prune sequences after a rejected operation).
    #[derive(Clone)]
    struct Track {
        len: usize,
        closed: bool,
        ctr: usize,
    }

    fn msg(tr: &mut Track, n: usize) -> String {
        let v: Vec<u8> = (0..n)
            .map(|_| {
                tr.ctr += 1;
                (tr.ctr % 251) as u8
            })
            .collect();
        format!("w{}", if v.is_empty() { String::new() } else { hex(&v) })
    }

    /// All operation sequences up to `depth` (a sequence stops after an op the reference rejects).
    fn dfs(cap: usize, ws: usize, rs: usize, depth: usize, tr: Track, cur: &mut Vec<String>, out: &mut Vec<String>) {
        if depth == 0 {
            out.push(format!("c14.circ {cap} {ws} {rs} {}", cur.join(",")));
            return;
        }
        for op in 0..3 {
            let mut t2 = tr.clone();
            let (s, rejected) = match op {
                0 => {
                    let rej = t2.closed || cap - t2.len < ws;
                    let s = msg(&mut t2, ws);
                    t2.len += ws;
                    (s, rej)
                }
                1 => {
                    if (t2.closed && t2.len > 0) || t2.len >= rs {
                        t2.len -= rs.min(t2.len);
                    }
                    ("t".to_string(), false)
                }
                _ => {
                    let rej = t2.closed;
                    t2.closed = true;
                    ("c".to_string(), rej)
                }
            };
            cur.push(s);
            if rejected {
                out.push(format!("c14.circ {cap} {ws} {rs} {}", cur.join(",")));
            } else {
                dfs(cap, ws, rs, depth - 1, t2, cur, out);
            }
            cur.pop();
        }
    }

    pub fn generate(rng: &mut Rng, thorough: bool) -> Vec<String> {
        let mut out = vec![];
        // constructor: boundary and rejected configurations
        for (c, w, r) in [
            (0, 1, 1), (1, 0, 1), (1, 1, 0), (0, 0, 0), (4, 3, 3), (6, 4, 4), (6, 2, 3), (6, 3, 2), (4, 2, 1),
            (1, 1, 1), (2, 2, 2), (2, 1, 4), (4, 2, 8), (3, 3, 3),
        ] {
            out.push(format!("c14.circ {c} {w} {r} -"));
        }
        // exhaustive to depth over a grid (read_size ∤ capacity, read_size > capacity included)
        let grid: &[(usize, usize, usize)] = &[
            (1, 1, 1), (2, 1, 1), (2, 1, 2), (3, 1, 2), (4, 2, 2), (4, 1, 3), (6, 2, 4), (6, 3, 3), (6, 3, 6),
            (8, 2, 4), (5, 1, 2), (3, 1, 3), (4, 2, 8), (2, 2, 4), (9, 3, 6),
        ];
        let depth = if thorough { 12 } else { 10 };
        for &(c, w, r) in grid {
            dfs(c, w, r, depth, Track { len: 0, closed: false, ctr: 0 }, &mut vec![], &mut out);
        }
        // random long walks over larger configurations
        let n = if thorough { 6000 } else { 600 };
        for k in 0..n {
            let ws = *rng.pick(&[1usize, 1, 2, 3, 4, 5, 8, 16]);
            let cap = ws * (1 + rng.usize_below(if k % 3 == 0 { 4 } else { 24 }));
            let rs = if rng.below(8) == 0 {
                ws * (1 + rng.usize_below(2 * cap / ws + 1))
            } else {
                ws * (1 + rng.usize_below(cap / ws))
            };
            let steps = 10 + rng.usize_below(if thorough { 400 } else { 120 });
            let mut tr = Track { len: 0, closed: false, ctr: rng.usize_below(251) };
            let mut ops = vec![];
            // phases: mostly-write, mostly-read alternate so the cursors wrap many times
            let mut bias = 70;
            for i in 0..steps {
                if i % 17 == 0 {
                    bias = *rng.pick(&[20u64, 50, 80, 95]);
                }
                let x = rng.below(100);
                if x < bias {
                    let wrong = rng.below(200) == 0;
                    let n = if wrong { ws + 1 - 2 * rng.usize_below(2).min(ws) } else { ws };
                    let rej = tr.closed || cap - tr.len < ws || n != ws;
                    ops.push(msg(&mut tr, n));
                    if rej {
                        if rng.below(4) == 0 {
                            break; // keep the rejected write as the last op
                        }
                        ops.pop();
                        ops.push("t".into());
                        if (tr.closed && tr.len > 0) || tr.len >= rs {
                            tr.len -= rs.min(tr.len);
                        }
                    } else {
                        tr.len += ws;
                    }
                } else if x < 99 || tr.closed {
                    ops.push("t".into());
                    if (tr.closed && tr.len > 0) || tr.len >= rs {
                        tr.len -= rs.min(tr.len);
                    }
                } else {
                    ops.push("c".into());
                    tr.closed = true;
                }
            }
            if rng.below(3) == 0 && !tr.closed {
                ops.push("c".into());
                for _ in 0..(cap / rs.min(cap) + 2) {
                    ops.push("t".into());
                }
            }
            out.push(format!("c14.circ {cap} {ws} {rs} {}", ops.join(",")));
        }
        out
    }

    #[test]
    fn verif_c14_circ() {
        run_suite("c14_circ", generate, exec);
    }
}

// ------------------------------------------------------------------------------------------------
// C14 (b): OrderingSender at poll granularity.   Request:  c14.sender <cap> <ws> <rs> <op,op,…>
//   ops: s<t>.<i>.<hex> = poll `send(i, msg)` with waker t | c<t>.<i> = poll `close(i)` |
//        t<t> = `take_next` with waker t
//   response item per poll: `<res>|<woken>`; <res> = R | P | N | =<hex>; <woken> = ids woken during
//   this poll in order (`.`-separated, `-` = none); the trace ends with `panic:<tag>`.
// ------------------------------------------------------------------------------------------------
pub mod c14_wakers {
    use std::{
        sync::{Arc, Mutex},
        task::{Wake, Waker},
    };

    /// A waker that appends its id to a shared log when woken.
    pub struct LogWaker {
        pub id: usize,
        pub log: Arc<Mutex<Vec<usize>>>,
    }

    impl Wake for LogWaker {
        fn wake(self: Arc<Self>) {
            self.log.lock().unwrap().push(self.id);
        }
        fn wake_by_ref(self: &Arc<Self>) {
            self.log.lock().unwrap().push(self.id);
        }
    }

    pub fn waker(id: usize, log: &Arc<Mutex<Vec<usize>>>) -> Waker {
        Waker::from(Arc::new(LogWaker { id, log: Arc::clone(log) }))
    }

    pub fn drain(log: &Arc<Mutex<Vec<usize>>>) -> String {
        let v: Vec<usize> = std::mem::take(&mut *log.lock().unwrap());
        if v.is_empty() {
            "-".into()
        } else {
            v.iter().map(|x| x.to_string()).collect::<Vec<_>>().join(".")
        }
    }
}

pub mod c14_msg {
    use std::convert::Infallible;

    use generic_array::{ArrayLength, GenericArray};

    use crate::ff::Serializable;

    /// A message of `N` arbitrary bytes (never fails to deserialize).
    #[derive(Debug, Clone, PartialEq, Eq)]
    pub struct VMsg<N: ArrayLength>(pub GenericArray<u8, N>);

    impl<N: ArrayLength> VMsg<N> {
        pub fn from_slice(b: &[u8]) -> Self {
            Self(GenericArray::try_from_iter(b.iter().copied()).expect("harness: message length"))
        }
    }

    impl<N: ArrayLength> Serializable for VMsg<N> {
        type Size = N;
        type DeserializationError = Infallible;

        fn serialize(&self, buf: &mut GenericArray<u8, Self::Size>) {
            buf.copy_from_slice(&self.0);
        }

        fn deserialize(buf: &GenericArray<u8, Self::Size>) -> Result<Self, Self::DeserializationError> {
            Ok(Self(buf.clone()))
        }
    }
}

mod c14_sender {
    use std::{
        future::Future,
        num::NonZeroUsize,
        pin::pin,
        sync::{Arc, Mutex},
        task::{Context, Poll},
    };

    use typenum::{U1, U2, U3, U4, U5, U6, U7, U8};

    use super::{
        super::OrderingSender,
        c14_msg::VMsg,
        c14_wakers::{drain, waker},
    };
    use crate::ipa_verif::proto::*;

    fn tag(msg: &str) -> String {
        const TAGS: &[&str] = &[
            "attempt to write/close at index",
            "writing on a closed stream",
            "Already closed",
            "Expect to keep messages of size",
            "must all be greater than zero",
            "write size must divide capacity",
            "write size must divide read_size",
        ];
        for t in TAGS {
            if msg.contains(t) {
                return format!("panic:{t}");
            }
        }
        msg.to_string()
    }

    fn poll_send(s: &OrderingSender, i: usize, m: &[u8], cx: &mut Context<'_>) -> Poll<()> {
        macro_rules! go {
            ($n:ty) => {{
                let msg = VMsg::<$n>::from_slice(m);
                let fut = s.send::<VMsg<$n>, _>(i, msg);
                pin!(fut).poll(cx)
            }};
        }
        match m.len() {
            1 => go!(U1),
            2 => go!(U2),
            3 => go!(U3),
            4 => go!(U4),
            5 => go!(U5),
            6 => go!(U6),
            7 => go!(U7),
            8 => go!(U8),
            n => panic!("harness: unsupported message size {n}"),
        }
    }

    pub fn exec(req: &str) -> String {
        let t: Vec<&str> = req.split(' ').collect();
        assert_eq!(t[0], "c14.sender");
        let nz = |s: &str| NonZeroUsize::new(s.parse::<usize>().unwrap());
        let (Some(cap), Some(ws), Some(rs)) = (nz(t[1]), nz(t[2]), nz(t[3])) else {
            return "panic:must all be greater than zero".into(); // NonZeroUsize: not constructible
        };
        let sender = match guarded(|| OrderingSender::new(cap, ws, rs)) {
            Ok(s) => s,
            Err(p) => return tag(&p),
        };
        let log = Arc::new(Mutex::new(Vec::new()));
        let mut out: Vec<String> = vec![];
        if t[4] != "-" {
            for op in t[4].split(',') {
                let f: Vec<&str> = op[1..].split('.').collect();
                let w = waker(f[0].parse().unwrap(), &log);
                let mut cx = Context::from_waker(&w);
                let r = match op.as_bytes()[0] {
                    b's' => {
                        let m = unhex(if f[2].is_empty() { "-" } else { f[2] });
                        guarded(|| match poll_send(&sender, f[1].parse().unwrap(), &m, &mut cx) {
                            Poll::Ready(()) => "R".to_string(),
                            Poll::Pending => "P".to_string(),
                        })
                    }
                    b'c' => guarded(|| {
                        let fut = sender.close(f[1].parse().unwrap());
                        match pin!(fut).poll(&mut cx) {
                            Poll::Ready(()) => "R".to_string(),
                            Poll::Pending => "P".to_string(),
                        }
                    }),
                    b't' => guarded(|| match sender.take_next(&cx) {
                        Poll::Ready(Some(v)) => format!("={}", hex(&v)),
                        Poll::Ready(None) => "N".to_string(),
                        Poll::Pending => "P".to_string(),
                    }),
                    _ => panic!("harness: bad op {op}"),
                };
                match r {
                    Ok(s) => out.push(format!("{s}|{}", drain(&log))),
                    Err(p) => {
                        out.push(tag(&p));
                        break;
                    }
                }
            }
        }
        if out.is_empty() { "-".into() } else { out.join(";") }
    }

    // ---- generator -----------------------------------------------------------------------------
    /// Generator-side prediction of Ready/Pending (only to know which tasks are still unfinished).
    #[derive(Clone)]
    struct Abs {
        cap: usize,
        ws: usize,
        rs: usize,
        next: usize,
        len: usize,
        closed: bool,
    }

    #[derive(Clone, Copy, PartialEq)]
    enum Pred {
        Ready,
        Pending,
        Panic,
    }

    impl Abs {
        fn send(&mut self, i: usize, n: usize) -> Pred {
            if i < self.next {
                Pred::Panic
            } else if i > self.next {
                Pred::Pending
            } else if self.closed {
                Pred::Panic
            } else if self.cap - self.len < self.ws {
                Pred::Pending
            } else if n != self.ws {
                Pred::Panic
            } else {
                self.len += self.ws;
                self.next += 1;
                Pred::Ready
            }
        }
        fn close(&mut self, i: usize) -> Pred {
            if i < self.next {
                Pred::Panic
            } else if i > self.next {
                Pred::Pending
            } else if self.closed {
                Pred::Panic
            } else {
                self.closed = true;
                self.next += 1;
                Pred::Ready
            }
        }
        /// true if the stream is finished (Ready(None))
        fn take(&mut self) -> bool {
            if (self.closed && self.len > 0) || self.len >= self.rs {
                self.len -= self.rs.min(self.len);
                false
            } else {
                self.closed
            }
        }
    }

    fn msg_for(i: usize, ws: usize) -> String {
        hex(&(0..ws).map(|k| ((i * 7 + k * 3 + 1) % 256) as u8).collect::<Vec<u8>>())
    }

    /// A task: writer of index i (`Some(i)`, waker 10+i) or the closer (`None`, waker 50).
    fn poll_task(a: &mut Abs, ops: &mut Vec<String>, task: Option<usize>, n: usize) -> Pred {
        match task {
            Some(i) => {
                ops.push(format!("s{}.{}.{}", 10 + i, i, msg_for(i, a.ws)));
                a.send(i, a.ws)
            }
            None => {
                ops.push(format!("c50.{n}"));
                a.close(n)
            }
        }
    }

    /// n writers + closer: first polls in the order `perm` (n = closer), the reader polled every
    /// `every` polls; then rounds over the unfinished tasks (ascending or descending) with a reader
    /// poll in between, until everything is done and the stream is finished.
    fn schedule(cap: usize, ws: usize, rs: usize, n: usize, perm: &[usize], every: usize, desc: bool) -> String {
        let mut a = Abs { cap, ws, rs, next: 0, len: 0, closed: false };
        let mut ops = vec![];
        let mut done = vec![false; n + 1];
        let mut finished = false;
        let mut k = 0;
        for &p in perm {
            let r = poll_task(&mut a, &mut ops, if p == n { None } else { Some(p) }, n);
            done[p] = r == Pred::Ready;
            k += 1;
            if every > 0 && k % every == 0 {
                ops.push("t99".into());
                finished = a.take();
            }
        }
        let mut rounds = 0;
        while (!finished || done.iter().any(|d| !d)) && rounds < 4 * (n + 2) {
            rounds += 1;
            let mut order: Vec<usize> = (0..=n).filter(|&p| !done[p]).collect();
            if desc {
                order.reverse();
            }
            for p in order {
                let r = poll_task(&mut a, &mut ops, if p == n { None } else { Some(p) }, n);
                done[p] = r == Pred::Ready;
            }
            ops.push("t99".into());
            finished = a.take();
        }
        format!("c14.sender {cap} {ws} {rs} {}", ops.join(","))
    }

    fn permutations(n: usize) -> Vec<Vec<usize>> {
        fn go(k: usize, cur: &mut Vec<usize>, out: &mut Vec<Vec<usize>>) {
            if k == cur.len() {
                out.push(cur.clone());
                return;
            }
            for j in k..cur.len() {
                cur.swap(k, j);
                go(k + 1, cur, out);
                cur.swap(k, j);
            }
        }
        let mut out = vec![];
        go(0, &mut (0..n).collect(), &mut out);
        out
    }

    pub fn generate(rng: &mut Rng, thorough: bool) -> Vec<String> {
        let mut out = vec![];
        // constructor boundaries
        for (c, w, r) in [(0, 1, 1), (1, 0, 1), (1, 1, 0), (4, 3, 3), (6, 2, 3), (1, 1, 1), (4, 2, 8)] {
            out.push(format!("c14.sender {c} {w} {r} -"));
        }
        // hand-written boundaries: reader before any data; close on an empty sender; duplicate
        // index; send after close; close twice; wrong message size; re-poll after Ready
        for ops in [
            "t99,t99,c50.0,t99,t99",
            "t99,s10.0.0102,t99,s11.1.0304,t99,c50.2,t99",
            "s10.0.0102,s10.0.0102",
            "s10.0.0102,s12.0.0304",
            "c50.0,s10.1.0102",
            "c50.0,c51.1",
            "c50.1,c51.1,s10.0.0102,c50.1,c51.1",
            "s10.0.010203",
            "s10.0.01",
            "s11.1.01,s10.0.0102,s11.1.01",
            "s11.1.0304,s12.1.0304,s10.0.0102",
            "s10.0.0102,s11.1.0304,s12.2.0506,t98,t99,s12.2.0506,t99,t98",
            "s12.2.0506,s11.1.0304,c50.3,s10.0.0102,s11.1.0304,s12.2.0506,t99,s12.2.0506,c50.3,t99,t99,t99",
            "s11.1.0304,c50.1,s10.0.0102,c50.1,t99,s11.1.0304",
        ] {
            out.push(format!("c14.sender 4 2 2 {ops}"));
            out.push(format!("c14.sender 4 2 4 {ops}"));
            out.push(format!("c14.sender 8 2 4 {ops}"));
        }
        // all first-poll permutations of n writers + closer
        let cfgs: &[(usize, usize, usize)] = &[(2, 1, 1), (2, 1, 2), (4, 2, 2), (4, 2, 4), (6, 2, 4), (8, 2, 4), (3, 3, 3), (16, 4, 8)];
        let max_n = if thorough { 6 } else { 5 };
        for n in 0..=max_n {
            let perms = permutations(n + 1);
            for (pi, perm) in perms.iter().enumerate() {
                for (ci, &(c, w, r)) in cfgs.iter().enumerate() {
                    // thin out the larger n in the quick tier (every permutation still appears with some cfg)
                    if !thorough && n >= 4 && (pi + ci) % (if n == 4 { 2 } else { 8 }) != 0 {
                        continue;
                    }
                    let every = [0usize, 1, 2, 3][(pi + ci) % 4];
                    out.push(schedule(c, w, r, n, perm, every, (pi / 4 + ci) % 2 == 0));
                }
            }
        }
        if thorough {
            // n = 6: all 7! orders on two configurations
            for (pi, perm) in permutations(7).iter().enumerate() {
                out.push(schedule(4, 2, 2, 6, perm, pi % 4, pi % 2 == 0));
                out.push(schedule(6, 1, 3, 6, perm, (pi + 1) % 4, pi % 2 == 1));
            }
        } else {
            let perms = permutations(7);
            for k in 0..400 {
                let perm = &perms[rng.usize_below(perms.len())];
                let &(c, w, r) = rng.pick(cfgs);
                out.push(schedule(c, w, r, 6, perm, k % 4, rng.bool()));
            }
        }
        // random schedules (with spurious re-polls and occasional misuse)
        let nrand = if thorough { 20_000 } else { 2_000 };
        for _ in 0..nrand {
            let ws = *rng.pick(&[1usize, 1, 2, 3, 4, 8]);
            let cap = ws * (1 + rng.usize_below(6));
            let rs = ws * (1 + rng.usize_below(cap / ws));
            let n = 1 + rng.usize_below(6);
            let mut a = Abs { cap, ws, rs, next: 0, len: 0, closed: false };
            let mut ops = vec![];
            let mut done = vec![false; n + 1];
            let mut finished = false;
            let misuse = rng.below(10) == 0;
            let reader_p = *rng.pick(&[10u64, 25, 50]);
            let mut steps = 0;
            while (!finished || done.iter().any(|d| !d)) && steps < 40 * (n + 2) {
                steps += 1;
                if rng.below(100) < reader_p {
                    ops.push(format!("t{}", if rng.below(16) == 0 { 98 } else { 99 }));
                    finished = a.take();
                    continue;
                }
                let cand: Vec<usize> = (0..=n).filter(|&p| !done[p]).collect();
                if cand.is_empty() {
                    ops.push("t99".into());
                    finished = a.take();
                    continue;
                }
                // bias towards the task whose turn it is, so schedules make progress
                let p = if rng.below(3) == 0 && !done[a.next.min(n)] { a.next.min(n) } else { *rng.pick(&cand) };
                if misuse && rng.below(12) == 0 {
                    // misuse: wrong size / finished task polled again / second task for the same index
                    match rng.below(3) {
                        0 => {
                            let sz = if ws == 8 { 7 } else { ws + 1 };
                            ops.push(format!("s{}.{}.{}", 10 + p.min(n - 1), p.min(n - 1), msg_for(p, sz)));
                            if a.send(p.min(n - 1), sz) == Pred::Panic {
                                break;
                            }
                        }
                        1 => {
                            let q = rng.usize_below(n);
                            ops.push(format!("s{}.{}.{}", 30 + q, q, msg_for(q, ws)));
                            let r = a.send(q, ws);
                            if r == Pred::Panic {
                                break;
                            }
                            if r == Pred::Ready {
                                done[q] = true;
                            }
                        }
                        _ => {
                            let q = rng.usize_below(n + 1);
                            ops.push(format!("c51.{q}"));
                            let r = a.close(q);
                            if r == Pred::Panic {
                                break;
                            }
                            if r == Pred::Ready && q == n {
                                done[n] = true;
                            }
                        }
                    }
                    continue;
                }
                let r = poll_task(&mut a, &mut ops, if p == n { None } else { Some(p) }, n);
                if r == Pred::Panic {
                    break;
                }
                done[p] = r == Pred::Ready;
            }
            out.push(format!("c14.sender {cap} {ws} {rs} {}", ops.join(",")));
        }
        // indices crossing the shard boundaries (64-wide blocks, 8 shards, wrap at 512)
        let far = if thorough { 1100 } else { 530 };
        for (cap, rs, desc) in [(4usize, 2usize, false), (8, 8, true), (3, 1, false)] {
            let parked: Vec<usize> = vec![1, 2, 62, 63, 64, 65, 127, 128, 129, 191, 192, 255, 256, 320, 448, 511, 512, 513, 520, 575, 576, 1023, 1024, 1025]
                .into_iter()
                .filter(|&x| x < far)
                .collect();
            let mut a = Abs { cap, ws: 1, rs, next: 0, len: 0, closed: false };
            let mut ops = vec![];
            let mut order = parked.clone();
            if desc {
                order.reverse();
            }
            for &i in &order {
                ops.push(format!("s{}.{}.{}", 2000 + i, i, msg_for(i, 1)));
                a.send(i, 1);
            }
            ops.push(format!("c5000.{far}"));
            a.close(far);
            let mut i = 0;
            while i < far {
                let id = if parked.contains(&i) { 2000 + i } else { 7 };
                ops.push(format!("s{id}.{i}.{}", msg_for(i, 1)));
                match a.send(i, 1) {
                    Pred::Ready => i += 1,
                    _ => {
                        ops.push("t99".into());
                        a.take();
                    }
                }
            }
            ops.push(format!("c5000.{far}"));
            a.close(far);
            for _ in 0..(cap + 2) {
                ops.push("t99".into());
            }
            out.push(format!("c14.sender {cap} 1 {rs} {}", ops.join(",")));
        }
        out
    }

    #[test]
    fn verif_c14_sender() {
        run_suite("c14_sender", generate, exec);
    }
}

// ------------------------------------------------------------------------------------------------
// C14 (c): UnorderedReceiver over a scripted byte stream.   Request:  c14.recv <sz> <cap> <op,…>
//   ops: f<hex> = a chunk becomes available (`f` = empty chunk) | e = the stream ends |
//        r<t>.<i> = poll `recv(i)` with waker t
//   response item: `<res>|<woken>`; <res> = - (feed/end) | P | =<hex> | E<n>; ends at `panic:<tag>`.
// ------------------------------------------------------------------------------------------------
mod c14_receiver {
    use std::{
        collections::VecDeque,
        future::Future,
        num::NonZeroUsize,
        pin::{Pin, pin},
        sync::{Arc, Mutex},
        task::{Context, Poll, Waker},
    };

    use futures::Stream;
    use typenum::{U1, U2, U3, U4, U5, U6, U7, U8};

    use super::{
        super::{UnorderedReceiver, UnorderedReceiverError},
        c14_msg::VMsg,
        c14_wakers::{drain, waker},
    };
    use crate::ipa_verif::proto::*;

    #[derive(Default)]
    struct Source {
        queue: VecDeque<Vec<u8>>,
        ended: bool,
        waker: Option<Waker>,
    }

    /// The scripted byte stream handed to the receiver.
    struct Scripted(Arc<Mutex<Source>>);

    impl Stream for Scripted {
        type Item = Vec<u8>;

        fn poll_next(self: Pin<&mut Self>, cx: &mut Context<'_>) -> Poll<Option<Self::Item>> {
            let mut s = self.0.lock().unwrap();
            if let Some(c) = s.queue.pop_front() {
                Poll::Ready(Some(c))
            } else if s.ended {
                Poll::Ready(None)
            } else {
                s.waker = Some(cx.waker().clone());
                Poll::Pending
            }
        }
    }

    fn poll_recv(r: &UnorderedReceiver<Scripted, Vec<u8>>, sz: usize, i: usize, cx: &mut Context<'_>) -> String {
        macro_rules! go {
            ($n:ty) => {{
                let fut = r.recv::<VMsg<$n>, usize>(i);
                match pin!(fut).poll(cx) {
                    Poll::Pending => "P".to_string(),
                    Poll::Ready(Ok(m)) => format!("={}", hex(&m.0)),
                    Poll::Ready(Err(UnorderedReceiverError::EndOfStream(e))) => format!("E{}", usize::from(e.0)),
                    Poll::Ready(Err(e)) => format!("err:{e}"),
                }
            }};
        }
        match sz {
            1 => go!(U1),
            2 => go!(U2),
            3 => go!(U3),
            4 => go!(U4),
            5 => go!(U5),
            6 => go!(U6),
            7 => go!(U7),
            8 => go!(U8),
            n => panic!("harness: unsupported message size {n}"),
        }
    }

    pub fn exec(req: &str) -> String {
        let t: Vec<&str> = req.split(' ').collect();
        assert_eq!(t[0], "c14.recv");
        let sz: usize = t[1].parse().unwrap();
        let Some(cap) = NonZeroUsize::new(t[2].parse().unwrap()) else {
            return "panic:a capacity of 1 is too small".into(); // 0 is not constructible
        };
        let src = Arc::new(Mutex::new(Source::default()));
        let recv = match guarded(|| UnorderedReceiver::new(Box::pin(Scripted(Arc::clone(&src))), cap)) {
            Ok(r) => r,
            Err(p) if p.contains("a capacity of 1 is too small") => return "panic:a capacity of 1 is too small".into(),
            Err(p) => return p,
        };
        let log = Arc::new(Mutex::new(Vec::new()));
        let mut out: Vec<String> = vec![];
        if t[3] != "-" {
            for op in t[3].split(',') {
                let r = match op.as_bytes()[0] {
                    b'f' => {
                        let w = {
                            let mut s = src.lock().unwrap();
                            s.queue.push_back(unhex(if op.len() == 1 { "-" } else { &op[1..] }));
                            s.waker.take()
                        };
                        if let Some(w) = w {
                            w.wake();
                        }
                        Ok("-".to_string())
                    }
                    b'e' => {
                        let w = {
                            let mut s = src.lock().unwrap();
                            s.ended = true;
                            s.waker.take()
                        };
                        if let Some(w) = w {
                            w.wake();
                        }
                        Ok("-".to_string())
                    }
                    b'r' => {
                        let f: Vec<&str> = op[1..].split('.').collect();
                        let w = waker(f[0].parse().unwrap(), &log);
                        let mut cx = Context::from_waker(&w);
                        guarded(|| poll_recv(&recv, sz, f[1].parse().unwrap(), &mut cx))
                    }
                    _ => panic!("harness: bad op {op}"),
                };
                match r {
                    Ok(s) => out.push(format!("{s}|{}", drain(&log))),
                    Err(p) => {
                        out.push(if p.contains("Awaiting a read") { "panic:Awaiting a read".into() } else { p });
                        break;
                    }
                }
            }
        }
        if out.is_empty() { "-".into() } else { out.join(";") }
    }

    // ---- generator -----------------------------------------------------------------------------
    /// All ways to cut `len` bytes into non-empty chunks.
    fn compositions(len: usize) -> Vec<Vec<usize>> {
        if len == 0 {
            return vec![vec![]];
        }
        let mut out = vec![];
        for first in 1..=len {
            for mut rest in compositions(len - first) {
                rest.insert(0, first);
                out.push(rest);
            }
        }
        out
    }

    fn permutations(n: usize) -> Vec<Vec<usize>> {
        fn go(k: usize, cur: &mut Vec<usize>, out: &mut Vec<Vec<usize>>) {
            if k == cur.len() {
                out.push(cur.clone());
                return;
            }
            for j in k..cur.len() {
                cur.swap(k, j);
                go(k + 1, cur, out);
                cur.swap(k, j);
            }
        }
        let mut out = vec![];
        go(0, &mut (0..n).collect(), &mut out);
        out
    }

    struct Gen {
        sz: usize,
        fed: usize,
        next: usize,
        ops: Vec<String>,
        ctr: usize,
    }

    impl Gen {
        fn feed(&mut self, n: usize) {
            let v: Vec<u8> = (0..n)
                .map(|_| {
                    self.ctr += 1;
                    (self.ctr % 251) as u8
                })
                .collect();
            self.fed += n;
            self.ops.push(format!("f{}", if v.is_empty() { String::new() } else { hex(&v) }));
        }
        /// poll recv(i) with waker 100+i; returns true if it resolves (prediction)
        fn recv(&mut self, i: usize) -> bool {
            self.ops.push(format!("r{}.{}", 100 + i, i));
            if i == self.next && (i + 1) * self.sz <= self.fed {
                self.next += 1;
                true
            } else {
                false
            }
        }
    }

    /// One schedule: n requests in `perm` order over the chunking `cuts` (+ `extra` trailing bytes),
    /// `mode` 0: requests first, then chunk by chunk with re-polls; 1: data first; 2: interleaved.
    fn schedule(sz: usize, cap: usize, n: usize, perm: &[usize], cuts: &[usize], extra: usize, mode: usize, empties: bool) -> String {
        let mut g = Gen { sz, fed: 0, next: 0, ops: vec![], ctr: 0 };
        let mut done = vec![false; n];
        let mut repoll = |g: &mut Gen, done: &mut Vec<bool>| {
            // poll the unfinished requests in perm order until no more progress
            loop {
                let mut progress = false;
                for &p in perm {
                    if !done[p] && g.recv(p) {
                        done[p] = true;
                        progress = true;
                    }
                }
                if !progress {
                    break;
                }
            }
        };
        if mode == 0 {
            for &p in perm {
                done[p] = g.recv(p);
            }
        }
        for (k, &c) in cuts.iter().enumerate() {
            if empties && k % 2 == 0 {
                g.feed(0);
            }
            g.feed(c);
            match mode {
                0 => repoll(&mut g, &mut done),
                2 => {
                    let p = perm[k % n.max(1)];
                    if n > 0 && !done[p] {
                        done[p] = g.recv(p);
                    }
                }
                _ => {}
            }
        }
        if extra > 0 {
            g.feed(extra);
        }
        if n > 0 {
            repoll(&mut g, &mut done);
        }
        g.ops.push("e".into());
        // after the end: the next unfulfilled request gets EndOfStream, the others stay pending
        for &p in perm {
            if !done[p] {
                g.recv(p);
            }
        }
        g.recv(n); // one past the last
        format!("c14.recv {sz} {cap} {}", g.ops.join(","))
    }

    pub fn generate(rng: &mut Rng, thorough: bool) -> Vec<String> {
        let mut out = vec![];
        for c in [0, 1, 2] {
            out.push(format!("c14.recv 1 {c} -"));
        }
        for ops in [
            "r100.0,e,r100.0,r101.1",
            "e,r100.0",
            "f01,r100.0,r100.0",
            "f0102,r101.1,r100.0,r100.0",
            "r105.5,r104.4,r103.3,r102.2,r101.1,r100.0,f000102030405,r100.0,r101.1,r102.2,r103.3,r104.4,r105.5",
            "r100.0,r200.0,f01,r100.0",
            "r101.1,r201.1,f0102,r100.0",
        ] {
            for cap in [2, 3, 4] {
                out.push(format!("c14.recv 1 {cap} {ops}"));
            }
        }
        // all chunkings x all request orders
        let max_n = if thorough { 5 } else { 4 };
        for sz in 1..=3usize {
            for n in 0..=max_n {
                let total = n * sz;
                if total > (if thorough { 10 } else { 8 }) {
                    continue;
                }
                let comps = compositions(total);
                let perms = permutations(n);
                for (ci, cuts) in comps.iter().enumerate() {
                    for (pi, perm) in perms.iter().enumerate() {
                        let k = ci + pi;
                        // quick: every (chunking, order) pair appears with one (cap, mode); thorough: all modes
                        let caps: &[usize] = &[2, 3, 4, 8];
                        if thorough {
                            for mode in 0..3 {
                                out.push(schedule(sz, caps[k % 4], n, perm, cuts, k % sz, mode, k % 3 == 0));
                            }
                        } else {
                            out.push(schedule(sz, caps[k % 4], n, perm, cuts, k % sz, k % 3, k % 5 == 0));
                        }
                    }
                }
            }
        }
        // random: long streams, big chunks, far-ahead requests (overflow), shared wakers
        let nrand = if thorough { 20_000 } else { 2_000 };
        for _ in 0..nrand {
            let sz = 1 + rng.usize_below(8);
            let cap = *rng.pick(&[2usize, 2, 3, 4, 5, 8, 16]);
            let n = 1 + rng.usize_below(40);
            let mut g = Gen { sz, fed: 0, next: 0, ops: vec![], ctr: rng.usize_below(251) };
            let total = n * sz + if rng.below(3) == 0 { rng.usize_below(sz) } else { 0 };
            let mut steps = 0;
            let ahead = *rng.pick(&[1usize, 2, 2 * cap + 3, 4 * cap]);
            while (g.next < n || g.fed < total) && steps < 60 * n {
                steps += 1;
                let x = rng.below(100);
                if x < 35 && g.fed < total {
                    let c = match rng.below(5) {
                        0 => 0,
                        1 => 1,
                        2 => sz,
                        3 => 1 + rng.usize_below(3 * sz),
                        _ => 1 + rng.usize_below(sz),
                    };
                    g.feed(c.min(total - g.fed));
                } else if x < 65 {
                    let i = g.next;
                    g.recv(i);
                } else {
                    let i = g.next + rng.usize_below(ahead + 1);
                    if rng.below(20) == 0 {
                        // a different task (waker) asks for the same index
                        g.ops.push(format!("r{}.{}", 300 + i, i));
                        if i == g.next && (i + 1) * sz <= g.fed {
                            g.next += 1;
                        }
                    } else {
                        g.recv(i);
                    }
                }
            }
            if rng.bool() {
                g.ops.push("e".into());
                let i = g.next;
                g.recv(i);
                g.recv(i + 1);
            } else if rng.below(8) == 0 && g.next > 0 {
                let i = rng.usize_below(g.next);
                g.recv(i); // already fulfilled: panic
            }
            out.push(format!("c14.recv {sz} {cap} {}", g.ops.join(",")));
        }
        out
    }

    #[test]
    fn verif_c14_receiver() {
        run_suite("c14_receiver", generate, exec);
    }
}

// ------------------------------------------------------------------------------------------------
// C14 (d): atomic-level replay on the REAL `OrderingSender` (real `next`, real `Waiting` shards, real
// `State`), through the single-access accessors `verif_*` (repo commit "verif hooks: test-only
// single-access accessors on OrderingSender").
//
//   Request:  c14.atomic <cap> <ws> <rs> <base> <n> <closer> <schedule>
//     n `Send` futures: task t (waker id t) has index base + t and a ws-byte message;
//     closer = 1: task n is `Close { i: base + n }`; the stream is task 99 (`r` in the schedule).
//     The first `base` indices are sent (and drained) by whole polls before the schedule starts.
//     <schedule>: `.`-separated task ids / `r`; each token lets that task perform its NEXT shared
//     access, in the program order of `next_op` / `Send::poll` / `Close::poll` / `take_next`:
//       load | (curr > i: panic) | (curr = i: state critical section) | (curr < i: waiting.add)
//       | next.fetch_add | waiting.wake(i + 1);   reader: state.take | next.load | waiting.wake(next)
//   Response: `,`-separated `<obs>|<woken>` per token, then `;N=<next>;W=<woken_at of the 8 shards>`
//     obs: L<curr> | X | C:R | C:P | X:<tag> | A+ | A- | F<prev> | K | T=<hex> | T:P | T:N | - (no-op)
// ------------------------------------------------------------------------------------------------
mod c14_atomic {
    use std::{
        collections::{BTreeMap, VecDeque},
        num::NonZeroUsize,
        sync::{Arc, Mutex},
        task::{Context, Poll},
    };

    use typenum::{U1, U2, U3, U4};

    use super::{
        super::OrderingSender,
        c14_msg::VMsg,
        c14_wakers::{drain, waker},
    };
    use crate::ipa_verif::proto::*;

    #[derive(Clone, Copy, Debug, PartialEq, Eq, Hash, PartialOrd, Ord)]
    enum Pc {
        Fresh,
        WaitTurn,
        WaitSpace,
        Polling,
        Loaded(usize),
        Wrote,
        Incd,
        Done,
        Panicked,
    }

    #[derive(Clone, Debug, PartialEq, Eq, Hash, PartialOrd, Ord)]
    enum RPc {
        Idle,
        Took,
        Loaded(usize),
        Finished,
    }

    fn msg_for(i: usize, ws: usize) -> Vec<u8> {
        (0..ws).map(|k| ((i * 7 + k * 3 + 1) % 256) as u8).collect()
    }

    fn state_write(s: &OrderingSender, m: &[u8], cx: &Context<'_>) -> Poll<()> {
        macro_rules! go {
            ($n:ty) => {{
                let msg = VMsg::<$n>::from_slice(m);
                s.verif_state_write::<VMsg<$n>>(&msg, cx)
            }};
        }
        match m.len() {
            1 => go!(U1),
            2 => go!(U2),
            3 => go!(U3),
            4 => go!(U4),
            n => panic!("harness: unsupported message size {n}"),
        }
    }

    fn tag(msg: &str) -> String {
        for t in ["writing on a closed stream", "Already closed", "Expect to keep messages of size"] {
            if msg.contains(t) {
                return format!("X:{t}");
            }
        }
        format!("X:{msg}")
    }

    pub fn exec(req: &str) -> String {
        let t: Vec<&str> = req.split(' ').collect();
        assert_eq!(t[0], "c14.atomic");
        let p = |s: &str| s.parse::<usize>().unwrap();
        let (cap, ws, rs, base, n, closer) = (p(t[1]), p(t[2]), p(t[3]), p(t[4]), p(t[5]), p(t[6]));
        let s = OrderingSender::new(
            NonZeroUsize::new(cap).unwrap(),
            NonZeroUsize::new(ws).unwrap(),
            NonZeroUsize::new(rs).unwrap(),
        );
        let log = Arc::new(Mutex::new(Vec::new()));
        let rw = waker(99, &log);
        let rcx = Context::from_waker(&rw);
        // prefix: indices 0..base by whole polls (same access order), drained by the reader
        for j in 0..base {
            let w = waker(1000 + j, &log);
            let cx = Context::from_waker(&w);
            let c = s.verif_next_load();
            assert_eq!(c, j, "harness prefix");
            assert!(state_write(&s, &msg_for(j, ws), &cx).is_ready(), "harness prefix: buffer full");
            s.verif_next_fetch_add();
            s.verif_waiting_wake(j + 1);
            if let (Poll::Ready(_), _) = s.verif_state_take(&rcx) {
                let nx = s.verif_next_load();
                s.verif_waiting_wake(nx);
            }
        }
        drain(&log);
        let ntasks = n + closer;
        let mut pcs = vec![Pc::Fresh; ntasks];
        let wakers: Vec<_> = (0..ntasks).map(|k| waker(k, &log)).collect();
        let mut rpc = RPc::Idle;
        let mut out: Vec<String> = vec![];
        if t[7] != "-" {
            for tok in t[7].split('.') {
                let obs: String = if tok == "r" {
                    match rpc.clone() {
                        RPc::Idle | RPc::Finished => match s.verif_state_take(&rcx) {
                            (Poll::Ready(v), _) => {
                                rpc = RPc::Took;
                                format!("T={}", hex(&v))
                            }
                            (Poll::Pending, true) => {
                                rpc = RPc::Finished;
                                "T:N".into()
                            }
                            (Poll::Pending, false) => {
                                rpc = RPc::Idle;
                                "T:P".into()
                            }
                        },
                        RPc::Took => {
                            let nx = s.verif_next_load();
                            rpc = RPc::Loaded(nx);
                            format!("L{nx}")
                        }
                        RPc::Loaded(nx) => {
                            s.verif_waiting_wake(nx);
                            rpc = RPc::Idle;
                            "K".into()
                        }
                    }
                } else {
                    let k: usize = tok.parse().unwrap();
                    let idx = base + k;
                    let is_close = k >= n;
                    let cx = Context::from_waker(&wakers[k]);
                    match pcs[k] {
                        Pc::Fresh | Pc::WaitTurn | Pc::WaitSpace | Pc::Polling => {
                            let c = s.verif_next_load();
                            pcs[k] = Pc::Loaded(c);
                            format!("L{c}")
                        }
                        Pc::Loaded(c) if c > idx => {
                            pcs[k] = Pc::Panicked;
                            "X".into()
                        }
                        Pc::Loaded(c) if c == idx => {
                            let r = if is_close {
                                guarded(|| {
                                    s.verif_state_close();
                                    Poll::Ready(())
                                })
                            } else {
                                guarded(|| state_write(&s, &msg_for(idx, ws), &cx))
                            };
                            match r {
                                Ok(Poll::Ready(())) => {
                                    pcs[k] = Pc::Wrote;
                                    "C:R".into()
                                }
                                Ok(Poll::Pending) => {
                                    pcs[k] = Pc::WaitSpace;
                                    "C:P".into()
                                }
                                Err(p) => {
                                    pcs[k] = Pc::Panicked;
                                    tag(&p)
                                }
                            }
                        }
                        Pc::Loaded(c) => {
                            if s.verif_waiting_add(c, idx, &wakers[k]) {
                                pcs[k] = Pc::WaitTurn;
                                "A+".into()
                            } else {
                                pcs[k] = Pc::Polling;
                                "A-".into()
                            }
                        }
                        Pc::Wrote => {
                            let prev = s.verif_next_fetch_add();
                            if prev == idx {
                                pcs[k] = if is_close { Pc::Done } else { Pc::Incd };
                                format!("F{prev}")
                            } else {
                                pcs[k] = Pc::Panicked;
                                format!("X:F{prev}")
                            }
                        }
                        Pc::Incd => {
                            s.verif_waiting_wake(idx + 1);
                            pcs[k] = Pc::Done;
                            "K".into()
                        }
                        Pc::Done | Pc::Panicked => "-".into(),
                    }
                };
                out.push(format!("{obs}|{}", drain(&log)));
            }
        }
        let w: Vec<String> = s.verif_woken_at().iter().map(ToString::to_string).collect();
        format!("{};N={};W={}", if out.is_empty() { "-".into() } else { out.join(",") }, s.verif_next_load(), w.join("."))
    }

    // ---- generator: an abstract copy of the access protocol, used only to enumerate schedules ----
    #[derive(Clone, PartialEq, Eq, Hash, PartialOrd, Ord)]
    struct G {
        next: usize,
        len: usize,
        closed: bool,
        write_ready: Option<usize>,
        stream_ready: bool,
        woken_at: [usize; 8],
        wakers: Vec<usize>, // indices registered (sorted)
        pcs: Vec<Pc>,
        woken: Vec<bool>,
        rpc: RPc,
        rwoken: bool,
        rpolled: bool,
        rbudget: usize,
    }

    #[derive(Clone, Copy)]
    struct Par {
        cap: usize,
        ws: usize,
        rs: usize,
        base: usize,
        n: usize,
        closer: usize,
        spurious_reader: bool,
    }

    fn shard(i: usize) -> usize {
        (i >> 6) % 8
    }

    impl G {
        fn new(p: &Par, rbudget: usize) -> G {
            let mut woken_at = [0usize; 8];
            for j in 0..p.base {
                // prefix: wake(j + 1) by the sender, wake(next = j + 1) by the reader
                let sh = shard(j + 1);
                woken_at[sh] = woken_at[sh].max(j + 1);
            }
            G {
                next: p.base,
                len: 0,
                closed: false,
                write_ready: None,
                stream_ready: false,
                woken_at,
                wakers: vec![],
                pcs: vec![Pc::Fresh; p.n + p.closer],
                woken: vec![false; p.n + p.closer],
                rpc: RPc::Idle,
                rwoken: false,
                rpolled: false,
                rbudget,
            }
        }
        fn can_read(&self, p: &Par) -> bool {
            (self.closed && self.len > 0) || self.len >= p.rs
        }
        fn can_write(&self, p: &Par) -> bool {
            !self.closed && p.cap - self.len >= p.ws
        }
        fn holds(&self) -> bool {
            matches!(self.rpc, RPc::Took | RPc::Loaded(_))
        }
        /// tokens enabled in this state (a parked task only when it has been woken)
        fn enabled(&self, p: &Par) -> Vec<usize> {
            let mut en = vec![];
            for (k, pc) in self.pcs.iter().enumerate() {
                let ok = match pc {
                    Pc::Fresh | Pc::Polling | Pc::Wrote | Pc::Incd => true,
                    Pc::Loaded(c) => *c != p.base + k || !self.holds(),
                    Pc::WaitTurn | Pc::WaitSpace => self.woken[k],
                    Pc::Done | Pc::Panicked => false,
                };
                if ok {
                    en.push(k);
                }
            }
            let r_ok = match self.rpc {
                RPc::Took | RPc::Loaded(_) => true,
                RPc::Idle | RPc::Finished => {
                    self.rbudget > 0 && self.rpc != RPc::Finished && (!self.rpolled || self.rwoken || p.spurious_reader)
                }
            };
            if r_ok {
                en.push(99);
            }
            en
        }
        fn wake(&mut self, p: &Par, j: usize) {
            let sh = shard(j);
            self.woken_at[sh] = self.woken_at[sh].max(j);
            // entries of the same shard below j are dropped only if j itself is registered
            if self.wakers.contains(&j) {
                self.wakers.retain(|&x| !(shard(x) == sh && x <= j));
                let k = j - p.base;
                if k < self.woken.len() {
                    self.woken[k] = true;
                }
            }
        }
        fn step(&mut self, p: &Par, tok: usize) {
            if tok == 99 {
                match self.rpc.clone() {
                    RPc::Idle | RPc::Finished => {
                        self.rbudget -= 1;
                        self.rpolled = true;
                        self.rwoken = false;
                        if self.can_read(p) {
                            let cw = self.can_write(p);
                            self.len -= p.rs.min(self.len);
                            if !cw {
                                if let Some(k) = self.write_ready.take() {
                                    self.woken[k] = true;
                                }
                            }
                            self.rpc = RPc::Took;
                        } else {
                            self.stream_ready = true;
                            self.rpc = if self.closed { RPc::Finished } else { RPc::Idle };
                        }
                    }
                    RPc::Took => self.rpc = RPc::Loaded(self.next),
                    RPc::Loaded(nx) => {
                        self.wake(p, nx);
                        self.rpc = RPc::Idle;
                    }
                }
                return;
            }
            let k = tok;
            let idx = p.base + k;
            let is_close = k >= p.n;
            match self.pcs[k] {
                Pc::Fresh | Pc::WaitTurn | Pc::WaitSpace => {
                    self.woken[k] = false;
                    self.pcs[k] = Pc::Loaded(self.next);
                }
                Pc::Polling => self.pcs[k] = Pc::Loaded(self.next),
                Pc::Loaded(c) if c > idx => self.pcs[k] = Pc::Panicked,
                Pc::Loaded(c) if c == idx => {
                    if is_close {
                        self.closed = true;
                        if self.stream_ready {
                            self.stream_ready = false;
                            self.rwoken = true;
                        }
                        self.pcs[k] = Pc::Wrote;
                    } else if self.closed {
                        self.pcs[k] = Pc::Panicked;
                    } else if !self.can_write(p) {
                        self.write_ready = Some(k);
                        self.pcs[k] = Pc::WaitSpace;
                    } else {
                        self.len += p.ws;
                        if self.can_read(p) && self.stream_ready {
                            self.stream_ready = false;
                            self.rwoken = true;
                        }
                        self.pcs[k] = Pc::Wrote;
                    }
                }
                Pc::Loaded(c) => {
                    if c < self.woken_at[shard(idx)] {
                        self.pcs[k] = Pc::Polling;
                    } else {
                        if !self.wakers.contains(&idx) {
                            self.wakers.push(idx);
                            self.wakers.sort_unstable();
                        }
                        self.pcs[k] = Pc::WaitTurn;
                    }
                }
                Pc::Wrote => {
                    self.next += 1;
                    self.pcs[k] = if is_close { Pc::Done } else { Pc::Incd };
                }
                Pc::Incd => {
                    self.wake(p, idx + 1);
                    self.pcs[k] = Pc::Done;
                }
                Pc::Done | Pc::Panicked => {}
            }
        }
    }

    fn tok_str(t: usize) -> String {
        if t == 99 { "r".into() } else { t.to_string() }
    }

    fn request(p: &Par, sched: &[usize]) -> String {
        let s: Vec<String> = sched.iter().map(|&t| tok_str(t)).collect();
        format!(
            "c14.atomic {} {} {} {} {} {} {}",
            p.cap, p.ws, p.rs, p.base, p.n, p.closer,
            if s.is_empty() { "-".to_string() } else { s.join(".") }
        )
    }

    /// every maximal interleaving (depth-first), up to `limit` schedules
    fn all_paths(p: &Par, rbudget: usize, limit: usize, out: &mut Vec<String>) {
        fn go(p: &Par, g: &G, cur: &mut Vec<usize>, limit: usize, count: &mut usize, out: &mut Vec<String>) {
            if *count >= limit {
                return;
            }
            let en = g.enabled(p);
            if en.is_empty() || cur.len() >= 80 {
                out.push(request(p, cur));
                *count += 1;
                return;
            }
            for t in en {
                let mut g2 = g.clone();
                g2.step(p, t);
                cur.push(t);
                go(p, &g2, cur, limit, count, out);
                cur.pop();
            }
        }
        let mut count = 0;
        go(p, &G::new(p, rbudget), &mut vec![], limit, &mut count, out);
    }

    /// run to quiescence, always the lowest (or highest) enabled token
    fn complete(p: &Par, g: &mut G, cur: &mut Vec<usize>, high: bool) {
        while cur.len() < 120 {
            let en = g.enabled(p);
            let Some(&t) = (if high { en.last() } else { en.first() }) else { break };
            g.step(p, t);
            cur.push(t);
        }
    }

    /// one schedule through every (reachable abstract state, enabled token) pair
    fn all_transitions(p: &Par, rbudget: usize, out: &mut Vec<String>) -> usize {
        let g0 = G::new(p, rbudget);
        let mut seen: BTreeMap<G, Vec<usize>> = BTreeMap::new();
        let mut queue = VecDeque::new();
        seen.insert(g0.clone(), vec![]);
        queue.push_back(g0);
        let mut edges = 0;
        while let Some(g) = queue.pop_front() {
            let path = seen[&g].clone();
            for t in g.enabled(p) {
                let mut g2 = g.clone();
                g2.step(p, t);
                let mut cur = path.clone();
                cur.push(t);
                let mut g3 = g2.clone();
                let mut full = cur.clone();
                complete(p, &mut g3, &mut full, edges % 2 == 1);
                out.push(request(p, &full));
                edges += 1;
                if !seen.contains_key(&g2) && seen.len() < 200_000 {
                    seen.insert(g2.clone(), cur);
                    queue.push_back(g2);
                }
            }
        }
        edges
    }

    fn random_paths(p: &Par, rbudget: usize, count: usize, rng: &mut Rng, out: &mut Vec<String>) {
        for _ in 0..count {
            let mut g = G::new(p, rbudget);
            let mut cur = vec![];
            // sticky scheduling: keep running the same task with probability 1/2 (few preemptions)
            let mut last: Option<usize> = None;
            while cur.len() < 120 {
                let en = g.enabled(p);
                if en.is_empty() {
                    break;
                }
                let t = match last {
                    Some(l) if en.contains(&l) && rng.bool() => l,
                    _ => *rng.pick(&en),
                };
                g.step(p, t);
                cur.push(t);
                last = Some(t);
            }
            out.push(request(p, &cur));
        }
    }

    pub fn generate(rng: &mut Rng, thorough: bool) -> Vec<String> {
        let mut out = vec![];
        let par = |cap, ws, rs, base, n, closer| Par { cap, ws, rs, base, n, closer, spurious_reader: false };
        // the schedule of the independent mutation tester (i = 0): T1 = send(0) stops between
        // fetch_add and wake(1); T3 = send(2) stops after loading next = 1; T2 = send(1) runs a whole
        // poll (wake(2)); T1's late wake(1); T3's add(curr = 1, i = 2) must be rejected
        out.push("c14.atomic 8 1 1 0 3 0 0.0.0.1.2.1.1.1.0.2.2.2.2.2".into());
        out.push("c14.atomic 8 1 1 64 3 0 0.0.0.1.2.1.1.1.0.2.2.2.2.2".into());
        out.push("c14.atomic 8 1 1 62 3 0 0.0.0.1.2.1.1.1.0.2.2.2.2.2".into());
        out.push("c14.atomic 8 1 1 0 0 0 -".into());
        // ≤ 3 senders, roomy buffer, no reader: EVERY interleaving of their atomic steps
        for n in 1..=3 {
            all_paths(&par(8, 1, 1, 0, n, 0), 0, usize::MAX, &mut out);
        }
        // 2 senders + the reader's take/load/wake(next) once: every interleaving
        all_paths(&par(8, 1, 1, 0, 2, 0), 1, usize::MAX, &mut out);
        // 2 senders + closer: every interleaving
        all_paths(&par(8, 1, 1, 0, 2, 1), 0, usize::MAX, &mut out);
        // 3 senders + reader (2 polls); straddling the shard boundary (indices 62..65 / 63..66);
        // a one-message buffer (writers blocked on space, woken by the reader); closer + reader:
        // every transition of the abstract state graph, then random walks
        let mut cfgs = vec![
            (par(8, 1, 1, 0, 3, 0), 2usize),
            (par(8, 1, 1, 62, 3, 0), 0),
            (par(8, 1, 1, 63, 3, 0), 1),
            (par(1, 1, 1, 0, 2, 0), 3),
            (par(2, 2, 2, 0, 3, 0), 4),
            (par(4, 2, 4, 0, 3, 1), 3),
            (par(2, 1, 2, 0, 2, 1), 3),
        ];
        if thorough {
            cfgs.push((par(8, 1, 1, 0, 4, 0), 0));
            cfgs.push((par(8, 1, 1, 61, 4, 0), 1));
            cfgs.push((par(2, 1, 1, 0, 4, 1), 4));
            cfgs.push((par(8, 1, 1, 0, 3, 0), 3));
        }
        for (p, rb) in &cfgs {
            all_transitions(p, *rb, &mut out);
        }
        for (p, rb) in &cfgs {
            random_paths(p, *rb, if thorough { 4000 } else { 250 }, rng, &mut out);
            let mut sp = *p;
            sp.spurious_reader = true;
            random_paths(&sp, *rb + 1, if thorough { 1000 } else { 60 }, rng, &mut out);
        }
        if thorough {
            // 4 senders: the first 400 000 interleavings in depth-first order plus random walks
            all_paths(&par(8, 1, 1, 0, 4, 0), 0, 400_000, &mut out);
            random_paths(&par(8, 1, 1, 0, 4, 0), 0, 50_000, rng, &mut out);
            random_paths(&par(8, 1, 1, 0, 5, 1), 2, 20_000, rng, &mut out);
        }
        out
    }

    #[test]
    fn verif_c14_atomic() {
        run_suite("c14_atomic", generate, exec);
    }
}
