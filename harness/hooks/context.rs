// Suites that need access to items private to this module (feature ipa-verif, test builds only).

// ---- C06: PrssIndex128 packing (the type is re-exported only inside crate::protocol) ----
mod c06_suites {
    use crate::{
        ipa_verif::proto::*,
        protocol::prss::{PrssIndex, PrssIndex128},
    };

    fn c06_kind<E: std::fmt::Debug>(e: &E) -> String {
        let s = format!("{e:?}");
        if s.starts_with("ConversionError") {
            "err:conversion".into()
        } else if s.starts_with("OutOfRange") {
            "err:out-of-range".into()
        } else {
            format!("err:{}", canon(&s))
        }
    }

    fn c06_exec_pack(req: &str) -> String {
        let t: Vec<&str> = req.split(' ').collect();
        match t[0] {
            "c06.pack" => {
                let index: u32 = t[1].parse().unwrap();
                let offset: usize = t[2].parse().unwrap();
                match PrssIndex128::new(PrssIndex::from(index), offset) {
                    Ok(v) => {
                        let wide = u128::from(v);
                        assert_eq!(wide, u128::from(u64::from(v)), "u64 and u128 conversions differ");
                        format!("ok {wide} {v}")
                    }
                    Err(e) => c06_kind(&e),
                }
            }
            "c06.unpack" => {
                let v: u128 = t[1].parse().unwrap();
                match PrssIndex128::try_from(v) {
                    Ok(x) => {
                        let s = x.to_string();
                        let (i, o) = s.split_once(':').unwrap();
                        format!("ok {i} {o}")
                    }
                    Err(e) => c06_kind(&e),
                }
            }
            _ => panic!("harness: unknown request {req}"),
        }
    }

    #[test]
    fn verif_c06_pack() {
        run_suite(
            "c06_pack",
            |rng, thorough| {
                let mut out = vec![];
                let idxs: Vec<u64> = vec![0, 1, 2, 255, 256, 65535, 65536, (1 << 31) - 1, 1 << 31, u64::from(u32::MAX) - 1, u64::from(u32::MAX)];
                let offs: Vec<u128> = vec![
                    0, 1, 2, 15, 16, 2047, 2048, 2049, 2050, 4096, 65535, (1 << 31), (1u128 << 32) - 1, 1u128 << 32, (1u128 << 32) + 1,
                    (1u128 << 32) + 2048, 1u128 << 40, (1u128 << 63), u128::from(u64::MAX),
                ];
                for &i in &idxs {
                    for &o in &offs {
                        out.push(format!("c06.pack {i} {o}"));
                    }
                }
                for _ in 0..(if thorough { 5000 } else { 300 }) {
                    let i = rng.next_u64() >> 32;
                    let o = match rng.below(4) {
                        0 => rng.below(2049),
                        1 => 2040 + rng.below(20),
                        2 => rng.next_u64() >> (rng.below(60) as u32),
                        _ => rng.below(1 << 12),
                    };
                    out.push(format!("c06.pack {i} {o}"));
                }
                // unpack: every boundary of the three bit fields
                let mut vs: Vec<u128> = vec![0, 1, 2047, 2048, 2049, (1 << 32) - 1, 1 << 32, (1 << 32) + 2048, (1 << 32) + 2049, u128::from(u64::MAX),
                    u128::from(u64::MAX) - ((1u128 << 32) - 1) + 2048, 1u128 << 64, (1u128 << 64) + 5, u128::MAX, (u128::from(u32::MAX) << 32) + 2048,
                    (u128::from(u32::MAX) << 32) + 2049];
                for _ in 0..(if thorough { 5000 } else { 300 }) {
                    let i = u128::from(rng.next_u64() >> 32);
                    let o = match rng.below(3) { 0 => rng.below(2049), 1 => 2040 + rng.below(20), _ => rng.next_u64() >> 32 };
                    vs.push((i << 32) + u128::from(o));
                    if rng.below(8) == 0 {
                        vs.push(rng.next_u128() >> (rng.below(128) as u32));
                    }
                }
                for v in vs {
                    out.push(format!("c06.unpack {v}"));
                }
                out
            },
            c06_exec_pack,
        );
    }
}
