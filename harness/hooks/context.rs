// Suites that need access to items private to this module (feature ipa-verif, test builds only).

// ------------------------------------------------------------------------------------------
// C16 — Batcher (agent a4). Everything is inside `c16_batcher`; items elsewhere in this file
// belong to other properties.
//
// Request:  c16.batcher <rpb> <total|-|inf> <failing batches|-> <op>…
//   g<r> get_batch(r).batch.push(r)   v<r> validate_record(r) (future kept, not polled)
//   p<i> poll future i once           r<b> let the validation closure of batch b complete
//   d<i> drop future i                t<n>|ti|tu set_total_records   s into_single_batch
//   e is_empty                        x dump private state (hook accessor in batcher.rs)
// Response: one token per op, then `| inv=<closure invocation log>`.
pub mod c16_batcher {
    use std::{
        cell::RefCell,
        future::Future,
        pin::Pin,
        rc::Rc,
        task::{Context, Poll},
    };

    use super::super::batcher::Batcher;
    use crate::{
        error::Error,
        helpers::TotalRecords,
        ipa_verif::proto::*,
        protocol::RecordId,
    };

    type Payload = (usize, Vec<usize>);
    type BoxFut = Pin<Box<dyn Future<Output = Result<(), Error>>>>;

    fn digits_after<'a>(s: &'a str, pat: &str) -> &'a str {
        match s.find(pat) {
            Some(i) => {
                let rest = &s[i + pat.len()..];
                let end = rest.find(|c: char| !c.is_ascii_digit()).unwrap_or(rest.len());
                &rest[..end]
            }
            None => "?",
        }
    }

    /// canonical tag of a panic message (`panic:<first line>` as produced by `guarded`)
    pub(super) fn tag(msg: &str) -> String {
        if msg.contains("already been validated") {
            format!("panic:validated:{}", digits_after(msg, "access batch "))
        } else if msg.contains("validate_record called twice") {
            format!("panic:twice:{}", digits_after(msg, "for record "))
        } else if msg.contains("exceeds batch size") {
            format!(
                "panic:exceeds:{}:{}",
                digits_after(msg, "record offset "),
                digits_after(msg, "batch size ")
            )
        } else if msg.contains("Expected batch of") {
            format!("panic:expected:{}", digits_after(msg, "Expected batch of "))
        } else if msg.contains("divide by zero") {
            "panic:divzero".into()
        } else if msg.contains("needs a specific value") {
            "panic:needs-specific".into()
        } else if msg.contains("bad transition") {
            "panic:bad-transition".into()
        } else if msg.contains("self.first_batch == 0") {
            "panic:first-batch".into()
        } else if msg.contains("self.batches.len() <= 1") {
            "panic:multi".into()
        } else if msg.contains("sender should not be dropped") {
            "panic:sender-dropped".into()
        } else {
            format!("panic:other:{}", msg.replace(' ', "_"))
        }
    }

    fn plus(xs: &[usize]) -> String {
        if xs.is_empty() {
            "-".into()
        } else {
            xs.iter().map(|x| x.to_string()).collect::<Vec<_>>().join("+")
        }
    }

    pub(super) fn err_tag(e: &Error) -> String {
        match e {
            Error::MissingTotalRecords(_) => "err:MissingTotal".into(),
            Error::RecordIdOutOfRange { .. } => "err:OutOfRange".into(),
            Error::ParallelDZKPValidationFailed => "err:Parallel".into(),
            Error::DZKPValidationFailed => "err:DZKP".into(),
            other => format!("err:other:{}", canon(&format!("{other:?}")).replace(' ', "_")),
        }
    }

    pub fn exec(req: &str) -> String {
        let t: Vec<&str> = req.split(' ').collect();
        assert_eq!(t[0], "c16.batcher");
        let rpb: usize = t[1].parse().unwrap();
        let total = match t[2] {
            "-" => TotalRecords::Unspecified,
            "inf" => TotalRecords::Indeterminate,
            n => TotalRecords::specified(n.parse().unwrap()).unwrap(),
        };
        let failing: Rc<Vec<usize>> = Rc::new(parse_nat_list(t[3]));
        let released: Rc<RefCell<Vec<usize>>> = Rc::new(RefCell::new(vec![]));
        let log: Rc<RefCell<Vec<(usize, usize, Vec<usize>)>>> = Rc::new(RefCell::new(vec![]));
        let mut batcher: Option<Batcher<'static, Payload>> = Some(
            Batcher::new(rpb, total, Box::new(|i| (i, Vec::new())))
                .into_inner()
                .unwrap(),
        );
        let mut futs: Vec<Option<BoxFut>> = vec![];
        let mut out: Vec<String> = vec![];
        for op in &t[4..] {
            let (c, arg) = op.split_at(1);
            let num = || arg.parse::<usize>().unwrap();
            let resp = match c {
                "g" => match batcher.as_mut() {
                    None => "gone".into(),
                    Some(b) => {
                        let r = num();
                        match guarded(|| {
                            let st = b.get_batch(RecordId::from(r));
                            st.batch.1.push(r);
                            format!("g:{}:{}", st.batch.0, plus(&st.batch.1))
                        }) {
                            Ok(s) => s,
                            Err(p) => tag(&p),
                        }
                    }
                },
                "v" => match batcher.as_mut() {
                    None => "gone".into(),
                    Some(b) => {
                        let r = num();
                        let (failing, released, log) = (failing.clone(), released.clone(), log.clone());
                        match guarded(|| {
                            let fut = b.validate_record(RecordId::from(r), move |idx, payload: Payload| {
                                log.borrow_mut().push((idx, payload.0, payload.1));
                                std::future::poll_fn(move |_cx| {
                                    if released.borrow().contains(&idx) {
                                        Poll::Ready(if failing.contains(&idx) {
                                            Err(Error::DZKPValidationFailed)
                                        } else {
                                            Ok(())
                                        })
                                    } else {
                                        Poll::Pending
                                    }
                                })
                            });
                            Box::pin(fut) as BoxFut
                        }) {
                            Ok(f) => {
                                futs.push(Some(f));
                                format!("f{}", futs.len() - 1)
                            }
                            Err(p) => tag(&p),
                        }
                    }
                },
                "p" => {
                    let i = num();
                    match futs.get_mut(i).and_then(|f| f.as_mut()) {
                        None => "gone".into(),
                        Some(f) => {
                            let mut cx = Context::from_waker(futures::task::noop_waker_ref());
                            match guarded(|| f.as_mut().poll(&mut cx)) {
                                Ok(Poll::Pending) => "pend".into(),
                                Ok(Poll::Ready(r)) => {
                                    futs[i] = None;
                                    match r {
                                        Ok(()) => "ok".into(),
                                        Err(e) => err_tag(&e),
                                    }
                                }
                                Err(p) => {
                                    // never poll (or run the destructor glue of) a panicked future again
                                    std::mem::forget(futs[i].take());
                                    tag(&p)
                                }
                            }
                        }
                    }
                }
                "r" => {
                    released.borrow_mut().push(num());
                    "r".into()
                }
                "d" => {
                    let i = num();
                    if let Some(f) = futs.get_mut(i) {
                        *f = None;
                    }
                    "d".into()
                }
                "t" => match batcher.as_mut() {
                    None => "gone".into(),
                    Some(b) => {
                        let tr = match arg {
                            "i" => TotalRecords::Indeterminate,
                            "u" => TotalRecords::Unspecified,
                            n => TotalRecords::specified(n.parse().unwrap()).unwrap(),
                        };
                        match guarded(|| b.set_total_records(tr)) {
                            Ok(()) => "t".into(),
                            Err(p) => tag(&p),
                        }
                    }
                },
                "s" => match batcher.take() {
                    None => "gone".into(),
                    Some(b) => match guarded(move || b.into_single_batch()) {
                        Ok((ctor, pl)) => format!("s:{}:{}", ctor, plus(&pl)),
                        Err(p) => tag(&p),
                    },
                },
                "e" => match batcher.as_ref() {
                    None => "gone".into(),
                    Some(b) => if b.is_empty() { "e1".into() } else { "e0".into() },
                },
                "x" => match batcher.as_ref() {
                    None => "gone".into(),
                    Some(b) => b.ipa_verif_state(|p: &Payload| p.0.to_string()),
                },
                _ => panic!("harness: unknown op {op}"),
            };
            out.push(resp);
        }
        let inv = log
            .borrow()
            .iter()
            .map(|(b, c, p)| format!("{b}:{c}:{}", plus(p)))
            .collect::<Vec<_>>();
        out.push("|".into());
        out.push(format!("inv={}", if inv.is_empty() { "-".to_string() } else { inv.join(";") }));
        out.join(" ")
    }

    pub(super) fn permutations(n: usize) -> Vec<Vec<usize>> {
        fn go(k: usize, cur: &mut Vec<usize>, out: &mut Vec<Vec<usize>>) {
            if k == cur.len() {
                out.push(cur.clone());
                return;
            }
            for i in k..cur.len() {
                cur.swap(k, i);
                go(k + 1, cur, out);
                cur.swap(k, i);
            }
        }
        let mut out = vec![];
        go(0, &mut (0..n).collect(), &mut out);
        out
    }

    fn subset_str(mask: usize, nb: usize) -> String {
        let v: Vec<usize> = (0..nb).filter(|b| mask >> b & 1 == 1).collect();
        nat_list(&v)
    }

    /// One legitimate run: records arrive in `order`; `mode` chooses how futures are polled.
    fn legit_script(rng: &mut Rng, rpb: usize, total: usize, order: &[usize], fail: &str, mode: usize) -> String {
        let nb = total.div_ceil(rpb);
        let mut ops: Vec<String> = vec![];
        match mode {
            // closures complete at once; every future is polled as soon as it exists
            0 => {
                for b in 0..nb {
                    ops.push(format!("r{b}"));
                }
                for (i, r) in order.iter().enumerate() {
                    ops.push(format!("g{r}"));
                    ops.push(format!("v{r}"));
                    ops.push(format!("p{i}"));
                }
                for i in 0..order.len() {
                    ops.push(format!("p{i}"));
                }
            }
            // immediate polling, closures released later in random batch order, then re-poll
            1 => {
                for (i, r) in order.iter().enumerate() {
                    ops.push(format!("g{r}"));
                    ops.push(format!("v{r}"));
                    ops.push(format!("p{i}"));
                }
                let mut bs: Vec<usize> = (0..nb).collect();
                rng.shuffle(&mut bs);
                for b in bs {
                    ops.push(format!("r{b}"));
                    let mut is: Vec<usize> = (0..order.len()).collect();
                    rng.shuffle(&mut is);
                    for i in is {
                        ops.push(format!("p{i}"));
                    }
                }
            }
            // nothing is polled until every record has asked; then random polling with releases in between
            _ => {
                for r in order {
                    ops.push(format!("g{r}"));
                }
                for r in order {
                    ops.push(format!("v{r}"));
                }
                let mut bs: Vec<usize> = (0..nb).collect();
                rng.shuffle(&mut bs);
                for round in 0..=nb {
                    let mut is: Vec<usize> = (0..order.len()).collect();
                    rng.shuffle(&mut is);
                    for i in is {
                        ops.push(format!("p{i}"));
                    }
                    if round < nb {
                        ops.push(format!("r{}", bs[round]));
                    }
                }
                for i in 0..order.len() {
                    ops.push(format!("p{i}"));
                }
                for i in 0..order.len() {
                    ops.push(format!("p{i}"));
                }
            }
        }
        ops.push("e".into());
        ops.push("x".into());
        format!("c16.batcher {rpb} {total} {fail} {}", ops.join(" "))
    }

    pub fn generate(rng: &mut Rng, thorough: bool) -> Vec<String> {
        let mut out: Vec<String> = vec![];
        let tps = super::super::dzkp_validator::TARGET_PROOF_SIZE;
        // ---- boundary / misuse scripts first
        for s in [
            // never used / single batch
            "c16.batcher 2 4 - e x s",
            "c16.batcher 2 4 - g0 g1 e x s",
            "c16.batcher 2 4 - g0 g2 x s",
            "c16.batcher 2 4 - g0 v0 v1 p1 x s",
            "c16.batcher 2 4 - g0 v0 p0 s p0",
            "c16.batcher 18446744073709551615 3 - g0 g1 g2 x s",
            "c16.batcher 18446744073709551615 3 - r0 g0 g1 g2 v0 v1 v2 p2 p0 p1 e x",
            // no total / late total / bad transitions
            "c16.batcher 2 - - g0 v0 p0 t4 v0 v1 p1 r0 p1 p2 x",
            "c16.batcher 2 - - tu v0 p0 x",
            "c16.batcher 2 inf - v0 p0 t4 ti tu x",
            "c16.batcher 2 4 - t4 v0 ti v1 p1 p0 tu t5 x",
            "c16.batcher 2 4 - tu x",
            // twice
            "c16.batcher 2 4 - v0 v0 v1 v1 p1 x",
            "c16.batcher 3 7 - v6 v6 p0 x",
            // beyond the total: same batch, next batch start, far away, exact multiple
            "c16.batcher 2 3 - v3 v2 p0 v3 v4 p1 v5 p2 v100 p3 x",
            "c16.batcher 2 4 - v4 v5 v6 p0 v7 x",
            "c16.batcher 3 4 - v5 v4 x v3 p0 x",
            "c16.batcher 4 1 - v1 v2 v3 x v0 p0 r0 p0 x v4 p1 v0",
            // touching a batch already validated (front and out of order)
            "c16.batcher 1 3 - r0 r1 r2 v1 p0 x g1 v1 g0 v0 p1 x g0 v0 g1 v1 v2 p2 x g2 v2 e",
            "c16.batcher 2 6 - v4 v5 x v4 g4 g5 v0 v1 x v1 g0 v5 g2 x",
            "c16.batcher 2 6 - v2 v3 v4 v5 x v0 v1 x e",
            // zero records per batch
            "c16.batcher 0 4 - g0 v0 x e s",
            // the checking future is dropped / never polled
            "c16.batcher 2 2 - v0 v1 p0 d1 p0 p0 x",
            "c16.batcher 2 2 - v0 v1 p1 d1 p0 x",
            "c16.batcher 2 2 - r0 v0 v1 d0 p1 p0 x",
            "c16.batcher 2 4 - v0 s p0",
            "c16.batcher 2 4 - v0 v2 s p0 p1",
            // verdicts
            "c16.batcher 2 4 0 r0 r1 v0 v1 v2 v3 p0 p1 p0 p2 p3 p2 x",
            "c16.batcher 2 4 1 r0 r1 v3 v2 v1 v0 p0 p1 p2 p3 p0 p2 x",
            "c16.batcher 2 5 2 r0 r1 r2 v4 p0 v0 v1 p2 p1 x",
        ] {
            out.push(s.to_string());
        }
        // bitmap growth beyond TARGET_PROOF_SIZE (records_per_batch > TARGET_PROOF_SIZE)
        for (rpb, total) in [(tps + 1, tps + 1), (tps + 3, tps + 2), (tps + 3, 2 * tps + 7), (2 * tps, tps + 1)] {
            let a = tps - 1;
            out.push(format!(
                "c16.batcher {rpb} {total} - v{a} v{} x v{} v0 x v{} v{a} v{} x v{} x",
                tps, tps + 1, tps, total - 1, total
            ));
        }
        {
            // a whole batch of TARGET_PROOF_SIZE + 1 records, in reverse order
            let n = tps + 1;
            let mut ops = vec!["r0".to_string()];
            for r in (0..n).rev() {
                ops.push(format!("v{r}"));
            }
            ops.push(format!("p{}", n - 1));
            ops.push("p0".into());
            ops.push(format!("p{}", n - 2));
            ops.push("e".into());
            ops.push("x".into());
            out.push(format!("c16.batcher {n} {n} - {}", ops.join(" ")));
        }
        // ---- exhaustive: every arrival permutation of n records
        let nmax = if thorough { 7 } else { 6 };
        for n in 1..=nmax {
            let perms = permutations(n);
            for rpb in 1..=4usize {
                let nb = n.div_ceil(rpb);
                for (pi, order) in perms.iter().enumerate() {
                    if n <= 4 {
                        // full cross product: failing subsets x polling modes
                        for mask in 0..(1usize << nb) {
                            for mode in 0..3 {
                                out.push(legit_script(rng, rpb, n, order, &subset_str(mask, nb), mode));
                            }
                        }
                    } else {
                        let mask = if pi % 3 == 0 { 0 } else { rng.usize_below(1 << nb) };
                        out.push(legit_script(rng, rpb, n, order, &subset_str(mask, nb), pi % 3));
                        if thorough {
                            let mask2 = rng.usize_below(1 << nb);
                            out.push(legit_script(rng, rpb, n, order, &subset_str(mask2, nb), (pi + 1) % 3));
                        }
                    }
                }
            }
        }
        // ---- every single misuse inserted at every position of a legitimate run (n <= 5)
        for n in 1..=5usize {
            for rpb in 1..=3usize {
                let perms = permutations(n);
                for order in perms.iter().step_by(if thorough { 1 } else { 5 }) {
                    for pos in 0..=n {
                        let bad: Vec<String> = vec![
                            format!("v{}", order[rng.usize_below(n)]), // twice or validated batch
                            format!("v{n}"),                             // first record beyond the total
                            format!("v{}", n + rng.usize_below(2 * rpb + 1)),
                            format!("g{}", order[rng.usize_below(n)]),
                        ];
                        for b in bad {
                            let mut ops: Vec<String> = (0..n.div_ceil(rpb)).map(|b| format!("r{b}")).collect();
                            let mut nf = 0;
                            for (i, r) in order.iter().enumerate() {
                                if i == pos {
                                    ops.push(b.clone());
                                    if b.starts_with('v') {
                                        ops.push(format!("p{nf}"));
                                        nf += 1; // may be `gone` if the call panicked: the model agrees on that
                                    }
                                }
                                ops.push(format!("v{r}"));
                                ops.push(format!("p{nf}"));
                                nf += 1;
                            }
                            if pos == n {
                                ops.push(b.clone());
                                if b.starts_with('v') {
                                    ops.push(format!("p{nf}"));
                                }
                            }
                            for i in 0..=n {
                                ops.push(format!("p{i}"));
                            }
                            ops.push("x".into());
                            out.push(format!("c16.batcher {rpb} {n} - {}", ops.join(" ")));
                        }
                    }
                }
            }
        }
        // ---- random long scripts (records up to 40, incomplete totals, all ops mixed)
        for _ in 0..(if thorough { 6000 } else { 600 }) {
            let rpb = 1 + rng.usize_below(8);
            let total = 1 + rng.usize_below(40);
            let nb = total.div_ceil(rpb);
            let fail: Vec<usize> = (0..nb).filter(|_| rng.below(4) == 0).collect();
            let late_total = rng.below(8) == 0;
            let mut order: Vec<usize> = (0..total).collect();
            rng.shuffle(&mut order);
            // keep only a prefix sometimes (incomplete batches must stay pending)
            if rng.below(3) == 0 {
                order.truncate(rng.usize_below(total + 1));
            }
            let mut ops: Vec<String> = vec![];
            let mut nf = 0usize;
            let steps = order.len();
            for (i, r) in order.iter().enumerate() {
                if late_total && i == steps / 2 {
                    ops.push(format!("t{total}"));
                }
                if rng.below(2) == 0 {
                    ops.push(format!("g{r}"));
                }
                ops.push(format!("v{r}"));
                nf += 1;
                match rng.below(10) {
                    0 => ops.push(format!("v{}", rng.usize_below(total + rpb + 2))),
                    1 => ops.push(format!("g{}", rng.usize_below(total + rpb))),
                    2 => ops.push(format!("r{}", rng.usize_below(nb))),
                    3 | 4 | 5 => ops.push(format!("p{}", rng.usize_below(nf + 1))),
                    6 => ops.push("x".into()),
                    _ => {}
                }
                if ops.last().map_or(false, |o| o.starts_with('v')) && rng.below(10) == 0 {
                    // account for a possible extra future
                }
            }
            let mut bs: Vec<usize> = (0..nb).collect();
            rng.shuffle(&mut bs);
            for b in bs {
                if rng.below(6) != 0 {
                    ops.push(format!("r{b}"));
                }
                for _ in 0..3 {
                    ops.push(format!("p{}", rng.usize_below(nf + 2)));
                }
            }
            for i in 0..nf + 2 {
                ops.push(format!("p{i}"));
            }
            for i in 0..nf + 2 {
                ops.push(format!("p{i}"));
            }
            ops.push("e".into());
            ops.push("x".into());
            out.push(format!(
                "c16.batcher {rpb} {} {} {}",
                if late_total { "-".to_string() } else { total.to_string() },
                nat_list(&fail),
                ops.join(" ")
            ));
        }
        out
    }

    #[test]
    fn verif_c16_batcher() {
        run_suite("c16_batcher", generate, exec);
    }
}


// ---- C06: PrssIndex128 packing (the type is re-exported only inside crate::protocol) ----
mod c06_suites {
    use crate::{
        ipa_verif::proto::*,
        protocol::prss::{PrssIndex, PrssIndex128},
    };

    fn c06_kind<E: std::fmt::Debug>(e: &E) -> String {
        let s = format!("{e:?}");
        if s.starts_with("ConversionError") {
            "err:conversion".into()
        } else if s.starts_with("OutOfRange") {
            "err:out-of-range".into()
        } else {
            format!("err:{}", canon(&s))
        }
    }

    fn c06_exec_pack(req: &str) -> String {
        let t: Vec<&str> = req.split(' ').collect();
        match t[0] {
            "c06.pack" => {
                let index: u32 = t[1].parse().unwrap();
                let offset: usize = t[2].parse().unwrap();
                match PrssIndex128::new(PrssIndex::from(index), offset) {
                    Ok(v) => {
                        let wide = u128::from(v);
                        assert_eq!(wide, u128::from(u64::from(v)), "u64 and u128 conversions differ");
                        format!("ok {wide} {v}")
                    }
                    Err(e) => c06_kind(&e),
                }
            }
            "c06.unpack" => {
                let v: u128 = t[1].parse().unwrap();
                match PrssIndex128::try_from(v) {
                    Ok(x) => {
                        let s = x.to_string();
                        let (i, o) = s.split_once(':').unwrap();
                        format!("ok {i} {o}")
                    }
                    Err(e) => c06_kind(&e),
                }
            }
            _ => panic!("harness: unknown request {req}"),
        }
    }

    #[test]
    fn verif_c06_pack() {
        run_suite(
            "c06_pack",
            |rng, thorough| {
                let mut out = vec![];
                let idxs: Vec<u64> = vec![0, 1, 2, 255, 256, 65535, 65536, (1 << 31) - 1, 1 << 31, u64::from(u32::MAX) - 1, u64::from(u32::MAX)];
                let offs: Vec<u128> = vec![
                    0, 1, 2, 15, 16, 2047, 2048, 2049, 2050, 4096, 65535, (1 << 31), (1u128 << 32) - 1, 1u128 << 32, (1u128 << 32) + 1,
                    (1u128 << 32) + 2048, 1u128 << 40, (1u128 << 63), u128::from(u64::MAX),
                ];
                for &i in &idxs {
                    for &o in &offs {
                        out.push(format!("c06.pack {i} {o}"));
                    }
                }
                for _ in 0..(if thorough { 5000 } else { 300 }) {
                    let i = rng.next_u64() >> 32;
                    let o = match rng.below(4) {
                        0 => rng.below(2049),
                        1 => 2040 + rng.below(20),
                        2 => rng.next_u64() >> (rng.below(60) as u32),
                        _ => rng.below(1 << 12),
                    };
                    out.push(format!("c06.pack {i} {o}"));
                }
                // unpack: every boundary of the three bit fields
                let mut vs: Vec<u128> = vec![0, 1, 2047, 2048, 2049, (1 << 32) - 1, 1 << 32, (1 << 32) + 2048, (1 << 32) + 2049, u128::from(u64::MAX),
                    u128::from(u64::MAX) - ((1u128 << 32) - 1) + 2048, 1u128 << 64, (1u128 << 64) + 5, u128::MAX, (u128::from(u32::MAX) << 32) + 2048,
                    (u128::from(u32::MAX) << 32) + 2049];
                for _ in 0..(if thorough { 5000 } else { 300 }) {
                    let i = u128::from(rng.next_u64() >> 32);
                    let o = match rng.below(3) { 0 => rng.below(2049), 1 => 2040 + rng.below(20), _ => rng.next_u64() >> 32 };
                    vs.push((i << 32) + u128::from(o));
                    if rng.below(8) == 0 {
                        vs.push(rng.next_u128() >> (rng.below(128) as u32));
                    }
                }
                for v in vs {
                    out.push(format!("c06.unpack {v}"));
                }
                out
            },
            c06_exec_pack,
        );
    }
}

// ------------------------------------------------------------------------------------------
// C04 — MAC accumulators (agent a9). Everything is inside `c04_pure`.
//
// The real `MaliciousAccumulator::accumulate_macs` (public) is driven with a scripted `SharedRandomness`
// (so the random constant alpha of a call is chosen by the request) on the accumulator of a real
// `validator::Malicious` (its `accumulator` field and `u_and_w()` are `pub(super)`, hence visible here).
// The difference of (u, w) before / after one call is exactly
//   du = compute_dot_product_contribution(alpha, rx),  dw = compute_dot_product_contribution(alpha, induced(x)).
//
// Requests (values decimal, canonical field elements):
//   c04.acc1 <field> <al>,<ar> <xl>,<xr> <ml>,<mr>           one helper's view      -> `<du> <dw>`
//   c04.acc3 <field> <a1>,<a2>,<a3> <x1>,<x2>,<x3> <m1>,<m2>,<m3>   the three helpers' views of the sharings
//                                                            -> `<du1>,<du2>,<du3> <dw1>,<dw2>,<dw3>`
//   c04.accg Fp31 <al> <ar>     all 31*31 pairs (bl, br): x = (bl, br), rx = (br, bl)
//                                                            -> `<du…(961)> <dw…(961)>`
pub mod c04_pure {
    use std::cell::RefCell;

    use generic_array::{ArrayLength, GenericArray, sequence::GenericSequence};

    use super::super::{
        Context, MaliciousContext,
        validator::{Malicious, MaliciousAccumulator},
    };
    use crate::{
        ff::{Fp31, Fp32BitPrime, PrimeField, U128Conversions, ec_prime_field::Fp25519},
        helpers::Direction,
        ipa_verif::proto::*,
        protocol::{
            RecordId,
            prss::{FromPrss, PrssIndex, SharedRandomness},
        },
        secret_sharing::{
            SharedValueArray, Vectorizable,
            replicated::{
                ReplicatedSecretSharing,
                malicious::{AdditiveShare as MaliciousReplicated, ExtendableField},
                semi_honest::AdditiveShare as Replicated,
            },
        },
        sharding::NotSharded,
        test_fixture::TestWorld,
    };

    /// PRSS whose left / right values are scripted: chunk `i` of a draw (= lane `i` of a vectorised sharing)
    /// is filled from `left[i]` / `right[i]`.
    struct Scripted {
        left: Vec<Vec<u128>>,
        right: Vec<Vec<u128>>,
    }

    impl Scripted {
        fn scalar(l: u128, r: u128) -> Self {
            Scripted { left: vec![vec![l]], right: vec![vec![r]] }
        }

        fn arr<Z: ArrayLength>(c: &[u128]) -> GenericArray<u128, Z> {
            GenericArray::generate(|j| c[j % c.len()])
        }
    }

    impl SharedRandomness for Scripted {
        type ChunkIter<'a, Z: ArrayLength> = std::vec::IntoIter<GenericArray<u128, Z>>;

        fn generate_chunks_one_side<I: Into<PrssIndex>, Z: ArrayLength>(
            &self,
            _index: I,
            direction: Direction,
        ) -> Self::ChunkIter<'_, Z> {
            let v = if direction == Direction::Left { &self.left } else { &self.right };
            v.iter().map(|c| Self::arr::<Z>(c)).collect::<Vec<_>>().into_iter()
        }

        fn generate_chunks_iter<I: Into<PrssIndex>, Z: ArrayLength>(
            &self,
            _index: I,
        ) -> impl Iterator<Item = (GenericArray<u128, Z>, GenericArray<u128, Z>)> {
            self.left
                .iter()
                .zip(self.right.iter())
                .map(|(l, r)| (Self::arr::<Z>(l), Self::arr::<Z>(r)))
                .collect::<Vec<_>>()
                .into_iter()
        }
    }

    /// 16-lane Fp25519 share (the shape used by eval_dy_prf): every argument is `v0+v1+…+v15`
    fn vector16(acc: &RefCell<MaliciousAccumulator<Fp25519>>, t: &[&str]) -> String {
        use crate::ipa_verif::c04::{dec_to_le, show, val};
        const N: usize = 16;
        type Arr = <Fp25519 as Vectorizable<N>>::Array;
        let lanes = |s: &str| -> Vec<String> { s.split('+').map(str::to_string).collect() };
        let arr = |s: &str| -> Arr {
            let l = lanes(s);
            assert_eq!(l.len(), N, "harness: 16 lanes expected");
            SharedValueArray::from_fn(|i| val::<Fp25519>(&l[i]))
        };
        let chunks = |s: &str| -> Vec<Vec<u128>> {
            lanes(s)
                .iter()
                .map(|v| {
                    let b = dec_to_le(v, 32);
                    vec![
                        u128::from_le_bytes(b[0..16].try_into().unwrap()),
                        u128::from_le_bytes(b[16..32].try_into().unwrap()),
                    ]
                })
                .collect()
        };
        let share = MaliciousReplicated::<Fp25519, N>::new(
            Replicated::new_arr(arr(t[4]), arr(t[5])),
            Replicated::new_arr(arr(t[6]), arr(t[7])),
        );
        let mut acc = acc.borrow_mut();
        let (u0, w0) = acc.u_and_w();
        acc.accumulate_macs(&Scripted { left: chunks(t[2]), right: chunks(t[3]) }, RecordId::FIRST, &share);
        let (u1, w1) = acc.u_and_w();
        format!("{} {}", show::<Fp25519>(&(u1 - u0)), show::<Fp25519>(&(w1 - w0)))
    }

    fn one<F>(acc: &RefCell<MaliciousAccumulator<F>>, a: (u128, u128), x: (u128, u128), m: (u128, u128)) -> (u128, u128)
    where
        F: ExtendableField<ExtendedField = F> + U128Conversions,
        Replicated<F>: FromPrss,
    {
        let f = |v: u128| F::truncate_from(v);
        let share = MaliciousReplicated::<F>::new(Replicated::new(f(x.0), f(x.1)), Replicated::new(f(m.0), f(m.1)));
        let mut acc = acc.borrow_mut();
        let (u0, w0) = acc.u_and_w();
        acc.accumulate_macs(&Scripted::scalar(a.0, a.1), RecordId::FIRST, &share);
        let (u1, w1) = acc.u_and_w();
        ((u1 - u0).as_u128(), (w1 - w0).as_u128())
    }

    fn pair(s: &str) -> (u128, u128) {
        let v = parse_nat_list::<u128>(s);
        (v[0], v[1])
    }

    fn exec_f<F>(acc: &RefCell<MaliciousAccumulator<F>>, t: &[&str]) -> String
    where
        F: ExtendableField<ExtendedField = F> + U128Conversions,
        Replicated<F>: FromPrss,
    {
        match t[0] {
            "c04.acc1" => {
                let (du, dw) = one(acc, pair(t[2]), pair(t[3]), pair(t[4]));
                format!("{du} {dw}")
            }
            "c04.acc3" => {
                let a = parse_nat_list::<u128>(t[2]);
                let x = parse_nat_list::<u128>(t[3]);
                let m = parse_nat_list::<u128>(t[4]);
                let mut du = vec![];
                let mut dw = vec![];
                for h in 0..3 {
                    let n = (h + 1) % 3;
                    let (u, w) = one(acc, (a[h], a[n]), (x[h], x[n]), (m[h], m[n]));
                    du.push(u);
                    dw.push(w);
                }
                format!("{} {}", nat_list(&du), nat_list(&dw))
            }
            "c04.accg" => {
                let al: u128 = t[2].parse().unwrap();
                let ar: u128 = t[3].parse().unwrap();
                let mut du = vec![];
                let mut dw = vec![];
                for bl in 0..31u128 {
                    for br in 0..31u128 {
                        let (u, w) = one(acc, (al, ar), (bl, br), (br, bl));
                        du.push(u);
                        dw.push(w);
                    }
                }
                format!("{} {}", nat_list(&du), nat_list(&dw))
            }
            _ => panic!("harness: unknown request {}", t[0]),
        }
    }

    fn generate(rng: &mut Rng, thorough: bool) -> Vec<String> {
        let mut out = vec![];
        // Fp31: the complete domain of one call (31^4 operand tuples), one line per (al, ar)
        for al in 0..31u128 {
            for ar in 0..31u128 {
                out.push(format!("c04.accg Fp31 {al} {ar}"));
            }
        }
        for (f, p) in [("Fp31", 31u128), ("Fp32BitPrime", u128::from(Fp32BitPrime::PRIME))] {
            let edge: Vec<u128> = vec![0, 1, 2, p - 1, p - 2, p / 2, p / 2 + 1];
            // boundary values in every operand position of one view
            for &al in &edge {
                for &ar in &edge {
                    for &(xl, xr, ml, mr) in &[(0, 0, 0, 0), (p - 1, p - 1, p - 1, p - 1), (1, 0, 0, 1), (0, 1, p - 1, 0),
                        (p - 1, 1, 2, p - 2), (p / 2, p / 2 + 1, p / 2 + 1, p / 2)]
                    {
                        out.push(format!("c04.acc1 {f} {al},{ar} {xl},{xr} {ml},{mr}"));
                    }
                }
            }
            // three helpers' views of sharings: boundary and random
            for &a in &[0u128, 1, p - 1] {
                for &x in &[0u128, 1, p - 1] {
                    for &m in &[0u128, 2, p - 1] {
                        out.push(format!("c04.acc3 {f} {a},{a},{a} {x},{x},{x} {m},{m},{m}"));
                        out.push(format!("c04.acc3 {f} {a},0,{} {x},{},0 0,{m},{}", p - 1, p - 1, p - 2));
                    }
                }
            }
            let n = if thorough { 20000 } else { 1500 };
            for _ in 0..n {
                let v: Vec<u128> = (0..9).map(|_| rng.next_u128() % p).collect();
                out.push(format!(
                    "c04.acc3 {f} {},{},{} {},{},{} {},{},{}",
                    v[0], v[1], v[2], v[3], v[4], v[5], v[6], v[7], v[8]
                ));
            }
            for _ in 0..n {
                let v: Vec<u128> = (0..6).map(|_| rng.next_u128() % p).collect();
                out.push(format!("c04.acc1 {f} {},{} {},{} {},{}", v[0], v[1], v[2], v[3], v[4], v[5]));
            }
        }
        // 16-lane Fp25519 shares: every lane has its own coefficient
        let ell_m1 = "7237005577332262213973186563042994240857116359379907606001950938285454250988";
        let lane_vals = |rng: &mut Rng, style: usize| -> String {
            (0..16)
                .map(|i| match style {
                    0 => "0".to_string(),
                    1 => ell_m1.to_string(),
                    2 => (i + 1).to_string(),
                    3 => if i % 2 == 0 { "1".to_string() } else { ell_m1.to_string() },
                    _ => {
                        if rng.below(4) == 0 {
                            let mut b = rng.bytes(32);
                            b[31] &= 0x0f;
                            crate::ipa_verif::c04::le_to_dec(&b)
                        } else {
                            (rng.next_u128() >> 3).to_string()
                        }
                    }
                })
                .collect::<Vec<_>>()
                .join("+")
        };
        let nv = if thorough { 400 } else { 40 };
        for k in 0..nv {
            let st = |j: usize| if k < 12 { (k + j) % 5 } else { 4 };
            let args: Vec<String> = (0..6).map(|j| lane_vals(rng, if j < 2 && k < 12 { 2 + (k + j) % 3 } else { st(j) })).collect();
            out.push(format!("c04.accv Fp25519x16 {}", args.join(" ")));
        }
        out
    }

    /// `Malicious::new` whatever its arity: `(ctx, batch)` — the key is drawn by the constructor — or
    /// `(ctx, key share, batch)` — a constructor that is handed its key (then the batch's own PRSS value is passed).
    /// Keeps the harness compiling when the key schedule of the validator is refactored; the schedule itself is
    /// checked by the translator items `c04.key.*` and by the suites `c04.rbatch` / `c04.adaptive`.
    trait C04NewBatch<'a, F: ExtendableField, Args> {
        fn c04_new(&self, ctx: MaliciousContext<'a, NotSharded>, offset: usize) -> Malicious<'a, F, NotSharded>;
    }

    impl<'a, F: ExtendableField, T> C04NewBatch<'a, F, (MaliciousContext<'a, NotSharded>, usize)> for T
    where
        T: Fn(MaliciousContext<'a, NotSharded>, usize) -> Malicious<'a, F, NotSharded>,
    {
        fn c04_new(&self, ctx: MaliciousContext<'a, NotSharded>, offset: usize) -> Malicious<'a, F, NotSharded> {
            self(ctx, offset)
        }
    }

    impl<'a, F: ExtendableField, T>
        C04NewBatch<'a, F, (MaliciousContext<'a, NotSharded>, Replicated<F::ExtendedField>, usize)> for T
    where
        T: Fn(MaliciousContext<'a, NotSharded>, Replicated<F::ExtendedField>, usize) -> Malicious<'a, F, NotSharded>,
        Replicated<F::ExtendedField>: FromPrss,
    {
        fn c04_new(&self, ctx: MaliciousContext<'a, NotSharded>, offset: usize) -> Malicious<'a, F, NotSharded> {
            let r: Replicated<F::ExtendedField> = ctx.prss().generate(RecordId::from(3 * offset + 2));
            self(ctx, r, offset)
        }
    }

    #[test]
    fn verif_c04_pure() {
        // one TestWorld (needs a runtime for its background tasks) and one real `Malicious` per field
        let rt = tokio::runtime::Builder::new_multi_thread().worker_threads(2).enable_all().build().unwrap();
        let _guard = rt.enter();
        let world = TestWorld::<NotSharded>::default();
        let [c1, c2, c3]: [MaliciousContext<'_, NotSharded>; 3] = world.malicious_contexts();
        let m25 = Malicious::<Fp25519, NotSharded>::new.c04_new(c3.narrow("c04-fp25519").set_total_records(1usize), 0);
        let a25 = RefCell::new(m25.accumulator);
        let m31 = Malicious::<Fp31, NotSharded>::new.c04_new(c1.narrow("c04-fp31").set_total_records(1usize), 0);
        let m32 = Malicious::<Fp32BitPrime, NotSharded>::new.c04_new(c2.narrow("c04-fp32").set_total_records(1usize), 0);
        let a31 = RefCell::new(m31.accumulator);
        let a32 = RefCell::new(m32.accumulator);
        run_suite("c04_pure", generate, |req| {
            let t: Vec<&str> = req.split(' ').collect();
            match t[1] {
                "Fp31" => exec_f::<Fp31>(&a31, &t),
                "Fp32BitPrime" => exec_f::<Fp32BitPrime>(&a32, &t),
                "Fp25519x16" => vector16(&a25, &t),
                f => panic!("harness: unknown field {f}"),
            }
        });
    }
}


// ------------------------------------------------------------------------------------------
// C16 — the validator WRAPPERS around the batcher (agent b10): the real `MaliciousDZKPValidator`
// (+ `DZKPUpgraded::validate_record`) and the real MAC `BatchValidator` (+ `Upgraded::validate_record`)
// under malicious `TestWorld` contexts.
//
// Request:  c16.val <dzkp|mac> <context total|-|inf> <records per batch | active work> <op>…
//   t<n>|ti|tu  DZKPValidator::set_total_records      v<r>  ctx.validate_record(r): created, polled once
//   p<i>  poll future i again (MAC: on all three helpers until it completes or nothing moves any more)
//   d<i>  drop future i      s | s<k>  validate() | validate_indexed(k)      e  is_verified
// Response: one token per op, then `| drop=<outcome of dropping the validator>`.
// A future index is allocated by every `v` whose first poll did not panic.
pub mod c16_validators {
    use std::{
        future::Future,
        pin::Pin,
        task::{Context as TaskCtx, Poll},
    };

    use super::c16_batcher::{err_tag, permutations, tag};
    use crate::{
        error::Error,
        ff::Fp31,
        helpers::TotalRecords,
        ipa_verif::proto::*,
        protocol::{
            RecordId,
            context::{
                Context, DZKPContext, MaliciousContext, TEST_DZKP_STEPS, UpgradableContext, UpgradedContext,
                Validator, dzkp_validator::DZKPValidator,
            },
        },
        sharding::NotSharded,
        test_fixture::TestWorld,
        utils::NonZeroU32PowerOfTwo,
    };

    type Fut<'a> = Pin<Box<dyn Future<Output = Result<(), Error>> + Send + 'a>>;

    /// rounds of "poll on every helper, then let every other task of the runtime run" after which a
    /// still pending MAC future counts as waiting (single-threaded runtime: no wall clock involved;
    /// an honest MAC check needs about 20 rounds).
    const SETTLE_ROUNDS: usize = 400;

    fn wtag(msg: &str) -> String {
        if msg.contains("PoisonError") {
            "panic:poisoned".into()
        } else if msg.contains("validator should be active")
            || msg.contains("alidator is active")
            || msg.contains("Validation batch is active")
            || msg.contains("nothing else should be consuming")
        {
            "panic:inactive".into()
        } else if msg.contains("only strong reference") {
            "panic:strong-ref".into()
        } else if msg.contains("Total records must be specified") {
            "panic:total-required".into()
        } else if msg.contains("ConvertError") {
            "panic:not-pow2".into()
        } else if msg.contains("ContextUnsafe") {
            "panic:context-unsafe".into()
        } else if msg.contains("`Option::unwrap()` on a `None` value") {
            "panic:zero-batch".into()
        } else {
            tag(msg)
        }
    }

    fn parse_total(s: &str) -> Option<TotalRecords> {
        match s {
            "-" => None,
            "inf" => Some(TotalRecords::Indeterminate),
            n => Some(TotalRecords::specified(n.parse().unwrap()).unwrap()),
        }
    }

    fn op_total(arg: &str) -> TotalRecords {
        match arg {
            "i" => TotalRecords::Indeterminate,
            "u" => TotalRecords::Unspecified,
            n => TotalRecords::specified(n.parse().unwrap()).unwrap(),
        }
    }

    fn poll_once(f: &mut Fut<'_>) -> Result<Poll<Result<(), Error>>, String> {
        let mut cx = TaskCtx::from_waker(futures::task::noop_waker_ref());
        guarded(|| f.as_mut().poll(&mut cx))
    }

    fn res_tag(r: &Result<(), Error>) -> String {
        match r {
            Ok(()) => "ok".into(),
            Err(e) => err_tag(e),
        }
    }

    fn exec_dzkp(base: MaliciousContext<'_, NotSharded>, total: &str, rpb: usize, ops: &[&str]) -> String {
        let base = match parse_total(total) {
            None => base,
            Some(t) => base.set_total_records(t),
        };
        let mut validator = match guarded(|| base.dzkp_validator(TEST_DZKP_STEPS, rpb)) {
            Ok(v) => Some(v),
            Err(p) => return wtag(&p),
        };
        let ctx = validator.as_ref().unwrap().context();
        let mut futs: Vec<Option<Fut<'_>>> = vec![];
        let mut out: Vec<String> = vec![];
        for op in ops {
            let (c, arg) = op.split_at(1);
            let num = || arg.parse::<usize>().unwrap();
            let resp: String = match c {
                "t" => match validator.as_mut() {
                    None => "moved".into(),
                    Some(v) => match guarded(|| v.set_total_records(op_total(arg))) {
                        Ok(()) => "t".into(),
                        Err(p) => wtag(&p),
                    },
                },
                "v" => {
                    let mut f: Fut<'_> = ctx.validate_record(RecordId::from(num()));
                    match poll_once(&mut f) {
                        Ok(Poll::Pending) => {
                            futs.push(Some(f));
                            "pend".into()
                        }
                        Ok(Poll::Ready(r)) => {
                            futs.push(None);
                            res_tag(&r)
                        }
                        Err(p) => wtag(&p),
                    }
                }
                "p" => {
                    let i = num();
                    match futs.get_mut(i).and_then(|f| f.as_mut()) {
                        None => "gone".into(),
                        Some(f) => match poll_once(f) {
                            Ok(Poll::Pending) => "pend".into(),
                            Ok(Poll::Ready(r)) => {
                                futs[i] = None;
                                res_tag(&r)
                            }
                            Err(p) => {
                                futs[i] = None;
                                wtag(&p)
                            }
                        },
                    }
                }
                "d" => {
                    if let Some(f) = futs.get_mut(num()) {
                        *f = None;
                    }
                    "d".into()
                }
                "s" => match validator.take() {
                    None => "moved".into(),
                    Some(v) => {
                        let mut f: Fut<'_> = if arg.is_empty() { v.validate() } else { v.validate_indexed(num()) };
                        match poll_once(&mut f) {
                            Ok(Poll::Pending) => "s:pend".into(),
                            Ok(Poll::Ready(Ok(()))) => "s:ok".into(),
                            Ok(Poll::Ready(Err(e))) => err_tag(&e),
                            Err(p) => wtag(&p),
                        }
                    }
                },
                "e" => match validator.as_ref() {
                    None => "moved".into(),
                    Some(v) => match guarded(|| v.is_verified()) {
                        Ok(Ok(())) => "e1".into(),
                        Ok(Err(Error::ContextUnsafe(_))) => "e0".into(),
                        Ok(Err(e)) => err_tag(&e),
                        Err(p) => wtag(&p),
                    },
                },
                _ => panic!("harness: unknown op {op}"),
            };
            out.push(resp);
        }
        drop(futs);
        let dropped = match validator.take() {
            None => "ok".to_string(),
            Some(v) => match guarded(move || drop(v)) {
                Ok(()) => "ok".into(),
                Err(p) => wtag(&p),
            },
        };
        out.push("|".into());
        out.push(format!("drop={dropped}"));
        out.join(" ")
    }

    fn agree(xs: &[String; 3]) -> String {
        if xs[0] == xs[1] && xs[1] == xs[2] {
            xs[0].clone()
        } else {
            format!("diverged:{}/{}/{}", xs[0], xs[1], xs[2])
        }
    }

    async fn exec_mac(bases: [MaliciousContext<'_, NotSharded>; 3], total: &str, aw: usize, ops: &[&str]) -> String {
        let aw = NonZeroU32PowerOfTwo::try_from(aw).expect("harness: active work must be a power of two");
        let mut validators = vec![];
        let mut refused: Vec<String> = vec![];
        for base in bases {
            let base = base.set_active_work(aw);
            let base = match parse_total(total) {
                None => base,
                Some(t) => base.set_total_records(t),
            };
            match guarded(|| base.validator::<Fp31>()) {
                Ok(v) => validators.push(v),
                Err(p) => refused.push(wtag(&p)),
            }
        }
        if !refused.is_empty() {
            return if refused.len() == 3 && refused[0] == refused[1] && refused[1] == refused[2] {
                refused[0].clone()
            } else {
                format!("diverged:{}", refused.join("/"))
            };
        }
        let ctxs: Vec<_> = validators.iter().map(|v| v.context()).collect();
        let mut futs: [Vec<Option<Fut<'_>>>; 3] = [vec![], vec![], vec![]];
        let mut out: Vec<String> = vec![];
        for op in ops {
            let (c, arg) = op.split_at(1);
            let num = || arg.parse::<usize>().unwrap();
            let resp: String = match c {
                "t" | "s" | "e" => "na".into(),
                "v" => {
                    let r = num();
                    let mut rs: [String; 3] = Default::default();
                    for h in 0..3 {
                        let mut f: Fut<'_> = ctxs[h].validate_record(RecordId::from(r));
                        rs[h] = match poll_once(&mut f) {
                            Ok(Poll::Pending) => {
                                futs[h].push(Some(f));
                                "pend".into()
                            }
                            Ok(Poll::Ready(r)) => {
                                futs[h].push(None);
                                res_tag(&r)
                            }
                            Err(p) => wtag(&p),
                        };
                    }
                    agree(&rs)
                }
                "p" => {
                    let i = num();
                    let mut rs: [Option<String>; 3] = Default::default();
                    for h in 0..3 {
                        if futs[h].get(i).map_or(true, Option::is_none) {
                            rs[h] = Some("gone".into());
                        }
                    }
                    for _ in 0..SETTLE_ROUNDS {
                        for h in 0..3 {
                            if rs[h].is_some() {
                                continue;
                            }
                            let f = futs[h][i].as_mut().unwrap();
                            match poll_once(f) {
                                Ok(Poll::Pending) => {}
                                Ok(Poll::Ready(r)) => {
                                    futs[h][i] = None;
                                    rs[h] = Some(res_tag(&r));
                                }
                                Err(p) => {
                                    futs[h][i] = None;
                                    rs[h] = Some(wtag(&p));
                                }
                            }
                        }
                        if rs.iter().all(Option::is_some) {
                            break;
                        }
                        tokio::task::yield_now().await;
                    }
                    agree(&rs.map(|r| r.unwrap_or_else(|| "pend".into())))
                }
                "d" => {
                    let i = num();
                    for h in 0..3 {
                        if let Some(f) = futs[h].get_mut(i) {
                            *f = None;
                        }
                    }
                    "d".into()
                }
                _ => panic!("harness: unknown op {op}"),
            };
            out.push(resp);
        }
        drop(futs);
        drop(ctxs);
        drop(validators);
        out.push("|".into());
        out.push("drop=ok".into());
        out.join(" ")
    }

    fn script(kind: &str, total: &str, rpb: usize, ops: &[String]) -> String {
        format!("c16.val {kind} {total} {rpb} {}", ops.join(" "))
    }

    /// `v` for every record of `order`; `poll_now`: re-poll everything after each arrival, otherwise
    /// only at the end (twice).
    fn arrivals(order: &[usize], poll_now: bool) -> Vec<String> {
        let mut ops = vec![];
        for (k, r) in order.iter().enumerate() {
            ops.push(format!("v{r}"));
            if poll_now {
                for i in 0..=k {
                    ops.push(format!("p{i}"));
                }
            }
        }
        for _ in 0..2 {
            for i in 0..order.len() {
                ops.push(format!("p{i}"));
            }
        }
        ops
    }

    pub fn generate(rng: &mut Rng, thorough: bool) -> Vec<String> {
        let mut out: Vec<String> = vec![];
        // ---- boundary scripts first
        for s in [
            // the declared total differs from the one of the context (larger / smaller / equal)
            "c16.val dzkp 6 4 t8 v4 v5 p0 p1 v6 v7 p0 p1 v0 v1 v2 v3 e",
            "c16.val dzkp 8 4 t6 v4 v5 p0 p1 v0 v1 v2 v3 e",
            "c16.val dzkp 6 4 t6 v4 v5 p0 v0 v1 v2 v3 p1 p2 p3 e",
            "c16.val dzkp 6 4 v4 v5 p0 v0 v1 v2 v3 p1 p2 p3 e",
            "c16.val dzkp 5 2 ti v0 tu t5 e",
            "c16.val dzkp 5 2 tu v4 p0 v0 e",
            // declared on the validator only / not at all / indeterminate context
            "c16.val dzkp - 4 t6 v4 v5 p0 v0 v1 v2 v3 p1 p2 p3 e",
            "c16.val dzkp - 4 v0 p0 t6 v0 v4 v5 p1 p2 e",
            "c16.val dzkp - 4 tu v0 ti v0 t3 e",
            "c16.val dzkp inf 2 v0 t4 v0 e",
            "c16.val dzkp - 2 t4 t4 v0 e",
            "c16.val dzkp - 2 t4 ti v0 p0 e",
            // batch sizes that the wrapper refuses / leaves alone
            "c16.val dzkp 6 0 v0",
            "c16.val dzkp 6 3 v0",
            "c16.val dzkp 6 6 v0",
            "c16.val dzkp 6 4294967296 v0",
            "c16.val dzkp 3 1 v2 v0 v1 p0 e",
            "c16.val dzkp 3 18446744073709551615 v2 v0 p0 v1 p0 p1 e",
            "c16.val dzkp 3 18446744073709551615 e s e",
            // validate() / validate_indexed
            "c16.val dzkp 4 2 s t4 e s",
            "c16.val dzkp 4 2 s7 v0",
            "c16.val dzkp - 2 s v0 p0",
            "c16.val dzkp 4 2 v0 s v1 p0 p1 v2 e",
            "c16.val dzkp 4 2 v0 d0 s v1",
            "c16.val dzkp 4 2 v0 v1 e s",
            "c16.val dzkp 4 2 v0 v1 v2 d2 e s",
            "c16.val dzkp 4 2 v2 v3 e s",
            "c16.val dzkp 4 2 v2 d0 e s v0",
            // misuse: twice, beyond the total, already validated -> the mutex is poisoned afterwards
            "c16.val dzkp 4 2 v0 v0 v1 p0 e t4 s",
            "c16.val dzkp 4 2 v0 v1 v0 v2 e",
            "c16.val dzkp 3 2 v3 v2 p0 v3 e",
            "c16.val dzkp 3 2 v4 p0 v5 v2 p1 e",
            "c16.val dzkp 4 2 v1 e v0 e",
            // MAC validator: the total must be on the context, batch size = active work
            "c16.val mac - 4 v0",
            "c16.val mac inf 4 v0",
            "c16.val mac 6 4 v4 v5 p0 p1 p0 v0 v1 v2 p2 v3 p2 p5 p3 p4",
            "c16.val mac 6 4 v5 v4 p0 p1 v0 v1 v2 v3 p5 p2 p3 p4",
            "c16.val mac 3 2 v0 v0 v1 p0",
            "c16.val mac 3 2 v3 v2 p0 v4 p1 p2",
            "c16.val mac 4 2 v0 v1 p1 p0 v1 v2",
            "c16.val mac 4 2 v0 v1 d1 p0",
            "c16.val mac 8 8 v7 v6 v5 v4 v3 v2 v1 p0 v0 p7 p0 p1 p2 p3 p4 p5 p6",
        ] {
            out.push(s.to_string());
        }
        // ---- context total a x declared total b x records per batch: the records of the last
        // batch(es) arrive under the declared total
        for rpb in 1..=4usize {
            for a in [None, Some(1usize), Some(2), Some(3), Some(4), Some(5), Some(6), Some(7), Some(8)] {
                let mut decls: Vec<String> = vec!["".into(), "ti".into(), "tu".into()];
                for b in 1..=9usize {
                    decls.push(format!("t{b}"));
                }
                for d in decls {
                    let eff = match (a, d.as_str()) {
                        (_, "ti") | (None, "" | "tu") => 4,
                        (Some(a), "" | "tu") => a,
                        (_, t) => t[1..].parse::<usize>().unwrap(),
                    };
                    let n = eff.max(a.unwrap_or(0));
                    let asc: Vec<usize> = (0..n).collect();
                    let desc: Vec<usize> = (0..n).rev().collect();
                    let mut rnd = asc.clone();
                    rng.shuffle(&mut rnd);
                    for (k, order) in [asc, desc, rnd].iter().enumerate() {
                        let mut ops: Vec<String> = vec![];
                        if !d.is_empty() {
                            ops.push(d.clone());
                        }
                        ops.extend(arrivals(order, k == 2));
                        ops.push("e".into());
                        out.push(script("dzkp", &a.map_or("-".to_string(), |a| a.to_string()), rpb, &ops));
                    }
                }
            }
        }
        // ---- declaration after some records already asked (unspecified context)
        for rpb in [1usize, 2, 4] {
            for n in 1..=6usize {
                for pos in 0..=n {
                    let mut ops: Vec<String> = vec![];
                    let mut order: Vec<usize> = (0..n).collect();
                    rng.shuffle(&mut order);
                    for (k, r) in order.iter().enumerate() {
                        if k == pos {
                            ops.push(format!("t{n}"));
                        }
                        ops.push(format!("v{r}"));
                    }
                    if pos == n {
                        ops.push(format!("t{n}"));
                    }
                    for i in 0..n {
                        ops.push(format!("p{i}"));
                    }
                    ops.push("e".into());
                    out.push(script("dzkp", "-", rpb, &ops));
                }
            }
        }
        // ---- every arrival permutation (n <= 5; 6 thorough), total from the context or declared
        let nmax = if thorough { 6 } else { 5 };
        for n in 1..=nmax {
            for (pi, order) in permutations(n).iter().enumerate() {
                for rpb in [1usize, 2, 4] {
                    let mut ops = arrivals(order, pi % 2 == 0);
                    ops.push("e".into());
                    if pi % 2 == 0 {
                        out.push(script("dzkp", &n.to_string(), rpb, &ops));
                    } else {
                        ops.insert(0, format!("t{n}"));
                        out.push(script("dzkp", "-", rpb, &ops));
                    }
                }
            }
        }
        // ---- MAC: every arrival permutation n <= 4, larger totals in three orders
        for n in 1..=4usize {
            for (pi, order) in permutations(n).iter().enumerate() {
                for aw in [2usize, 4] {
                    out.push(script("mac", &n.to_string(), aw, &arrivals(order, pi % 2 == 1)));
                }
            }
        }
        for aw in [2usize, 4, 8] {
            for n in [5usize, 6, 7, 8, 9, 12, 16, 17] {
                let asc: Vec<usize> = (0..n).collect();
                let desc: Vec<usize> = (0..n).rev().collect();
                let mut rnd = asc.clone();
                rng.shuffle(&mut rnd);
                for (k, order) in [asc, desc, rnd].iter().enumerate() {
                    if n > 9 && k == 2 && !thorough {
                        continue;
                    }
                    out.push(script("mac", &n.to_string(), aw, &arrivals(order, k == 2 && n <= 9)));
                }
            }
        }
        // ---- random scripts with misuse mixed in
        for k in 0..(if thorough { 3000 } else { 300 }) {
            let mac = k % 4 == 3;
            let rpb = if mac { *rng.pick(&[2usize, 4]) } else { *rng.pick(&[1usize, 2, 4, 8]) };
            let total = 1 + rng.usize_below(12);
            let from_ctx = mac || rng.bool();
            let mut order: Vec<usize> = (0..total).collect();
            rng.shuffle(&mut order);
            if rng.below(3) == 0 {
                order.truncate(rng.usize_below(total + 1));
            }
            let mut ops: Vec<String> = vec![];
            if !from_ctx {
                ops.push(format!("t{total}"));
            }
            let mut nf = 0usize;
            for r in &order {
                ops.push(format!("v{r}"));
                nf += 1;
                match rng.below(12) {
                    0 => ops.push(format!("v{}", rng.usize_below(total + rpb + 2))),
                    1 if !mac => ops.push(format!("t{}", 1 + rng.usize_below(12))),
                    2 | 3 | 4 => ops.push(format!("p{}", rng.usize_below(nf + 1))),
                    5 => ops.push(format!("d{}", rng.usize_below(nf + 1))),
                    6 if !mac => ops.push("e".into()),
                    7 if !mac && rng.below(4) == 0 => ops.push("s".into()),
                    _ => {}
                }
            }
            for _ in 0..2 {
                for i in 0..nf + 2 {
                    ops.push(format!("p{i}"));
                }
            }
            if !mac {
                ops.push("e".into());
            }
            out.push(script(
                if mac { "mac" } else { "dzkp" },
                &if from_ctx { total.to_string() } else { "-".to_string() },
                rpb,
                &ops,
            ));
        }
        out
    }

    #[test]
    fn verif_c16_validators() {
        // one single-threaded runtime and one TestWorld for the whole suite; every request gets its own
        // gate, so PRSS indices and channels of different requests never meet
        let rt = tokio::runtime::Builder::new_current_thread().enable_all().build().unwrap();
        let _guard = rt.enter();
        let world = TestWorld::<NotSharded>::default();
        let counter = std::cell::Cell::new(0usize);
        // (`malicious_contexts` hands out at most 999 gates per world)
        let roots = world.malicious_contexts();
        run_suite("c16_validators", generate, |req| {
            let t: Vec<&str> = req.split(' ').collect();
            assert_eq!(t[0], "c16.val");
            let k = counter.get();
            counter.set(k + 1);
            let step = format!("c16v{k}");
            let bases = roots.clone().map(|c| c.narrow(&step));
            let rpb: usize = t[3].parse().unwrap();
            match t[1] {
                "dzkp" => {
                    let [h1, _, _] = bases;
                    exec_dzkp(h1, t[2], rpb, &t[4..])
                }
                "mac" => rt.block_on(exec_mac(bases, t[2], rpb, &t[4..])),
                k => panic!("harness: unknown validator kind {k}"),
            }
        });
    }
}

// ------------------------------------------------------------------------------------------
// C15 — `DZKPValidator::validated_seq_join` (agent b14, seed C15c): the REAL joined stream of a malicious DZKP validator
// (batch size > 1: `validate_record(i)` completes only when the whole batch asked) or of the semi-honest validator
// over scripted tasks.
//
// Request:  c15.vjoin <dzkp|sh> <n> <rpb> <op>…
//   c<i> task i completes with Ok(i)     f<i> task i completes with Err(Internal)     p  one poll_next (no-op waker)
// Response: one token per `p` (`P` | `o<i>` | `e` | `end` | `done` = polled after the end, not executed), then
// `| drop=ok` / `| drop=unverified` (dropping the stream drops the validator: `ContextUnsafe` panic if a batch some of
// whose records asked was never validated).
//           c15.vcollect <dzkp|sh> <n> <rpb> <i|->   validated_seq_join(..).try_collect() on a real runtime: tasks < i
// complete at once, task i fails at once, later tasks never complete. Response `ok:<n>` | `err` | `timeout`.
pub mod c15_validated {
    use std::{
        future::Future,
        pin::Pin,
        sync::{Arc, Mutex},
        task::{Context as TaskCtx, Poll},
    };

    use futures::{Stream, StreamExt, TryStreamExt, stream};

    use crate::{
        error::Error,
        ipa_verif::proto::*,
        protocol::context::{
            Context, MaliciousContext, SemiHonestContext, TEST_DZKP_STEPS, UpgradableContext,
            dzkp_validator::DZKPValidator,
        },
        sharding::NotSharded,
        test_fixture::TestWorld,
    };

    /// 0 = not completed, 1 = Ok(index), 2 = Err(Internal)
    type Script = Arc<Mutex<Vec<u8>>>;

    struct Task {
        i: usize,
        script: Script,
    }

    impl Future for Task {
        type Output = Result<usize, Error>;
        fn poll(self: Pin<&mut Self>, _cx: &mut TaskCtx<'_>) -> Poll<Self::Output> {
            match self.script.lock().unwrap()[self.i] {
                0 => Poll::Pending,
                1 => Poll::Ready(Ok(self.i)),
                _ => Poll::Ready(Err(Error::Internal)),
            }
        }
    }

    fn tasks(n: usize, script: &Script) -> impl Stream<Item = Task> + Send + 'static {
        let script = Arc::clone(script);
        stream::iter((0..n).map(move |i| Task { i, script: Arc::clone(&script) }))
    }

    fn drive<'a, S>(mut joined: Pin<Box<S>>, script: &Script, ops: &[&str]) -> String
    where
        S: Stream<Item = Result<usize, Error>> + ?Sized + 'a,
    {
        let mut out: Vec<String> = vec![];
        let mut ended = false;
        for op in ops {
            let (c, arg) = op.split_at(1);
            match c {
                "c" => script.lock().unwrap()[arg.parse::<usize>().unwrap()] = 1,
                "f" => script.lock().unwrap()[arg.parse::<usize>().unwrap()] = 2,
                "p" if ended => out.push("done".into()),
                "p" => {
                    let mut cx = TaskCtx::from_waker(futures::task::noop_waker_ref());
                    match guarded(|| joined.as_mut().poll_next(&mut cx)) {
                        Ok(Poll::Pending) => out.push("P".into()),
                        Ok(Poll::Ready(Some(Ok(i)))) => out.push(format!("o{i}")),
                        Ok(Poll::Ready(Some(Err(Error::Internal)))) => out.push("e".into()),
                        Ok(Poll::Ready(Some(Err(e)))) => out.push(format!("err:{}", super::c16_batcher::err_tag(&e))),
                        Ok(Poll::Ready(None)) => {
                            ended = true;
                            out.push("end".into());
                        }
                        // the stream ends by dropping the validator it kept alive: `ContextUnsafe` panic if a batch
                        // some of whose records asked was never validated
                        Err(p) if p.contains("ContextUnsafe") => {
                            ended = true;
                            out.push("end-unverified".into());
                        }
                        Err(p) => {
                            ended = true;
                            out.push(format!("panic:{}", p.chars().take(60).collect::<String>().replace(' ', "_")));
                        }
                    }
                }
                _ => panic!("harness: unknown op {op}"),
            }
        }
        let dropped = match guarded(move || drop(joined)) {
            Ok(()) => "ok".to_string(),
            // `Drop for MaliciousDZKPValidator`: `is_verified().unwrap()` with a batch that was never validated
            Err(p) if p.contains("ContextUnsafe") => "unverified".to_string(),
            Err(p) => format!("panic:{}", p.chars().take(60).collect::<String>().replace(' ', "_")),
        };
        out.push("|".into());
        out.push(format!("drop={dropped}"));
        out.join(" ")
    }

    fn exec_vjoin(mal: MaliciousContext<'_, NotSharded>, sh: SemiHonestContext<'_>, t: &[&str]) -> String {
        let n: usize = t[2].parse().unwrap();
        let rpb: usize = t[3].parse().unwrap();
        let script: Script = Arc::new(Mutex::new(vec![0u8; n]));
        match t[1] {
            "dzkp" => {
                let v = mal.set_total_records(n).dzkp_validator(TEST_DZKP_STEPS, rpb);
                drive(Box::pin(v.validated_seq_join(tasks(n, &script))), &script, &t[4..])
            }
            "sh" => {
                let v = sh.set_total_records(n).dzkp_validator(TEST_DZKP_STEPS, rpb);
                drive(Box::pin(v.validated_seq_join(tasks(n, &script))), &script, &t[4..])
            }
            k => panic!("harness: unknown validator kind {k}"),
        }
    }

    fn exec_vcollect(mal: MaliciousContext<'_, NotSharded>, sh: SemiHonestContext<'_>, t: &[&str]) -> String {
        let n: usize = t[2].parse().unwrap();
        let rpb: usize = t[3].parse().unwrap();
        let e: Option<usize> = t[4].parse().ok();
        let script: Script = Arc::new(Mutex::new(
            (0..n).map(|i| match e { Some(e) if i == e => 2, Some(e) if i > e => 0, _ => 1 }).collect(),
        ));
        let fmt1 = |r: Result<Result<Vec<usize>, Error>, String>| match r {
            Err(_) => "timeout".to_string(),
            Ok(Ok(v)) if v == (0..n).collect::<Vec<_>>() => format!("ok:{n}"),
            Ok(Ok(v)) => format!("ok-wrong:{}", nat_list(&v)),
            Ok(Err(Error::Internal)) => "err".into(),
            Ok(Err(e)) => format!("err:{}", super::c16_batcher::err_tag(&e)),
        };
        // a join that does not complete is dropped after the timeout; its validator then panics (`ContextUnsafe`) if a
        // record had asked for a validation that never came: still a timeout
        let fmt = |r: Result<Result<Result<Vec<usize>, Error>, String>, String>| match r {
            Err(p) if p.contains("ContextUnsafe") => "timeout".to_string(),
            Err(p) => p,
            Ok(r) => fmt1(r),
        };
        match t[1] {
            "dzkp" => {
                let v = mal.set_total_records(n).dzkp_validator(TEST_DZKP_STEPS, rpb);
                fmt(guarded(|| block_on_timeout(8, v.validated_seq_join(tasks(n, &script)).try_collect::<Vec<usize>>())))
            }
            "sh" => {
                let v = sh.set_total_records(n).dzkp_validator(TEST_DZKP_STEPS, rpb);
                fmt(guarded(|| block_on_timeout(8, v.validated_seq_join(tasks(n, &script)).try_collect::<Vec<usize>>())))
            }
            k => panic!("harness: unknown validator kind {k}"),
        }
    }

    fn script_line(kind: &str, n: usize, rpb: usize, ops: &[String]) -> String {
        format!("c15.vjoin {kind} {n} {rpb} {}", ops.join(" "))
    }

    pub fn generate(rng: &mut Rng, thorough: bool) -> Vec<String> {
        let mut out: Vec<String> = vec![];
        // ---- boundary scripts first
        for s in [
            // one batch of four, the front task fails, the others never complete (seed C15c's demonstration)
            "c15.vjoin dzkp 4 4 f0 p p",
            "c15.vjoin sh 4 4 f0 p p",
            // the error starts the second batch; the first batch is complete
            "c15.vjoin dzkp 8 4 c0 c1 c2 c3 f4 p p p p p p p",
            // the failing task completes late, the rest of its batch later or never
            "c15.vjoin dzkp 4 2 p f0 p c1 p p c2 c3 p p p p",
            "c15.vjoin dzkp 6 2 c0 c1 p p p f2 p c3 p c4 c5 p p p p",
            // all complete: batches of 2 / 4, partial last batch, batch size 1, one batch for everything
            "c15.vjoin dzkp 5 2 c0 c1 c2 c3 c4 p p p p p p p p p",
            "c15.vjoin dzkp 6 4 c5 c4 p c3 c2 p c1 c0 p p p p p p p p p",
            "c15.vjoin dzkp 3 1 c2 p c0 p c1 p p p",
            "c15.vjoin dzkp 3 18446744073709551615 c0 c1 p c2 p p p p p",
            "c15.vjoin sh 3 2 c2 p c0 p p c1 p p p p",
            // an error in the middle of a batch: the earlier records of that batch are never released
            "c15.vjoin dzkp 4 4 c0 f1 c2 c3 p p p p",
            "c15.vjoin sh 4 4 c0 f1 c2 c3 p p p p p p",
            // two errors
            "c15.vjoin dzkp 4 2 f0 f2 p p p c1 c3 p p p p",
            // nothing to join
            "c15.vjoin dzkp 1 2 p c0 p p p",
        ] {
            out.push(s.to_string());
        }
        // ---- the first error at the start of a batch, for every batch size / position / state of the other tasks
        for rpb in [2usize, 4, 8] {
            for batches in 1..=3usize {
                for eb in 0..batches {
                    let n = batches * rpb - if batches > 1 && eb + 1 < batches { rng.usize_below(rpb) } else { 0 };
                    let e = eb * rpb;
                    for style in 0..4 {
                        let mut ops: Vec<String> = vec![];
                        let mut before: Vec<usize> = (0..e).collect();
                        if style % 2 == 1 {
                            rng.shuffle(&mut before);
                        }
                        for i in &before {
                            ops.push(format!("c{i}"));
                            if style == 3 {
                                ops.push("p".into());
                            }
                        }
                        if style >= 2 {
                            // some of the later records complete as well, but never the whole batch of the failing one
                            for i in e + 1..n {
                                if i != e + 1 && rng.bool() {
                                    ops.push(format!("c{i}"));
                                }
                            }
                        }
                        ops.push(format!("f{e}"));
                        for _ in 0..2 * e + 4 {
                            ops.push("p".into());
                        }
                        out.push(script_line("dzkp", n, rpb, &ops));
                    }
                }
            }
        }
        // ---- random scripts: completion order, error positions, polls in between
        for k in 0..(if thorough { 6000 } else { 600 }) {
            let kind = if k % 5 == 4 { "sh" } else { "dzkp" };
            let rpb = *rng.pick(&[1usize, 2, 2, 4, 4, 8]);
            let n = 1 + rng.usize_below(if rpb == 8 { 16 } else { 10 });
            let mut order: Vec<usize> = (0..n).collect();
            if rng.below(3) > 0 {
                rng.shuffle(&mut order);
            }
            if rng.below(3) == 0 {
                order.truncate(rng.usize_below(n + 1));
            }
            let nerr = match rng.below(4) { 0 => 0, 1 | 2 => 1, _ => 2 };
            let errs: Vec<usize> = (0..nerr).map(|_| if rng.bool() { rpb * rng.usize_below(n.div_ceil(rpb)) } else { rng.usize_below(n) }).collect();
            let mut ops: Vec<String> = vec![];
            for i in &order {
                ops.push(if errs.contains(i) { format!("f{i}") } else { format!("c{i}") });
                for _ in 0..rng.below(3) {
                    ops.push("p".into());
                }
            }
            for _ in 0..2 * n + 3 {
                ops.push("p".into());
            }
            out.push(script_line(kind, n, rpb, &ops));
        }
        // ---- through try_collect on a real runtime
        for s in [
            "c15.vcollect dzkp 4 4 0",
            "c15.vcollect dzkp 8 4 4",
            "c15.vcollect dzkp 6 2 4",
            "c15.vcollect dzkp 5 2 -",
            "c15.vcollect sh 4 4 1",
        ] {
            out.push(s.to_string());
        }
        out
    }

    #[test]
    fn verif_c15_validated() {
        // one TestWorld for the whole suite; every request gets its own gate (`malicious_contexts` / `contexts` hand out
        // a limited number of gates per world: called once, then narrowed). Nothing is ever multiplied, so no message
        // is sent: the runtime only has to exist for the in-memory transport's listener tasks.
        let rt = tokio::runtime::Builder::new_current_thread().enable_all().build().unwrap();
        let _guard = rt.enter();
        let world = TestWorld::<NotSharded>::default();
        let counter = std::cell::Cell::new(0usize);
        let [mal, _, _] = world.malicious_contexts();
        let [sh, _, _] = world.contexts();
        run_suite("c15_validated", generate, |req| {
            let t: Vec<&str> = req.split(' ').collect();
            let k = counter.get();
            counter.set(k + 1);
            let step = format!("c15v{k}");
            let (mal, sh) = (mal.narrow(&step), sh.narrow(&step));
            match t[0] {
                "c15.vjoin" => exec_vjoin(mal, sh, &t),
                "c15.vcollect" => exec_vcollect(mal, sh, &t),
                r => panic!("harness: unknown request {r}"),
            }
        });
    }
}

// ------------------------------------------------------------------------------------------
// C16 (b21): c16_race — `validate_record` of ONE real `MaliciousDZKPValidator` called from several OS threads.
//
//   c16.race <records per batch> <total> <T> <R> <seed>   ->   rounds=<R> ok=<k> validations=<n>[ first=<round>:<why>]
//
// Each of the R rounds takes a fresh validate_record-style validator on one helper (nothing is pushed, so
// `Batch::validate` returns at once and no other helper is needed), shuffles the records 0 … total−1 and deals them to T
// real OS threads (position j -> thread j mod T; std::thread::scope, spin barrier). Every thread creates the REAL
// `DZKPUpgraded::validate_record` futures of its records and polls them (no-op waker, `yield_now` between sweeps) until all
// completed: the first poll of each future is the critical section (`batcher.lock().unwrap().validate_record(..)` ->
// `is_ready_for_validation`), so the T threads race for the pending count / bitmap / deque of the same batches. A round is
// ok iff every record was released with `Ok(())`, nothing panicked, nothing was still pending after 10 s (a hang ends the request; the only use of
// the clock: a failure path), the validator reports `is_verified()`, and the batch validation closure ran EXACTLY ONCE for
// every batch index 0 … ⌈total/rpb⌉−1 (guarded hook at the top of `Batch::validate`, registry in harness/c16.rs).
// `validations` = number of closure invocations over all rounds. Deterministic on a correct tree (mutual exclusion:
// `exactly_one_validator`); under a check-then-act split two callers both see "ready" (double take -> panic / the NEXT
// batch popped and validated early) or nobody does (hang).
pub mod c16_race {
    use std::{
        future::Future,
        pin::Pin,
        sync::atomic::{AtomicUsize, Ordering},
        task::{Context as TaskCtx, Poll},
    };

    use super::c16_batcher::tag;
    use crate::{
        error::Error,
        ipa_verif::proto::*,
        protocol::{
            RecordId,
            context::{Context, DZKPContext, MaliciousContext, TEST_DZKP_STEPS, UpgradableContext, dzkp_validator::DZKPValidator},
        },
        sharding::NotSharded,
        test_fixture::TestWorld,
    };

    type Fut<'a> = Pin<Box<dyn Future<Output = Result<(), Error>> + Send + 'a>>;

    fn exec(base: &MaliciousContext<'_, NotSharded>, k: usize, req: &str) -> String {
        let t: Vec<&str> = req.split(' ').collect();
        assert_eq!(t[0], "c16.race");
        let p: Vec<usize> = t[1..5].iter().map(|x| x.parse().unwrap()).collect();
        let (rpb, total, threads, rounds) = (p[0], p[1], p[2], p[3]);
        let mut rng = Rng(t[5].parse::<u64>().unwrap() ^ 0xC16_4ACE);
        assert!(rpb >= 1 && total >= 1 && total <= 4096 && (1..=16).contains(&threads) && rounds <= 100_000, "harness: bad race parameters");
        let nb = total.div_ceil(rpb);
        let (mut ok, mut validations) = (0usize, 0usize);
        let mut first_fail: Option<String> = None;
        for round in 0..rounds {
            let marker = format!("c16race{k}x{round}x");
            let validator = base.narrow(&marker).set_total_records(total).dzkp_validator(TEST_DZKP_STEPS, rpb);
            let ctx = validator.context();
            let mut order: Vec<usize> = (0..total).collect();
            rng.shuffle(&mut order);
            let arrived = AtomicUsize::new(0);
            let outcomes: Vec<Vec<(usize, String)>> = std::thread::scope(|sc| {
                let hs: Vec<_> = (0..threads)
                    .map(|t| {
                        let (order, ctx, arrived) = (&order, &ctx, &arrived);
                        sc.spawn(move || {
                            let mine: Vec<usize> = order.iter().skip(t).step_by(threads).copied().collect();
                            arrived.fetch_add(1, Ordering::SeqCst);
                            let mut spins = 0u32;
                            while arrived.load(Ordering::Acquire) < threads {
                                spins += 1;
                                if spins % 4096 == 0 {
                                    std::thread::yield_now();
                                } else {
                                    std::hint::spin_loop();
                                }
                            }
                            let mut futs: Vec<Option<Fut<'_>>> = mine.iter().map(|&r| Some(ctx.validate_record(RecordId::from(r)))).collect();
                            let mut res: Vec<(usize, String)> = vec![];
                            let mut cx = TaskCtx::from_waker(futures::task::noop_waker_ref());
                            let deadline = std::time::Instant::now() + std::time::Duration::from_secs(10);
                            loop {
                                for (i, slot) in futs.iter_mut().enumerate() {
                                    let Some(f) = slot.as_mut() else { continue };
                                    let polled = std::panic::catch_unwind(std::panic::AssertUnwindSafe(|| f.as_mut().poll(&mut cx)));
                                    match polled {
                                        Ok(Poll::Pending) => {}
                                        Ok(Poll::Ready(Ok(()))) => {
                                            res.push((mine[i], "ok".into()));
                                            *slot = None;
                                        }
                                        Ok(Poll::Ready(Err(e))) => {
                                            res.push((mine[i], format!("err:{}", canon(&format!("{e:?}")).replace([' ', ','], "_"))));
                                            *slot = None;
                                        }
                                        Err(p) => {
                                            let msg = p.downcast_ref::<String>().cloned().or_else(|| p.downcast_ref::<&str>().map(|s| (*s).to_string())).unwrap_or_default();
                                            res.push((mine[i], tag(&msg)));
                                            *slot = None;
                                        }
                                    }
                                }
                                if futs.iter().all(Option::is_none) {
                                    break;
                                }
                                if std::time::Instant::now() > deadline {
                                    for (i, slot) in futs.iter().enumerate() {
                                        if slot.is_some() {
                                            res.push((mine[i], "hang".into()));
                                        }
                                    }
                                    break;
                                }
                                std::thread::yield_now();
                            }
                            drop(futs);
                            res
                        })
                    })
                    .collect();
                hs.into_iter().map(|h| h.join().expect("harness: race thread")).collect()
            });
            let handed = crate::ipa_verif::c16::take_validations(&marker);
            validations += handed.len();
            let mut bad: Option<String> = outcomes.iter().flatten().filter(|(_, o)| o != "ok").min().map(|(r, o)| format!("{round}:record{r}:{o}"));
            if bad.is_none() && handed != (0..nb).collect::<Vec<_>>() {
                bad = Some(format!("{round}:validated-batches:{}", handed.iter().map(|b| b.to_string()).collect::<Vec<_>>().join("+")));
            }
            if bad.is_none() {
                match guarded(|| validator.is_verified()) {
                    Ok(Ok(())) => {}
                    Ok(Err(_)) => bad = Some(format!("{round}:unverified")),
                    Err(p) => bad = Some(format!("{round}:is_verified:{}", tag(&p))),
                }
            }
            drop(ctx);
            let _ = guarded(move || drop(validator));
            let hung = outcomes.iter().flatten().any(|(_, o)| o == "hang");
            match bad {
                None => ok += 1,
                Some(b) => {
                    first_fail.get_or_insert(b);
                }
            }
            if hung {
                // every further hang would cost another deadline: the request has failed, stop here
                // (the remaining rounds count as not ok)
                break;
            }
        }
        match first_fail {
            None => format!("rounds={rounds} ok={ok} validations={validations}"),
            Some(f) => format!("rounds={rounds} ok={ok} validations={validations} first={f}"),
        }
    }

    #[test]
    fn verif_c16_race() {
        let rt = tokio::runtime::Builder::new_current_thread().enable_all().build().unwrap();
        let _guard = rt.enter();
        let world = TestWorld::<NotSharded>::default();
        let [root, _, _] = world.malicious_contexts();
        let counter = std::cell::Cell::new(0usize);
        run_suite(
            "c16_race",
            |rng, thorough| {
                let k = if thorough { 20 } else { 1 };
                let mut out = vec![];
                // (records per batch, total, threads, rounds): one batch; several batches; a partial last batch;
                // batches of one record; more threads than records per batch; the sequential control
                for (rpb, total, threads, rounds) in [
                    (16usize, 16usize, 4usize, 600usize),
                    (4, 4, 4, 1000),
                    (2, 2, 2, 1000),
                    (8, 32, 4, 300),
                    (4, 14, 3, 300),
                    (1, 8, 4, 300),
                    (2, 16, 8, 300),
                    (64, 128, 4, 100),
                    (8, 24, 1, 50),
                ] {
                    out.push(format!("c16.race {rpb} {total} {threads} {} {}", rounds * k, rng.below(1 << 40)));
                }
                out
            },
            |req| {
                let k = counter.get();
                counter.set(k + 1);
                exec(&root, k, req)
            },
        );
    }
}
