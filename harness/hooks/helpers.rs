// Suites that need access to items private to this module (feature ipa-verif, test builds only).
