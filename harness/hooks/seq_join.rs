// Suites that need access to items private to this module (feature ipa-verif, test builds only).

// ------------------------------------------------------------------------------------------
// C15 — sequential join (agent a4).
//
//   c15.join <w> <n> <op>…          seq_join over a source with a budget; ops: s<k> (source may yield k
//                                   more items), r<i> (future i becomes ready), p (one poll_next)
//   c15.dep <w> <n> <d> <polls>     task k is ready once tasks k+1..k+d have been polled; `polls` polls
//   c15.try <w> <n> <errs> <op>…    seq_try_join_all; ops r<i>, p (one poll of the TryCollect future)
//   c15.par <n> <errs> <op>…        SeqJoin::parallel_join; ops r<i>, p
//   c15.tryp <w> <n> <errs> <op>…   seq_join(w, source).try_collect() over a source that may be Pending; ops s<k>, r<i>, p
//   c15.hint <try|ctx|par> <shape> <w> <n> <d> <polls>   seq_try_join_all / SeqJoin::try_join / parallel_join over an
//                                   iterator whose size_hint lower bound is below the item count (shapes exact, filter,
//                                   flatmap, takewhile, chain<k>); dependencies as in c15.dep; `polls` polls of the future
// Futures are driven by hand with a no-op waker; every future logs when it is polled.
#[cfg(not(feature = "multi-threading"))]
pub mod c15_local {
    use std::{
        future::Future,
        num::NonZeroUsize,
        pin::Pin,
        sync::{Arc, Mutex},
        task::{Context, Poll},
    };

    use futures::{Stream, stream};

    use super::super::{SeqJoin, seq_join, seq_try_join_all};
    use crate::ipa_verif::proto::*;

    #[derive(Default)]
    struct Shared {
        ready: Vec<usize>,
        errs: Vec<usize>,
        polled: Vec<usize>,
        started: Vec<usize>,
        budget: usize,
        next: usize,
        pulled: usize,
        /// `Some((n, d))`: task k is ready once tasks k+1..=k+d (below n) have been polled
        dep: Option<(usize, usize)>,
    }

    struct Task {
        id: usize,
        sh: Arc<Mutex<Shared>>,
    }

    impl Future for Task {
        type Output = Result<usize, usize>;
        fn poll(self: Pin<&mut Self>, _cx: &mut Context<'_>) -> Poll<Self::Output> {
            let mut sh = self.sh.lock().unwrap();
            sh.polled.push(self.id);
            if !sh.started.contains(&self.id) {
                let id = self.id;
                sh.started.push(id);
            }
            let ready = match sh.dep {
                Some((n, d)) => (1..=d).all(|j| self.id + j >= n || sh.started.contains(&(self.id + j))),
                None => sh.ready.contains(&self.id),
            };
            if ready {
                Poll::Ready(if sh.errs.contains(&self.id) { Err(self.id) } else { Ok(self.id) })
            } else {
                Poll::Pending
            }
        }
    }

    fn source(n: usize, sh: Arc<Mutex<Shared>>) -> impl Stream<Item = Task> + Send {
        stream::poll_fn(move |_cx| {
            let mut s = sh.lock().unwrap();
            if s.next >= n {
                Poll::Ready(None)
            } else if s.budget == 0 {
                Poll::Pending
            } else {
                s.budget -= 1;
                s.pulled += 1;
                let id = s.next;
                s.next += 1;
                Poll::Ready(Some(Task { id, sh: sh.clone() }))
            }
        })
    }

    fn plus(xs: &[usize]) -> String {
        if xs.is_empty() { "-".into() } else { xs.iter().map(|x| x.to_string()).collect::<Vec<_>>().join("+") }
    }

    fn poll_join<S: Stream<Item = Result<usize, usize>>>(
        joined: &mut Pin<Box<S>>,
        sh: &Arc<Mutex<Shared>>,
        len: impl Fn(&Pin<Box<S>>) -> usize,
    ) -> String {
        {
            let mut s = sh.lock().unwrap();
            s.polled.clear();
            s.pulled = 0;
        }
        let mut cx = Context::from_waker(futures::task::noop_waker_ref());
        let r = joined.as_mut().poll_next(&mut cx);
        let s = sh.lock().unwrap();
        let head = match r {
            Poll::Ready(Some(Ok(i))) | Poll::Ready(Some(Err(i))) => format!("I{i}"),
            Poll::Ready(None) => "N".to_string(),
            Poll::Pending => "P".to_string(),
        };
        format!("{head}/{}/{}@{}", plus(&s.polled), s.pulled, len(joined))
    }

    struct Ctx(NonZeroUsize);
    impl SeqJoin for Ctx {
        fn active_work(&self) -> NonZeroUsize {
            self.0
        }
    }

    pub fn exec(req: &str) -> String {
        let t: Vec<&str> = req.split(' ').collect();
        let sh = Arc::new(Mutex::new(Shared::default()));
        let mut out: Vec<String> = vec![];
        match t[0] {
            "c15.join" => {
                let w: usize = t[1].parse().unwrap();
                let n: usize = t[2].parse().unwrap();
                let mut joined = Box::pin(seq_join(NonZeroUsize::new(w).unwrap(), source(n, sh.clone())));
                out.push(format!("cap={}", joined.as_ref().get_ref().ipa_verif_state().1));
                for op in &t[3..] {
                    let (c, arg) = op.split_at(1);
                    match c {
                        "s" => {
                            sh.lock().unwrap().budget += arg.parse::<usize>().unwrap();
                            out.push("s".into());
                        }
                        "r" => {
                            sh.lock().unwrap().ready.push(arg.parse().unwrap());
                            out.push("r".into());
                        }
                        "p" => out.push(poll_join(&mut joined, &sh, |j| j.as_ref().get_ref().ipa_verif_state().0)),
                        _ => panic!("harness: unknown op {op}"),
                    }
                }
            }
            "c15.dep" => {
                let w: usize = t[1].parse().unwrap();
                let n: usize = t[2].parse().unwrap();
                let d: usize = t[3].parse().unwrap();
                let polls: usize = t[4].parse().unwrap();
                {
                    let mut s = sh.lock().unwrap();
                    s.dep = Some((n, d));
                    s.budget = usize::MAX;
                }
                let mut joined = Box::pin(seq_join(NonZeroUsize::new(w).unwrap(), source(n, sh.clone())));
                for _ in 0..polls {
                    sh.lock().unwrap().budget = usize::MAX;
                    out.push(poll_join(&mut joined, &sh, |j| j.as_ref().get_ref().ipa_verif_state().0));
                }
            }
            "c15.tryp" => {
                use futures::TryStreamExt;
                let w: usize = t[1].parse().unwrap();
                let n: usize = t[2].parse().unwrap();
                sh.lock().unwrap().errs = parse_nat_list(t[3]);
                let mut fut: Option<Pin<Box<dyn Future<Output = Result<Vec<usize>, usize>>>>> = Some(Box::pin(
                    seq_join(NonZeroUsize::new(w).unwrap(), source(n, sh.clone())).try_collect::<Vec<usize>>(),
                ));
                for op in &t[4..] {
                    let (c, arg) = op.split_at(1);
                    match c {
                        "s" => {
                            sh.lock().unwrap().budget += arg.parse::<usize>().unwrap();
                            out.push("s".into());
                        }
                        "r" => {
                            sh.lock().unwrap().ready.push(arg.parse().unwrap());
                            out.push("r".into());
                        }
                        "p" => match fut.as_mut() {
                            None => out.push("gone".into()),
                            Some(f) => {
                                sh.lock().unwrap().polled.clear();
                                let mut cx = Context::from_waker(futures::task::noop_waker_ref());
                                let r = f.as_mut().poll(&mut cx);
                                let polled = plus(&sh.lock().unwrap().polled);
                                match r {
                                    Poll::Pending => out.push(format!("P/{polled}")),
                                    Poll::Ready(Ok(v)) => {
                                        out.push(format!("OK:{}/{polled}", plus(&v)));
                                        fut = None;
                                    }
                                    Poll::Ready(Err(e)) => {
                                        out.push(format!("ERR:{e}/{polled}"));
                                        fut = None;
                                    }
                                }
                            }
                        },
                        _ => panic!("harness: unknown op {op}"),
                    }
                }
            }
            "c15.hint" => {
                let w: usize = t[3].parse().unwrap();
                let n: usize = t[4].parse().unwrap();
                let d: usize = t[5].parse().unwrap();
                let polls: usize = t[6].parse().unwrap();
                sh.lock().unwrap().dep = Some((n, d));
                let mk = {
                    let sh = sh.clone();
                    move |id: usize| Task { id, sh: sh.clone() }
                };
                let tasks: Vec<Task> = (0..n).map(&mk).collect();
                let it: Box<dyn Iterator<Item = Task> + Send> = match t[2] {
                    "exact" => Box::new(tasks.into_iter()),
                    "filter" => Box::new(tasks.into_iter().filter(|_| true)),
                    "takewhile" => Box::new(tasks.into_iter().take_while(|_| true)),
                    "flatmap" => Box::new((0..n).flat_map(move |i| std::iter::once(mk(i)))),
                    shape if shape.starts_with("chain") => {
                        let k: usize = shape[5..].parse::<usize>().unwrap().min(n);
                        let mut head = tasks;
                        let tail = head.split_off(k);
                        Box::new(head.into_iter().chain(tail.into_iter().filter(|_| true)))
                    }
                    shape => panic!("harness: unknown iterator shape {shape}"),
                };
                out.push(format!("lo={}", it.size_hint().0));
                let active = NonZeroUsize::new(w).unwrap();
                let mut fut: Option<Pin<Box<dyn Future<Output = Result<Vec<usize>, usize>>>>> = Some(match t[1] {
                    "try" => Box::pin(seq_try_join_all(active, it)),
                    "ctx" => Box::pin(Ctx(active).try_join(it)),
                    "par" => Box::pin(Ctx(active).parallel_join(it)),
                    api => panic!("harness: unknown api {api}"),
                });
                for _ in 0..polls {
                    match fut.as_mut() {
                        None => out.push("gone".into()),
                        Some(f) => {
                            sh.lock().unwrap().polled.clear();
                            let mut cx = Context::from_waker(futures::task::noop_waker_ref());
                            let r = f.as_mut().poll(&mut cx);
                            let polled = plus(&sh.lock().unwrap().polled);
                            match r {
                                Poll::Pending => out.push(format!("P/{polled}")),
                                Poll::Ready(Ok(v)) => {
                                    out.push(format!("OK:{}/{polled}", plus(&v)));
                                    fut = None;
                                }
                                Poll::Ready(Err(e)) => {
                                    out.push(format!("ERR:{e}/{polled}"));
                                    fut = None;
                                }
                            }
                        }
                    }
                }
            }
            "c15.try" | "c15.par" => {
                let is_try = t[0] == "c15.try";
                let (n, errs, ops): (usize, Vec<usize>, &[&str]) = if is_try {
                    (t[2].parse().unwrap(), parse_nat_list(t[3]), &t[4..])
                } else {
                    (t[1].parse().unwrap(), parse_nat_list(t[2]), &t[3..])
                };
                sh.lock().unwrap().errs = errs;
                let tasks: Vec<Task> = (0..n).map(|id| Task { id, sh: sh.clone() }).collect();
                let mut fut: Option<Pin<Box<dyn Future<Output = Result<Vec<usize>, usize>>>>> = Some(if is_try {
                    let w: usize = t[1].parse().unwrap();
                    Box::pin(seq_try_join_all(NonZeroUsize::new(w).unwrap(), tasks))
                } else {
                    Box::pin(Ctx(NonZeroUsize::new(1).unwrap()).parallel_join(tasks))
                });
                for op in ops {
                    let (c, arg) = op.split_at(1);
                    match c {
                        "r" => {
                            sh.lock().unwrap().ready.push(arg.parse().unwrap());
                            out.push("r".into());
                        }
                        "p" => match fut.as_mut() {
                            None => out.push("gone".into()),
                            Some(f) => {
                                sh.lock().unwrap().polled.clear();
                                let mut cx = Context::from_waker(futures::task::noop_waker_ref());
                                let r = f.as_mut().poll(&mut cx);
                                let polled = plus(&sh.lock().unwrap().polled);
                                match r {
                                    Poll::Pending => out.push(format!("P/{polled}")),
                                    Poll::Ready(Ok(v)) => {
                                        out.push(format!("OK:{}/{polled}", plus(&v)));
                                        fut = None;
                                    }
                                    Poll::Ready(Err(e)) => {
                                        out.push(format!("ERR:{e}/{polled}"));
                                        fut = None;
                                    }
                                }
                            }
                        },
                        _ => panic!("harness: unknown op {op}"),
                    }
                }
            }
            _ => panic!("harness: unknown request {req}"),
        }
        out.join(" ")
    }

    fn permutations(n: usize) -> Vec<Vec<usize>> {
        fn go(k: usize, cur: &mut Vec<usize>, out: &mut Vec<Vec<usize>>) {
            if k == cur.len() {
                out.push(cur.clone());
                return;
            }
            for i in k..cur.len() {
                cur.swap(k, i);
                go(k + 1, cur, out);
                cur.swap(k, i);
            }
        }
        let mut out = vec![];
        go(0, &mut (0..n).collect(), &mut out);
        out
    }

    pub fn generate(rng: &mut Rng, thorough: bool) -> Vec<String> {
        let mut out: Vec<String> = vec![];
        // ---- boundaries
        for s in [
            "c15.join 1 0 p p", "c15.join 3 0 s5 p", "c15.join 1 1 p s1 p r0 p p", "c15.join 1 1 r0 s1 p p p",
            "c15.join 3 2 s9 p r1 p r0 p p p", "c15.join 2 5 s9 p r0 r1 r2 r3 r4 p p p p p p",
            "c15.join 8 3 s1 p s1 p s1 p r2 p r0 p p r1 p p", "c15.join 2 4 s1 r0 p p s1 p r1 p s9 p r3 p r2 p p p",
            "c15.try 1 0 - p p", "c15.try 3 1 - p r0 p p", "c15.try 3 2 0 r0 p", "c15.try 3 2 1 r1 p r0 p", "c15.try 2 4 2 r0 r1 r3 p r2 p",
            "c15.par 0 - p", "c15.par 2 - p r1 p r0 p p", "c15.par 3 1 r0 p r1 p", "c15.par 3 0,2 r2 p", "c15.par 3 0,2 r2 r0 p",
            "c15.dep 1 4 0 10", "c15.dep 3 6 2 14", "c15.dep 3 6 3 14", "c15.dep 1 3 1 8",
        ] {
            out.push(s.to_string());
        }
        let nmax = if thorough { 7 } else { 6 };
        // ---- all completion orders, windows 1..8, source always ready / trickling
        for n in 1..=nmax {
            let perms = permutations(n);
            for w in 1..=8usize {
                if n >= 6 && !(w <= 3 || w == n || w == 8) && !thorough {
                    continue;
                }
                for (pi, order) in perms.iter().enumerate() {
                    // source mode: 0 = always ready, 1 = one item per poll, 2 = random trickle
                    let modes: &[usize] = if n <= 4 { &[0, 1, 2] } else if pi % 2 == 0 { &[0] } else { &[1 + pi % 2] };
                    for &mode in modes {
                        let mut ops: Vec<String> = vec![];
                        if mode == 0 {
                            ops.push(format!("s{}", n + 1));
                        }
                        ops.push("p".into());
                        for r in order {
                            match mode {
                                1 => ops.push("s1".into()),
                                2 => {
                                    if rng.below(2) == 0 {
                                        ops.push(format!("s{}", 1 + rng.below(3)));
                                    }
                                }
                                _ => {}
                            }
                            ops.push(format!("r{r}"));
                            ops.push("p".into());
                            // after a completion several items may be ready: poll until pending
                            for _ in 0..rng.below(3) {
                                ops.push("p".into());
                            }
                        }
                        ops.push(format!("s{}", n + 1));
                        for _ in 0..n + 2 {
                            ops.push("p".into());
                        }
                        out.push(format!("c15.join {w} {n} {}", ops.join(" ")));
                    }
                    // fallible variant: error set chosen by the permutation index
                    if n <= 5 || pi % 3 == 0 {
                        let mask = if pi % 4 == 0 { 0 } else { rng.usize_below(1 << n) };
                        let errs: Vec<usize> = (0..n).filter(|i| mask >> i & 1 == 1).collect();
                        let mut ops: Vec<String> = vec!["p".into()];
                        for r in order {
                            ops.push(format!("r{r}"));
                            ops.push("p".into());
                        }
                        ops.push("p".into());
                        out.push(format!("c15.try {w} {n} {} {}", nat_list(&errs), ops.join(" ")));
                        if w == 1 {
                            out.push(format!("c15.par {n} {} {}", nat_list(&errs), ops.join(" ")));
                        }
                    }
                }
            }
        }
        // ---- every single error position
        for n in 1..=6usize {
            for e in 0..n {
                for w in [1usize, 2, 3, 8] {
                    let mut order: Vec<usize> = (0..n).collect();
                    rng.shuffle(&mut order);
                    let mut ops: Vec<String> = vec!["p".into()];
                    for r in &order {
                        ops.push(format!("r{r}"));
                        ops.push("p".into());
                    }
                    out.push(format!("c15.try {w} {n} {e} {}", ops.join(" ")));
                    out.push(format!("c15.par {n} {e} {}", ops.join(" ")));
                }
            }
        }
        // ---- dependencies reaching d tasks ahead: completes iff d < window
        for w in 1..=8usize {
            for d in 0..=8usize {
                for n in [1usize, 2, 5, 9, 17] {
                    out.push(format!("c15.dep {w} {n} {d} {}", 2 * n + 2));
                }
            }
        }
        // ---- the source itself is Pending at every position k (it has yielded k items, then stalls
        //      until everything in flight has been resolved and drained, then resumes)
        for n in 1..=5usize {
            for w in 1..=4usize {
                for k in 0..=n {
                    for desc in [false, true] {
                        let mut ops: Vec<String> = vec![format!("s{k}"), "p".into()];
                        let mut first: Vec<usize> = (0..k).collect();
                        if desc {
                            first.reverse();
                        }
                        for r in &first {
                            ops.push(format!("r{r}"));
                            ops.push("p".into());
                        }
                        ops.push("p".into()); // stalled: nothing in flight, source Pending
                        ops.push("p".into());
                        ops.push(format!("s{}", n + 1));
                        ops.push("p".into());
                        let mut rest: Vec<usize> = (k..n).collect();
                        if desc {
                            rest.reverse();
                        }
                        for r in &rest {
                            ops.push(format!("r{r}"));
                            ops.push("p".into());
                            ops.push("p".into());
                        }
                        ops.push("p".into());
                        out.push(format!("c15.join {w} {n} {}", ops.join(" ")));
                    }
                }
            }
        }
        // ---- fallible join over a pending source: error at the first / last position, at and just
        //      after the window edge, none; the source stalls before / at / after the error
        for n in 1..=6usize {
            for w in [1usize, 2, 3, 8] {
                let mut epos: Vec<Option<usize>> = vec![None, Some(0), Some(n - 1)];
                for e in [w - 1, w, w + 1] {
                    if e < n {
                        epos.push(Some(e));
                    }
                }
                epos.dedup();
                for e in epos {
                    let stalls: Vec<usize> = match e {
                        Some(e) => vec![0, e, e + 1, n],
                        None => vec![0, n / 2, n],
                    };
                    for k in stalls {
                        let mut order: Vec<usize> = (0..n).collect();
                        if (n + w + k) % 2 == 1 {
                            order.reverse();
                        }
                        let mut ops: Vec<String> = vec![format!("s{k}"), "p".into()];
                        for (j, r) in order.iter().enumerate() {
                            ops.push(format!("r{r}"));
                            ops.push("p".into());
                            if j == n / 2 {
                                ops.push(format!("s{}", n + 1));
                                ops.push("p".into());
                            }
                        }
                        ops.push("p".into());
                        let errs = e.map_or("-".to_string(), |e| e.to_string());
                        out.push(format!("c15.tryp {w} {n} {errs} {}", ops.join(" ")));
                    }
                }
            }
        }
        for _ in 0..(if thorough { 2000 } else { 200 }) {
            let n = 1 + rng.usize_below(8);
            let w = 1 + rng.usize_below(8);
            let mask = if rng.below(3) == 0 { 0 } else { rng.usize_below(1 << n) };
            let errs: Vec<usize> = (0..n).filter(|i| mask >> i & 1 == 1).collect();
            let mut order: Vec<usize> = (0..n).collect();
            rng.shuffle(&mut order);
            let mut ops: Vec<String> = vec![];
            for r in &order {
                if rng.below(2) == 0 {
                    ops.push(format!("s{}", rng.below(4)));
                }
                if rng.below(3) == 0 {
                    ops.push("p".into());
                }
                ops.push(format!("r{r}"));
                ops.push("p".into());
            }
            ops.push(format!("s{}", n + 1));
            ops.push("p".into());
            ops.push("p".into());
            out.push(format!("c15.tryp {w} {n} {} {}", nat_list(&errs), ops.join(" ")));
        }
        // ---- random longer schedules
        for _ in 0..(if thorough { 3000 } else { 300 }) {
            let n = 1 + rng.usize_below(20);
            let w = 1 + rng.usize_below(8);
            let mut order: Vec<usize> = (0..n).collect();
            rng.shuffle(&mut order);
            let mut ops: Vec<String> = vec![];
            for r in &order {
                match rng.below(4) {
                    0 => ops.push(format!("s{}", rng.below(4))),
                    1 => ops.push("p".into()),
                    _ => {}
                }
                ops.push(format!("r{r}"));
                for _ in 0..rng.below(3) {
                    ops.push("p".into());
                }
            }
            ops.push(format!("s{}", n + 1));
            for _ in 0..n + 2 {
                ops.push("p".into());
            }
            out.push(format!("c15.join {w} {n} {}", ops.join(" ")));
        }
        // ---- iterators that under-report their length (size_hint lower bound 0 / 1 / < active):
        // the window must come from `active` alone, so dependencies up to active-1 positions ahead
        // never block seq_try_join_all / SeqJoin::try_join; parallel_join has no window at all
        for s in [
            "c15.hint try filter 2 2 1 6", "c15.hint ctx filter 3 4 2 10", "c15.hint try chain1 3 5 2 12",
            "c15.hint try flatmap 4 9 3 20", "c15.hint ctx takewhile 2 3 1 8", "c15.hint par filter 1 4 3 2",
            "c15.hint try filter 1 3 0 8", "c15.hint try filter 2 0 1 2", "c15.hint try chain2 4 2 3 6",
        ] {
            out.push(s.to_string());
        }
        for w in [1usize, 2, 3, 4, 5, 8, 16] {
            let mut ns = vec![0usize, 1, 2, w - 1, w, w + 1, 2 * w + 1, 3 * w];
            ns.sort_unstable();
            ns.dedup();
            for n in ns {
                let mut ds: Vec<usize> = (0..=w.min(5)).collect();
                if w > 5 {
                    ds.extend([w - 2, w - 1, w]);
                }
                for d in ds {
                    let mut shapes: Vec<String> = ["exact", "filter", "flatmap", "takewhile", "chain1"].iter().map(|s| s.to_string()).collect();
                    if w > 2 {
                        shapes.push(format!("chain{}", w - 1));
                    }
                    for shape in shapes {
                        for api in ["try", "ctx"] {
                            if api == "ctx" && shape == "exact" {
                                continue;
                            }
                            out.push(format!("c15.hint {api} {shape} {w} {n} {d} {}", 2 * n + 3));
                        }
                    }
                    // (try_join_all switches to FuturesUnordered above 30 futures, which re-polls only
                    // futures that woke it; the scripted tasks never do)
                    if d == w.min(5) && n <= 30 {
                        out.push(format!("c15.hint par filter {w} {n} {d} 3"));
                        out.push(format!("c15.hint par chain1 {w} {n} {} 3", n.saturating_sub(1)));
                    }
                }
            }
        }
        out
    }

    #[test]
    fn verif_c15_local() {
        run_suite("c15_local", generate, exec);
    }
}

// ------------------------------------------------------------------------------------------
// C15 — the MULTI-THREADED implementation (seq_join/multi_thread.rs), built only with
// `--features "ipa-verif multi-threading"` (props/C15.json `extra_builds`, thorough tier).
// Futures are spawned on tokio worker threads by the implementation, so per-poll internals are not
// observable; compared are the OUTPUTS and their ORDER:
//
//   c15mt.join <w> <n> <errs> <perm>   seq_try_join_all; futures are released (oneshot) in the order <perm>
//   c15mt.stream <w> <n> <perm>        seq_join(..).collect(): items in the order they are emitted
//   c15mt.par <n> <errs> <perm>        SeqJoin::parallel_join
//   c15mt.dep <w> <n> <d>              task k completes once tasks k+1..k+d have started (d >= w: hang)
//   response: OK:<i+j+…> | ERR:<e> | timeout
// ------------------------------------------------------------------------------------------
#[cfg(feature = "multi-threading")]
pub mod c15_mt {
    use std::{
        num::NonZeroUsize,
        sync::{
            Arc,
            atomic::{AtomicBool, Ordering},
        },
    };

    use futures::{StreamExt, stream};
    use tokio::sync::oneshot;

    use super::super::{SeqJoin, seq_join, seq_try_join_all};
    use crate::ipa_verif::proto::*;

    struct Ctx(NonZeroUsize);
    impl SeqJoin for Ctx {
        fn active_work(&self) -> NonZeroUsize {
            self.0
        }
    }

    fn plus(xs: &[usize]) -> String {
        if xs.is_empty() { "-".into() } else { xs.iter().map(ToString::to_string).collect::<Vec<_>>().join("+") }
    }

    fn fmt(r: Result<Vec<usize>, usize>) -> String {
        match r {
            Ok(v) => format!("OK:{}", plus(&v)),
            Err(e) => format!("ERR:{e}"),
        }
    }

    pub fn exec(req: &str) -> String {
        let t: Vec<&str> = req.split(' ').collect();
        let r = match t[0] {
            "c15mt.join" | "c15mt.stream" | "c15mt.par" => {
                let kind = t[0].to_string();
                let (w, n, errs, perm): (usize, usize, Vec<usize>, Vec<usize>) = match t[0] {
                    "c15mt.join" => (t[1].parse().unwrap(), t[2].parse().unwrap(), parse_nat_list(t[3]), parse_nat_list(t[4])),
                    "c15mt.stream" => (t[1].parse().unwrap(), t[2].parse().unwrap(), vec![], parse_nat_list(t[3])),
                    _ => (1, t[1].parse().unwrap(), parse_nat_list(t[2]), parse_nat_list(t[3])),
                };
                block_on_timeout(20, async move {
                    let mut txs = vec![];
                    let mut tasks = vec![];
                    for i in 0..n {
                        let (tx, rx) = oneshot::channel::<()>();
                        txs.push(Some(tx));
                        let is_err = errs.contains(&i);
                        tasks.push(async move {
                            rx.await.unwrap();
                            if is_err { Err::<usize, usize>(i) } else { Ok(i) }
                        });
                    }
                    let controller = tokio::spawn(async move {
                        for (k, i) in perm.into_iter().enumerate() {
                            if k % 2 == 0 {
                                tokio::task::yield_now().await;
                            }
                            if let Some(tx) = txs[i].take() {
                                let _ = tx.send(());
                            }
                        }
                    });
                    let active = NonZeroUsize::new(w).unwrap();
                    let out = match kind.as_str() {
                        "c15mt.join" => fmt(seq_try_join_all(active, tasks).await),
                        "c15mt.stream" => {
                            let items: Vec<Result<usize, usize>> = seq_join(active, stream::iter(tasks)).collect().await;
                            fmt(items.into_iter().collect::<Result<Vec<usize>, usize>>())
                        }
                        _ => fmt(Ctx(active).parallel_join(tasks).await),
                    };
                    let _ = controller.await;
                    out
                })
            }
            "c15mt.dep" => {
                let (w, n, d): (usize, usize, usize) = (t[1].parse().unwrap(), t[2].parse().unwrap(), t[3].parse().unwrap());
                block_on_timeout(2, async move {
                    let started: Arc<Vec<AtomicBool>> = Arc::new((0..n).map(|_| AtomicBool::new(false)).collect());
                    let tasks: Vec<_> = (0..n)
                        .map(|k| {
                            let started = Arc::clone(&started);
                            async move {
                                started[k].store(true, Ordering::SeqCst);
                                while !(1..=d).all(|j| k + j >= n || started[k + j].load(Ordering::SeqCst)) {
                                    tokio::task::yield_now().await;
                                }
                                Ok::<usize, usize>(k)
                            }
                        })
                        .collect();
                    fmt(seq_try_join_all(NonZeroUsize::new(w).unwrap(), tasks).await)
                })
            }
            _ => panic!("harness: unknown request {req}"),
        };
        r.unwrap_or_else(|e| e)
    }

    fn permutations(n: usize) -> Vec<Vec<usize>> {
        fn go(k: usize, cur: &mut Vec<usize>, out: &mut Vec<Vec<usize>>) {
            if k == cur.len() {
                out.push(cur.clone());
                return;
            }
            for i in k..cur.len() {
                cur.swap(k, i);
                go(k + 1, cur, out);
                cur.swap(k, i);
            }
        }
        let mut out = vec![];
        go(0, &mut (0..n).collect(), &mut out);
        out
    }

    pub fn generate(rng: &mut Rng, _thorough: bool) -> Vec<String> {
        let mut out = vec![];
        for s in ["c15mt.join 1 0 - -", "c15mt.stream 3 0 -", "c15mt.par 0 - -", "c15mt.join 1 1 0 0", "c15mt.dep 1 4 0"] {
            out.push(s.to_string());
        }
        // all completion orders for n <= 5, windows 1..8 (thinned for n = 5), error sets by index
        for n in 1..=5usize {
            for (pi, perm) in permutations(n).iter().enumerate() {
                for w in 1..=8usize {
                    if n == 5 && (pi + w) % 4 != 0 {
                        continue;
                    }
                    out.push(format!("c15mt.stream {w} {n} {}", nat_list(perm)));
                    let mask = if (pi + w) % 3 == 0 { 0 } else { rng.usize_below(1 << n) };
                    let errs: Vec<usize> = (0..n).filter(|i| mask >> i & 1 == 1).collect();
                    out.push(format!("c15mt.join {w} {n} {} {}", nat_list(&errs), nat_list(perm)));
                    if w == 1 {
                        out.push(format!("c15mt.par {n} {} {}", nat_list(&errs), nat_list(perm)));
                    }
                }
            }
        }
        // every single error position (first / last / beyond the window)
        for n in 1..=6usize {
            for e in 0..n {
                for w in [1usize, 2, 3, 8] {
                    let mut perm: Vec<usize> = (0..n).collect();
                    rng.shuffle(&mut perm);
                    out.push(format!("c15mt.join {w} {n} {e} {}", nat_list(&perm)));
                }
            }
        }
        // dependencies reaching d tasks ahead: completes iff d < window; two hanging cases only (2 s each)
        for w in 1..=6usize {
            for d in 0..w {
                for n in [1usize, 2, 5, 9, 40] {
                    out.push(format!("c15mt.dep {w} {n} {d}"));
                }
            }
        }
        out.push("c15mt.dep 2 6 2".to_string());
        out.push("c15mt.dep 3 9 5".to_string());
        // longer random ones
        for _ in 0..200 {
            let n = 1 + rng.usize_below(40);
            let w = 1 + rng.usize_below(8);
            let mut perm: Vec<usize> = (0..n).collect();
            rng.shuffle(&mut perm);
            let errs: Vec<usize> = if rng.bool() { vec![] } else { vec![rng.usize_below(n)] };
            out.push(format!("c15mt.join {w} {n} {} {}", nat_list(&errs), nat_list(&perm)));
        }
        out
    }

    #[test]
    fn verif_c15mt_join() {
        run_suite("c15mt_join", generate, exec);
    }
}
