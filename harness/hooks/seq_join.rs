// Suites that need access to items private to this module (feature ipa-verif, test builds only).

// ------------------------------------------------------------------------------------------
// C15 — sequential join (agent a4).
//
//   c15.join <w> <n> <op>…          seq_join over a source with a budget; ops: s<k> (source may yield k
//                                   more items), r<i> (future i becomes ready), p (one poll_next)
//   c15.dep <w> <n> <d> <polls>     task k is ready once tasks k+1..k+d have been polled; `polls` polls
//   c15.try <w> <n> <errs> <op>…    seq_try_join_all; ops r<i>, p (one poll of the TryCollect future)
//   c15.par <n> <errs> <op>…        SeqJoin::parallel_join; ops r<i>, p
//   c15.tryp <w> <n> <errs> <op>…   seq_join(w, source).try_collect() over a source that may be Pending; ops s<k>, r<i>, p
//   c15.hint <try|ctx|par> <shape> <w> <n> <d> <polls>   seq_try_join_all / SeqJoin::try_join / parallel_join over an
//                                   iterator whose size_hint lower bound is below the item count (shapes exact, filter,
//                                   flatmap, takewhile, chain<k>); dependencies as in c15.dep; `polls` polls of the future
// Futures are driven by hand with a no-op waker; every future logs when it is polled.
#[cfg(not(feature = "multi-threading"))]
pub mod c15_local {
    use std::{
        future::Future,
        num::NonZeroUsize,
        pin::Pin,
        sync::{Arc, Mutex},
        task::{Context, Poll},
    };

    use futures::{Stream, stream};

    use super::super::{SeqJoin, seq_join, seq_try_join_all};
    use crate::ipa_verif::proto::*;

    #[derive(Default)]
    struct Shared {
        ready: Vec<usize>,
        errs: Vec<usize>,
        polled: Vec<usize>,
        started: Vec<usize>,
        budget: usize,
        next: usize,
        pulled: usize,
        /// `Some((n, d))`: task k is ready once tasks k+1..=k+d (below n) have been polled
        dep: Option<(usize, usize)>,
    }

    struct Task {
        id: usize,
        sh: Arc<Mutex<Shared>>,
    }

    impl Future for Task {
        type Output = Result<usize, usize>;
        fn poll(self: Pin<&mut Self>, _cx: &mut Context<'_>) -> Poll<Self::Output> {
            let mut sh = self.sh.lock().unwrap();
            sh.polled.push(self.id);
            if !sh.started.contains(&self.id) {
                let id = self.id;
                sh.started.push(id);
            }
            let ready = match sh.dep {
                Some((n, d)) => (1..=d).all(|j| self.id + j >= n || sh.started.contains(&(self.id + j))),
                None => sh.ready.contains(&self.id),
            };
            if ready {
                Poll::Ready(if sh.errs.contains(&self.id) { Err(self.id) } else { Ok(self.id) })
            } else {
                Poll::Pending
            }
        }
    }

    fn source(n: usize, sh: Arc<Mutex<Shared>>) -> impl Stream<Item = Task> + Send {
        stream::poll_fn(move |_cx| {
            let mut s = sh.lock().unwrap();
            if s.next >= n {
                Poll::Ready(None)
            } else if s.budget == 0 {
                Poll::Pending
            } else {
                s.budget -= 1;
                s.pulled += 1;
                let id = s.next;
                s.next += 1;
                Poll::Ready(Some(Task { id, sh: sh.clone() }))
            }
        })
    }

    fn plus(xs: &[usize]) -> String {
        if xs.is_empty() { "-".into() } else { xs.iter().map(|x| x.to_string()).collect::<Vec<_>>().join("+") }
    }

    fn poll_join<S: Stream<Item = Result<usize, usize>>>(
        joined: &mut Pin<Box<S>>,
        sh: &Arc<Mutex<Shared>>,
        len: impl Fn(&Pin<Box<S>>) -> usize,
    ) -> String {
        {
            let mut s = sh.lock().unwrap();
            s.polled.clear();
            s.pulled = 0;
        }
        let mut cx = Context::from_waker(futures::task::noop_waker_ref());
        let r = joined.as_mut().poll_next(&mut cx);
        let s = sh.lock().unwrap();
        let head = match r {
            Poll::Ready(Some(Ok(i))) | Poll::Ready(Some(Err(i))) => format!("I{i}"),
            Poll::Ready(None) => "N".to_string(),
            Poll::Pending => "P".to_string(),
        };
        format!("{head}/{}/{}@{}", plus(&s.polled), s.pulled, len(joined))
    }

    struct Ctx(NonZeroUsize);
    impl SeqJoin for Ctx {
        fn active_work(&self) -> NonZeroUsize {
            self.0
        }
    }

    pub fn exec(req: &str) -> String {
        let t: Vec<&str> = req.split(' ').collect();
        let sh = Arc::new(Mutex::new(Shared::default()));
        let mut out: Vec<String> = vec![];
        match t[0] {
            "c15.join" => {
                let w: usize = t[1].parse().unwrap();
                let n: usize = t[2].parse().unwrap();
                let mut joined = Box::pin(seq_join(NonZeroUsize::new(w).unwrap(), source(n, sh.clone())));
                out.push(format!("cap={}", joined.as_ref().get_ref().ipa_verif_state().1));
                for op in &t[3..] {
                    let (c, arg) = op.split_at(1);
                    match c {
                        "s" => {
                            sh.lock().unwrap().budget += arg.parse::<usize>().unwrap();
                            out.push("s".into());
                        }
                        "r" => {
                            sh.lock().unwrap().ready.push(arg.parse().unwrap());
                            out.push("r".into());
                        }
                        "p" => out.push(poll_join(&mut joined, &sh, |j| j.as_ref().get_ref().ipa_verif_state().0)),
                        _ => panic!("harness: unknown op {op}"),
                    }
                }
            }
            "c15.dep" => {
                let w: usize = t[1].parse().unwrap();
                let n: usize = t[2].parse().unwrap();
                let d: usize = t[3].parse().unwrap();
                let polls: usize = t[4].parse().unwrap();
                {
                    let mut s = sh.lock().unwrap();
                    s.dep = Some((n, d));
                    s.budget = usize::MAX;
                }
                let mut joined = Box::pin(seq_join(NonZeroUsize::new(w).unwrap(), source(n, sh.clone())));
                for _ in 0..polls {
                    sh.lock().unwrap().budget = usize::MAX;
                    out.push(poll_join(&mut joined, &sh, |j| j.as_ref().get_ref().ipa_verif_state().0));
                }
            }
            "c15.tryp" => {
                use futures::TryStreamExt;
                let w: usize = t[1].parse().unwrap();
                let n: usize = t[2].parse().unwrap();
                sh.lock().unwrap().errs = parse_nat_list(t[3]);
                let mut fut: Option<Pin<Box<dyn Future<Output = Result<Vec<usize>, usize>>>>> = Some(Box::pin(
                    seq_join(NonZeroUsize::new(w).unwrap(), source(n, sh.clone())).try_collect::<Vec<usize>>(),
                ));
                for op in &t[4..] {
                    let (c, arg) = op.split_at(1);
                    match c {
                        "s" => {
                            sh.lock().unwrap().budget += arg.parse::<usize>().unwrap();
                            out.push("s".into());
                        }
                        "r" => {
                            sh.lock().unwrap().ready.push(arg.parse().unwrap());
                            out.push("r".into());
                        }
                        "p" => match fut.as_mut() {
                            None => out.push("gone".into()),
                            Some(f) => {
                                sh.lock().unwrap().polled.clear();
                                let mut cx = Context::from_waker(futures::task::noop_waker_ref());
                                let r = f.as_mut().poll(&mut cx);
                                let polled = plus(&sh.lock().unwrap().polled);
                                match r {
                                    Poll::Pending => out.push(format!("P/{polled}")),
                                    Poll::Ready(Ok(v)) => {
                                        out.push(format!("OK:{}/{polled}", plus(&v)));
                                        fut = None;
                                    }
                                    Poll::Ready(Err(e)) => {
                                        out.push(format!("ERR:{e}/{polled}"));
                                        fut = None;
                                    }
                                }
                            }
                        },
                        _ => panic!("harness: unknown op {op}"),
                    }
                }
            }
            "c15.hint" => {
                let w: usize = t[3].parse().unwrap();
                let n: usize = t[4].parse().unwrap();
                let d: usize = t[5].parse().unwrap();
                let polls: usize = t[6].parse().unwrap();
                sh.lock().unwrap().dep = Some((n, d));
                let mk = {
                    let sh = sh.clone();
                    move |id: usize| Task { id, sh: sh.clone() }
                };
                let tasks: Vec<Task> = (0..n).map(&mk).collect();
                let it: Box<dyn Iterator<Item = Task> + Send> = match t[2] {
                    "exact" => Box::new(tasks.into_iter()),
                    "filter" => Box::new(tasks.into_iter().filter(|_| true)),
                    "takewhile" => Box::new(tasks.into_iter().take_while(|_| true)),
                    "flatmap" => Box::new((0..n).flat_map(move |i| std::iter::once(mk(i)))),
                    shape if shape.starts_with("chain") => {
                        let k: usize = shape[5..].parse::<usize>().unwrap().min(n);
                        let mut head = tasks;
                        let tail = head.split_off(k);
                        Box::new(head.into_iter().chain(tail.into_iter().filter(|_| true)))
                    }
                    shape => panic!("harness: unknown iterator shape {shape}"),
                };
                out.push(format!("lo={}", it.size_hint().0));
                let active = NonZeroUsize::new(w).unwrap();
                let mut fut: Option<Pin<Box<dyn Future<Output = Result<Vec<usize>, usize>>>>> = Some(match t[1] {
                    "try" => Box::pin(seq_try_join_all(active, it)),
                    "ctx" => Box::pin(Ctx(active).try_join(it)),
                    "par" => Box::pin(Ctx(active).parallel_join(it)),
                    api => panic!("harness: unknown api {api}"),
                });
                for _ in 0..polls {
                    match fut.as_mut() {
                        None => out.push("gone".into()),
                        Some(f) => {
                            sh.lock().unwrap().polled.clear();
                            let mut cx = Context::from_waker(futures::task::noop_waker_ref());
                            let r = f.as_mut().poll(&mut cx);
                            let polled = plus(&sh.lock().unwrap().polled);
                            match r {
                                Poll::Pending => out.push(format!("P/{polled}")),
                                Poll::Ready(Ok(v)) => {
                                    out.push(format!("OK:{}/{polled}", plus(&v)));
                                    fut = None;
                                }
                                Poll::Ready(Err(e)) => {
                                    out.push(format!("ERR:{e}/{polled}"));
                                    fut = None;
                                }
                            }
                        }
                    }
                }
            }
            "c15.try" | "c15.par" => {
                let is_try = t[0] == "c15.try";
                let (n, errs, ops): (usize, Vec<usize>, &[&str]) = if is_try {
                    (t[2].parse().unwrap(), parse_nat_list(t[3]), &t[4..])
                } else {
                    (t[1].parse().unwrap(), parse_nat_list(t[2]), &t[3..])
                };
                sh.lock().unwrap().errs = errs;
                let tasks: Vec<Task> = (0..n).map(|id| Task { id, sh: sh.clone() }).collect();
                let mut fut: Option<Pin<Box<dyn Future<Output = Result<Vec<usize>, usize>>>>> = Some(if is_try {
                    let w: usize = t[1].parse().unwrap();
                    Box::pin(seq_try_join_all(NonZeroUsize::new(w).unwrap(), tasks))
                } else {
                    Box::pin(Ctx(NonZeroUsize::new(1).unwrap()).parallel_join(tasks))
                });
                for op in ops {
                    let (c, arg) = op.split_at(1);
                    match c {
                        "r" => {
                            sh.lock().unwrap().ready.push(arg.parse().unwrap());
                            out.push("r".into());
                        }
                        "p" => match fut.as_mut() {
                            None => out.push("gone".into()),
                            Some(f) => {
                                sh.lock().unwrap().polled.clear();
                                let mut cx = Context::from_waker(futures::task::noop_waker_ref());
                                let r = f.as_mut().poll(&mut cx);
                                let polled = plus(&sh.lock().unwrap().polled);
                                match r {
                                    Poll::Pending => out.push(format!("P/{polled}")),
                                    Poll::Ready(Ok(v)) => {
                                        out.push(format!("OK:{}/{polled}", plus(&v)));
                                        fut = None;
                                    }
                                    Poll::Ready(Err(e)) => {
                                        out.push(format!("ERR:{e}/{polled}"));
                                        fut = None;
                                    }
                                }
                            }
                        },
                        _ => panic!("harness: unknown op {op}"),
                    }
                }
            }
            _ => panic!("harness: unknown request {req}"),
        }
        out.join(" ")
    }

    fn permutations(n: usize) -> Vec<Vec<usize>> {
        fn go(k: usize, cur: &mut Vec<usize>, out: &mut Vec<Vec<usize>>) {
            if k == cur.len() {
                out.push(cur.clone());
                return;
            }
            for i in k..cur.len() {
                cur.swap(k, i);
                go(k + 1, cur, out);
                cur.swap(k, i);
            }
        }
        let mut out = vec![];
        go(0, &mut (0..n).collect(), &mut out);
        out
    }

    pub fn generate(rng: &mut Rng, thorough: bool) -> Vec<String> {
        let mut out: Vec<String> = vec![];
        // ---- boundaries
        for s in [
            "c15.join 1 0 p p", "c15.join 3 0 s5 p", "c15.join 1 1 p s1 p r0 p p", "c15.join 1 1 r0 s1 p p p",
            "c15.join 3 2 s9 p r1 p r0 p p p", "c15.join 2 5 s9 p r0 r1 r2 r3 r4 p p p p p p",
            "c15.join 8 3 s1 p s1 p s1 p r2 p r0 p p r1 p p", "c15.join 2 4 s1 r0 p p s1 p r1 p s9 p r3 p r2 p p p",
            "c15.try 1 0 - p p", "c15.try 3 1 - p r0 p p", "c15.try 3 2 0 r0 p", "c15.try 3 2 1 r1 p r0 p", "c15.try 2 4 2 r0 r1 r3 p r2 p",
            "c15.par 0 - p", "c15.par 2 - p r1 p r0 p p", "c15.par 3 1 r0 p r1 p", "c15.par 3 0,2 r2 p", "c15.par 3 0,2 r2 r0 p",
            "c15.dep 1 4 0 10", "c15.dep 3 6 2 14", "c15.dep 3 6 3 14", "c15.dep 1 3 1 8",
        ] {
            out.push(s.to_string());
        }
        let nmax = if thorough { 7 } else { 6 };
        // ---- all completion orders, windows 1..8, source always ready / trickling
        for n in 1..=nmax {
            let perms = permutations(n);
            for w in 1..=8usize {
                if n >= 6 && !(w <= 3 || w == n || w == 8) && !thorough {
                    continue;
                }
                for (pi, order) in perms.iter().enumerate() {
                    // source mode: 0 = always ready, 1 = one item per poll, 2 = random trickle
                    let modes: &[usize] = if n <= 4 { &[0, 1, 2] } else if pi % 2 == 0 { &[0] } else { &[1 + pi % 2] };
                    for &mode in modes {
                        let mut ops: Vec<String> = vec![];
                        if mode == 0 {
                            ops.push(format!("s{}", n + 1));
                        }
                        ops.push("p".into());
                        for r in order {
                            match mode {
                                1 => ops.push("s1".into()),
                                2 => {
                                    if rng.below(2) == 0 {
                                        ops.push(format!("s{}", 1 + rng.below(3)));
                                    }
                                }
                                _ => {}
                            }
                            ops.push(format!("r{r}"));
                            ops.push("p".into());
                            // after a completion several items may be ready: poll until pending
                            for _ in 0..rng.below(3) {
                                ops.push("p".into());
                            }
                        }
                        ops.push(format!("s{}", n + 1));
                        for _ in 0..n + 2 {
                            ops.push("p".into());
                        }
                        out.push(format!("c15.join {w} {n} {}", ops.join(" ")));
                    }
                    // fallible variant: error set chosen by the permutation index
                    if n <= 5 || pi % 3 == 0 {
                        let mask = if pi % 4 == 0 { 0 } else { rng.usize_below(1 << n) };
                        let errs: Vec<usize> = (0..n).filter(|i| mask >> i & 1 == 1).collect();
                        let mut ops: Vec<String> = vec!["p".into()];
                        for r in order {
                            ops.push(format!("r{r}"));
                            ops.push("p".into());
                        }
                        ops.push("p".into());
                        out.push(format!("c15.try {w} {n} {} {}", nat_list(&errs), ops.join(" ")));
                        if w == 1 {
                            out.push(format!("c15.par {n} {} {}", nat_list(&errs), ops.join(" ")));
                        }
                    }
                }
            }
        }
        // ---- every single error position
        for n in 1..=6usize {
            for e in 0..n {
                for w in [1usize, 2, 3, 8] {
                    let mut order: Vec<usize> = (0..n).collect();
                    rng.shuffle(&mut order);
                    let mut ops: Vec<String> = vec!["p".into()];
                    for r in &order {
                        ops.push(format!("r{r}"));
                        ops.push("p".into());
                    }
                    out.push(format!("c15.try {w} {n} {e} {}", ops.join(" ")));
                    out.push(format!("c15.par {n} {e} {}", ops.join(" ")));
                }
            }
        }
        // ---- dependencies reaching d tasks ahead: completes iff d < window
        for w in 1..=8usize {
            for d in 0..=8usize {
                for n in [1usize, 2, 5, 9, 17] {
                    out.push(format!("c15.dep {w} {n} {d} {}", 2 * n + 2));
                }
            }
        }
        // ---- the source itself is Pending at every position k (it has yielded k items, then stalls
        //      until everything in flight has been resolved and drained, then resumes)
        for n in 1..=5usize {
            for w in 1..=4usize {
                for k in 0..=n {
                    for desc in [false, true] {
                        let mut ops: Vec<String> = vec![format!("s{k}"), "p".into()];
                        let mut first: Vec<usize> = (0..k).collect();
                        if desc {
                            first.reverse();
                        }
                        for r in &first {
                            ops.push(format!("r{r}"));
                            ops.push("p".into());
                        }
                        ops.push("p".into()); // stalled: nothing in flight, source Pending
                        ops.push("p".into());
                        ops.push(format!("s{}", n + 1));
                        ops.push("p".into());
                        let mut rest: Vec<usize> = (k..n).collect();
                        if desc {
                            rest.reverse();
                        }
                        for r in &rest {
                            ops.push(format!("r{r}"));
                            ops.push("p".into());
                            ops.push("p".into());
                        }
                        ops.push("p".into());
                        out.push(format!("c15.join {w} {n} {}", ops.join(" ")));
                    }
                }
            }
        }
        // ---- fallible join over a pending source: error at the first / last position, at and just
        //      after the window edge, none; the source stalls before / at / after the error
        for n in 1..=6usize {
            for w in [1usize, 2, 3, 8] {
                let mut epos: Vec<Option<usize>> = vec![None, Some(0), Some(n - 1)];
                for e in [w - 1, w, w + 1] {
                    if e < n {
                        epos.push(Some(e));
                    }
                }
                epos.dedup();
                for e in epos {
                    let stalls: Vec<usize> = match e {
                        Some(e) => vec![0, e, e + 1, n],
                        None => vec![0, n / 2, n],
                    };
                    for k in stalls {
                        let mut order: Vec<usize> = (0..n).collect();
                        if (n + w + k) % 2 == 1 {
                            order.reverse();
                        }
                        let mut ops: Vec<String> = vec![format!("s{k}"), "p".into()];
                        for (j, r) in order.iter().enumerate() {
                            ops.push(format!("r{r}"));
                            ops.push("p".into());
                            if j == n / 2 {
                                ops.push(format!("s{}", n + 1));
                                ops.push("p".into());
                            }
                        }
                        ops.push("p".into());
                        let errs = e.map_or("-".to_string(), |e| e.to_string());
                        out.push(format!("c15.tryp {w} {n} {errs} {}", ops.join(" ")));
                    }
                }
            }
        }
        for _ in 0..(if thorough { 2000 } else { 200 }) {
            let n = 1 + rng.usize_below(8);
            let w = 1 + rng.usize_below(8);
            let mask = if rng.below(3) == 0 { 0 } else { rng.usize_below(1 << n) };
            let errs: Vec<usize> = (0..n).filter(|i| mask >> i & 1 == 1).collect();
            let mut order: Vec<usize> = (0..n).collect();
            rng.shuffle(&mut order);
            let mut ops: Vec<String> = vec![];
            for r in &order {
                if rng.below(2) == 0 {
                    ops.push(format!("s{}", rng.below(4)));
                }
                if rng.below(3) == 0 {
                    ops.push("p".into());
                }
                ops.push(format!("r{r}"));
                ops.push("p".into());
            }
            ops.push(format!("s{}", n + 1));
            ops.push("p".into());
            ops.push("p".into());
            out.push(format!("c15.tryp {w} {n} {} {}", nat_list(&errs), ops.join(" ")));
        }
        // ---- random longer schedules
        for _ in 0..(if thorough { 3000 } else { 300 }) {
            let n = 1 + rng.usize_below(20);
            let w = 1 + rng.usize_below(8);
            let mut order: Vec<usize> = (0..n).collect();
            rng.shuffle(&mut order);
            let mut ops: Vec<String> = vec![];
            for r in &order {
                match rng.below(4) {
                    0 => ops.push(format!("s{}", rng.below(4))),
                    1 => ops.push("p".into()),
                    _ => {}
                }
                ops.push(format!("r{r}"));
                for _ in 0..rng.below(3) {
                    ops.push("p".into());
                }
            }
            ops.push(format!("s{}", n + 1));
            for _ in 0..n + 2 {
                ops.push("p".into());
            }
            out.push(format!("c15.join {w} {n} {}", ops.join(" ")));
        }
        // ---- iterators that under-report their length (size_hint lower bound 0 / 1 / < active):
        // the window must come from `active` alone, so dependencies up to active-1 positions ahead
        // never block seq_try_join_all / SeqJoin::try_join; parallel_join has no window at all
        for s in [
            "c15.hint try filter 2 2 1 6", "c15.hint ctx filter 3 4 2 10", "c15.hint try chain1 3 5 2 12",
            "c15.hint try flatmap 4 9 3 20", "c15.hint ctx takewhile 2 3 1 8", "c15.hint par filter 1 4 3 2",
            "c15.hint try filter 1 3 0 8", "c15.hint try filter 2 0 1 2", "c15.hint try chain2 4 2 3 6",
        ] {
            out.push(s.to_string());
        }
        for w in [1usize, 2, 3, 4, 5, 8, 16] {
            let mut ns = vec![0usize, 1, 2, w - 1, w, w + 1, 2 * w + 1, 3 * w];
            ns.sort_unstable();
            ns.dedup();
            for n in ns {
                let mut ds: Vec<usize> = (0..=w.min(5)).collect();
                if w > 5 {
                    ds.extend([w - 2, w - 1, w]);
                }
                for d in ds {
                    let mut shapes: Vec<String> = ["exact", "filter", "flatmap", "takewhile", "chain1"].iter().map(|s| s.to_string()).collect();
                    if w > 2 {
                        shapes.push(format!("chain{}", w - 1));
                    }
                    for shape in shapes {
                        for api in ["try", "ctx"] {
                            if api == "ctx" && shape == "exact" {
                                continue;
                            }
                            out.push(format!("c15.hint {api} {shape} {w} {n} {d} {}", 2 * n + 3));
                        }
                    }
                    // (try_join_all switches to FuturesUnordered above 30 futures, which re-polls only
                    // futures that woke it; the scripted tasks never do)
                    if d == w.min(5) && n <= 30 {
                        out.push(format!("c15.hint par filter {w} {n} {d} 3"));
                        out.push(format!("c15.hint par chain1 {w} {n} {} 3", n.saturating_sub(1)));
                    }
                }
            }
        }
        out
    }

    #[test]
    fn verif_c15_local() {
        run_suite("c15_local", generate, exec);
    }
}

// ------------------------------------------------------------------------------------------
// C15 — the MULTI-THREADED implementation (seq_join/multi_thread.rs), built only with
// `--features "ipa-verif multi-threading"` (props/C15.json `extra_builds`; since b17 in BOTH tiers: the quick tier
// runs the pending-source scripts and a thin sample of the rest, ~600 cases in < 1 s).
// Futures are spawned on tokio worker threads by the implementation, so per-poll internals are not
// observable; compared are the OUTPUTS and their ORDER:
//
//   c15mt.join <w> <n> <errs> <perm>   seq_try_join_all; futures are released (oneshot) in the order <perm>
//   c15mt.stream <w> <n> <perm>        seq_join(..).collect(): items in the order they are emitted
//   c15mt.par <n> <errs> <perm>        SeqJoin::parallel_join
//   c15mt.dep <w> <n> <d>              task k completes once tasks k+1..k+d have started (d >= w: hang)
//   response: OK:<i+j+…> | ERR:<e> | timeout
//
// (b17) SOURCE STREAMS THAT ARE THEMSELVES PENDING (channel- / network-fed inputs):
//   c15mt.src <w> <n> <op>…   seq_join(w, source) over a scripted source; ops: s<k> the source may yield k more
//                             tasks (its stored waker is woken), r<i> task i is released (oneshot) and completes on
//                             its worker thread, p ONE poll_next — scripted only at moments at which the answer
//                             cannot depend on thread timing (the next task to come out is unreleased, or nothing
//                             is in flight: e.g. AFTER THE WINDOW HAS BEEN FULLY DRAINED while the source is open
//                             but momentarily empty), a = next().await with a 2 s limit
//                             response: one token per op: s, r, P | I<i> | N | T (await timed out)
//   c15mt.slow <w> <n> <gap> <collect|try> <errs>   slow producer / fast consumer: a second task sends n
//                             immediately-ready tasks into an unbounded channel, one every <gap> ms (0: one yield_now
//                             between sends), then closes it; the consumer runs seq_join(w, rx).collect() or
//                             .try_collect() (the tasks in <errs> fail)   response: OK:<i+j+…> | ERR:<e> | timeout
//   The quick tier runs the pending-source scripts and a thin sample of the rest (generate: `thorough`).
// ------------------------------------------------------------------------------------------
#[cfg(feature = "multi-threading")]
pub mod c15_mt {
    use std::{
        future::Future,
        num::NonZeroUsize,
        pin::Pin,
        sync::{
            Arc,
            atomic::{AtomicBool, Ordering},
        },
        task::Poll,
    };

    use futures::{Stream, StreamExt, stream};
    use tokio::sync::oneshot;

    use super::super::{SeqJoin, seq_join, seq_try_join_all};
    use crate::ipa_verif::proto::*;

    struct Ctx(NonZeroUsize);
    impl SeqJoin for Ctx {
        fn active_work(&self) -> NonZeroUsize {
            self.0
        }
    }

    fn plus(xs: &[usize]) -> String {
        if xs.is_empty() { "-".into() } else { xs.iter().map(ToString::to_string).collect::<Vec<_>>().join("+") }
    }

    fn fmt(r: Result<Vec<usize>, usize>) -> String {
        match r {
            Ok(v) => format!("OK:{}", plus(&v)),
            Err(e) => format!("ERR:{e}"),
        }
    }

    pub fn exec(req: &str) -> String {
        let t: Vec<&str> = req.split(' ').collect();
        let r = match t[0] {
            "c15mt.join" | "c15mt.stream" | "c15mt.par" => {
                let kind = t[0].to_string();
                let (w, n, errs, perm): (usize, usize, Vec<usize>, Vec<usize>) = match t[0] {
                    "c15mt.join" => (t[1].parse().unwrap(), t[2].parse().unwrap(), parse_nat_list(t[3]), parse_nat_list(t[4])),
                    "c15mt.stream" => (t[1].parse().unwrap(), t[2].parse().unwrap(), vec![], parse_nat_list(t[3])),
                    _ => (1, t[1].parse().unwrap(), parse_nat_list(t[2]), parse_nat_list(t[3])),
                };
                block_on_timeout(20, async move {
                    let mut txs = vec![];
                    let mut tasks = vec![];
                    for i in 0..n {
                        let (tx, rx) = oneshot::channel::<()>();
                        txs.push(Some(tx));
                        let is_err = errs.contains(&i);
                        tasks.push(async move {
                            rx.await.unwrap();
                            if is_err { Err::<usize, usize>(i) } else { Ok(i) }
                        });
                    }
                    let controller = tokio::spawn(async move {
                        for (k, i) in perm.into_iter().enumerate() {
                            if k % 2 == 0 {
                                tokio::task::yield_now().await;
                            }
                            if let Some(tx) = txs[i].take() {
                                let _ = tx.send(());
                            }
                        }
                    });
                    let active = NonZeroUsize::new(w).unwrap();
                    let out = match kind.as_str() {
                        "c15mt.join" => fmt(seq_try_join_all(active, tasks).await),
                        "c15mt.stream" => {
                            let items: Vec<Result<usize, usize>> = seq_join(active, stream::iter(tasks)).collect().await;
                            fmt(items.into_iter().collect::<Result<Vec<usize>, usize>>())
                        }
                        _ => fmt(Ctx(active).parallel_join(tasks).await),
                    };
                    let _ = controller.await;
                    out
                })
            }
            "c15mt.src" => {
                let (w, n): (usize, usize) = (t[1].parse().unwrap(), t[2].parse().unwrap());
                let ops: Vec<String> = t[3..].iter().map(ToString::to_string).collect();
                block_on_timeout(60, async move {
                    struct Src {
                        budget: usize,
                        next: usize,
                        waker: Option<std::task::Waker>,
                        gates: Vec<Option<oneshot::Receiver<()>>>,
                    }
                    let mut txs = vec![];
                    let mut gates = vec![];
                    for _ in 0..n {
                        let (tx, rx) = oneshot::channel::<()>();
                        txs.push(Some(tx));
                        gates.push(Some(rx));
                    }
                    let src = Arc::new(std::sync::Mutex::new(Src { budget: 0, next: 0, waker: None, gates }));
                    let source = {
                        let src = Arc::clone(&src);
                        stream::poll_fn(move |cx| {
                            let mut s = src.lock().unwrap();
                            if s.next >= n {
                                Poll::Ready(None)
                            } else if s.budget == 0 {
                                // open, but momentarily empty
                                s.waker = Some(cx.waker().clone());
                                Poll::Pending
                            } else {
                                s.budget -= 1;
                                let i = s.next;
                                s.next += 1;
                                let gate = s.gates[i].take().unwrap();
                                let task: Pin<Box<dyn Future<Output = usize> + Send>> = Box::pin(async move {
                                    gate.await.unwrap();
                                    i
                                });
                                Poll::Ready(Some(task))
                            }
                        })
                    };
                    let mut joined = Box::pin(seq_join(NonZeroUsize::new(w).unwrap(), source));
                    let mut out: Vec<String> = vec![];
                    for op in &ops {
                        let (c, arg) = op.split_at(1);
                        match c {
                            "s" => {
                                let w = {
                                    let mut s = src.lock().unwrap();
                                    s.budget += arg.parse::<usize>().unwrap();
                                    s.waker.take()
                                };
                                if let Some(w) = w {
                                    w.wake();
                                }
                                out.push("s".into());
                            }
                            "r" => {
                                if let Some(tx) = txs[arg.parse::<usize>().unwrap()].take() {
                                    let _ = tx.send(());
                                }
                                out.push("r".into());
                            }
                            "p" => {
                                let r = std::future::poll_fn(|cx| Poll::Ready(joined.as_mut().poll_next(cx))).await;
                                out.push(match r {
                                    Poll::Pending => "P".to_string(),
                                    Poll::Ready(Some(i)) => format!("I{i}"),
                                    Poll::Ready(None) => "N".to_string(),
                                });
                            }
                            "a" => {
                                out.push(match tokio::time::timeout(std::time::Duration::from_secs(2), joined.next()).await {
                                    Err(_) => "T".to_string(),
                                    Ok(Some(i)) => format!("I{i}"),
                                    Ok(None) => "N".to_string(),
                                });
                            }
                            _ => panic!("harness: unknown op {op}"),
                        }
                    }
                    // whatever is still in flight is released before the join (and its scope) is dropped
                    for tx in txs.iter_mut() {
                        if let Some(tx) = tx.take() {
                            let _ = tx.send(());
                        }
                    }
                    drop(joined);
                    out.join(" ")
                })
            }
            "c15mt.slow" => {
                let (w, n, gap): (usize, usize, u64) = (t[1].parse().unwrap(), t[2].parse().unwrap(), t[3].parse().unwrap());
                let fallible = match t[4] {
                    "try" => true,
                    "collect" => false,
                    k => panic!("harness: unknown consumer {k}"),
                };
                let errs: Vec<usize> = parse_nat_list(t[5]);
                assert!(fallible || errs.is_empty(), "harness: collect() has no failing tasks");
                block_on_timeout(60, async move {
                    let (tx, rx) = futures::channel::mpsc::unbounded::<Pin<Box<dyn Future<Output = Result<usize, usize>> + Send>>>();
                    let producer = tokio::spawn(async move {
                        for i in 0..n {
                            let is_err = errs.contains(&i);
                            // if the join gave up early the receiver is gone; the result reports it
                            let _ = tx.unbounded_send(Box::pin(async move { if is_err { Err(i) } else { Ok(i) } }));
                            if gap == 0 {
                                tokio::task::yield_now().await;
                            } else {
                                tokio::time::sleep(std::time::Duration::from_millis(gap)).await;
                            }
                        }
                    });
                    let joined = seq_join(NonZeroUsize::new(w).unwrap(), rx);
                    let out = if fallible {
                        use futures::TryStreamExt;
                        fmt(joined.try_collect::<Vec<usize>>().await)
                    } else {
                        let items: Vec<Result<usize, usize>> = joined.collect().await;
                        fmt(items.into_iter().collect::<Result<Vec<usize>, usize>>())
                    };
                    let _ = producer.await;
                    out
                })
            }
            "c15mt.dep" => {
                let (w, n, d): (usize, usize, usize) = (t[1].parse().unwrap(), t[2].parse().unwrap(), t[3].parse().unwrap());
                block_on_timeout(2, async move {
                    let started: Arc<Vec<AtomicBool>> = Arc::new((0..n).map(|_| AtomicBool::new(false)).collect());
                    let tasks: Vec<_> = (0..n)
                        .map(|k| {
                            let started = Arc::clone(&started);
                            async move {
                                started[k].store(true, Ordering::SeqCst);
                                while !(1..=d).all(|j| k + j >= n || started[k + j].load(Ordering::SeqCst)) {
                                    tokio::task::yield_now().await;
                                }
                                Ok::<usize, usize>(k)
                            }
                        })
                        .collect();
                    fmt(seq_try_join_all(NonZeroUsize::new(w).unwrap(), tasks).await)
                })
            }
            _ => panic!("harness: unknown request {req}"),
        };
        r.unwrap_or_else(|e| e)
    }

    fn permutations(n: usize) -> Vec<Vec<usize>> {
        fn go(k: usize, cur: &mut Vec<usize>, out: &mut Vec<Vec<usize>>) {
            if k == cur.len() {
                out.push(cur.clone());
                return;
            }
            for i in k..cur.len() {
                cur.swap(k, i);
                go(k + 1, cur, out);
                cur.swap(k, i);
            }
        }
        let mut out = vec![];
        go(0, &mut (0..n).collect(), &mut out);
        out
    }

    /// A random script for `c15mt.src` in which every `p` is placed where its answer cannot depend on thread timing.
    /// The bookkeeping below only decides WHICH op may come next (it is not compared with anything).
    fn random_src_script(rng: &mut Rng, w: usize, n: usize, len: usize) -> Vec<String> {
        let (mut budget, mut next, mut emitted, mut done) = (0usize, 0usize, 0usize, false);
        let mut released = vec![false; n];
        let mut ops: Vec<String> = vec![];
        // what the refill loop of one poll draws
        let refill = |budget: &mut usize, next: &mut usize, emitted: usize, done: &mut bool| {
            while *next - emitted < w {
                if *done {
                    break;
                }
                if *next >= n {
                    *done = true;
                    break;
                }
                if *budget == 0 {
                    break;
                }
                *budget -= 1;
                *next += 1;
            }
        };
        let mut ended = false;
        for _ in 0..len {
            if ended {
                break;
            }
            match rng.below(5) {
                0 => {
                    let k = rng.usize_below(4);
                    budget += k;
                    ops.push(format!("s{k}"));
                }
                1 => {
                    let un: Vec<usize> = (0..n).filter(|i| !released[*i]).collect();
                    if !un.is_empty() {
                        let i = *rng.pick(&un);
                        released[i] = true;
                        ops.push(format!("r{i}"));
                    }
                }
                _ => {
                    // what would a poll see?
                    let (mut b, mut nx, mut d) = (budget, next, done);
                    refill(&mut b, &mut nx, emitted, &mut d);
                    let inflight = nx - emitted;
                    if inflight == 0 {
                        // nothing in flight: P while the source is open, N once it is exhausted — either way timing-free
                        (budget, next, done) = (b, nx, d);
                        ops.push(if rng.bool() { "p".into() } else if d { "a".into() } else { "p".into() });
                        ended = d;
                    } else if released[emitted] {
                        (budget, next, done) = (b, nx, d);
                        emitted += 1;
                        ops.push("a".into());
                    } else {
                        (budget, next, done) = (b, nx, d);
                        ops.push("p".into());
                    }
                }
            }
        }
        // drain: let the source yield everything, release everything, await every result and the end
        ops.push(format!("s{}", n + 1));
        for i in 0..n {
            if !released[i] {
                ops.push(format!("r{i}"));
            }
        }
        if !ended {
            for _ in emitted..=n {
                ops.push("a".into());
            }
        }
        ops
    }

    /// (b17) scripts with a source that is itself pending
    fn pending_source(rng: &mut Rng, thorough: bool, out: &mut Vec<String>) {
        // the independent seed's witnesses first: window 3, the source hands out one task, the join drains it
        // completely, is polled while the source is open but empty, and only then gets the rest
        out.push("c15mt.src 3 3 s1 r0 a p s2 r1 r2 a a a".to_string());
        out.push("c15mt.slow 4 12 5 collect -".to_string());
        // the source stalls after k items until everything in flight has completed AND been yielded (window fully
        // drained), is polled twice in that state, then resumes; k = n: the end of the source is only discovered
        // after the drain
        for n in 1..=5usize {
            for w in 1..=4usize {
                for k in 0..=n {
                    for desc in [false, true] {
                        let mut ops: Vec<String> = vec![format!("s{k}"), "p".into()];
                        let mut first: Vec<usize> = (0..k).collect();
                        if desc {
                            first.reverse();
                        }
                        for r in &first {
                            ops.push(format!("r{r}"));
                        }
                        for _ in 0..k {
                            ops.push("a".into());
                        }
                        ops.push("p".into()); // drained: nothing in flight, the source is pending (k = n: exhausted)
                        ops.push("p".into());
                        ops.push(format!("s{}", n + 1));
                        ops.push("p".into());
                        let mut rest: Vec<usize> = (k..n).collect();
                        if desc {
                            rest.reverse();
                        }
                        for r in &rest {
                            ops.push(format!("r{r}"));
                        }
                        for _ in k..=n {
                            ops.push("a".into());
                        }
                        out.push(format!("c15mt.src {w} {n} {}", ops.join(" ")));
                    }
                }
            }
        }
        // slow producer, fast consumer, scripted: one task at a time, each drained before the next is offered
        for n in 1..=6usize {
            for w in [1usize, 2, 3, 8] {
                let mut ops: Vec<String> = vec![];
                for i in 0..n {
                    ops.push("s1".into());
                    if (i + w) % 2 == 0 {
                        ops.push("p".into());
                    }
                    ops.push(format!("r{i}"));
                    ops.push("a".into());
                    ops.push("p".into());
                }
                ops.push("a".into());
                out.push(format!("c15mt.src {w} {n} {}", ops.join(" ")));
            }
        }
        // pending before the first item, released before drawn, window larger than the input
        for s in [
            "c15mt.src 1 1 p p s1 p r0 a a",
            "c15mt.src 2 3 r2 r1 r0 p s1 a p s1 a p s1 a a",
            "c15mt.src 8 2 p s1 p r0 a p p s5 p r1 a a",
            "c15mt.src 2 4 s2 p r1 p r0 a a p s2 p r3 p r2 a a a",
        ] {
            out.push(s.to_string());
        }
        for _ in 0..(if thorough { 1500 } else { 150 }) {
            let n = 1 + rng.usize_below(8);
            let w = 1 + rng.usize_below(5);
            let len = 6 + rng.usize_below(20);
            let ops = random_src_script(rng, w, n, len);
            out.push(format!("c15mt.src {w} {n} {}", ops.join(" ")));
        }
        // slow producer feeding a channel, end to end: collect / try_collect, with and without a failing task
        let mut slow: Vec<(usize, usize, u64)> = vec![(1, 6, 2), (3, 10, 1), (8, 5, 3), (2, 20, 0), (3, 30, 0)];
        if thorough {
            slow.extend([(4, 40, 2), (1, 25, 1), (16, 64, 0), (5, 100, 0), (2, 12, 10)]);
        }
        for (w, n, gap) in slow {
            out.push(format!("c15mt.slow {w} {n} {gap} collect -"));
            out.push(format!("c15mt.slow {w} {n} {gap} try -"));
            out.push(format!("c15mt.slow {w} {n} {gap} try {}", n - 1));
            out.push(format!("c15mt.slow {w} {n} {gap} try {}", rng.usize_below(n)));
        }
    }

    pub fn generate(rng: &mut Rng, thorough: bool) -> Vec<String> {
        let mut out = vec![];
        for s in ["c15mt.join 1 0 - -", "c15mt.stream 3 0 -", "c15mt.par 0 - -", "c15mt.join 1 1 0 0", "c15mt.dep 1 4 0"] {
            out.push(s.to_string());
        }
        pending_source(rng, thorough, &mut out);
        // the quick tier runs a thin sample of what follows (the whole of it in the thorough tier)
        // all completion orders for n <= 5 (quick: n <= 3), windows 1..8 (thinned for n = 5), error sets by index
        for n in 1..=(if thorough { 5usize } else { 3 }) {
            for (pi, perm) in permutations(n).iter().enumerate() {
                for w in 1..=8usize {
                    if n == 5 && (pi + w) % 4 != 0 {
                        continue;
                    }
                    out.push(format!("c15mt.stream {w} {n} {}", nat_list(perm)));
                    let mask = if (pi + w) % 3 == 0 { 0 } else { rng.usize_below(1 << n) };
                    let errs: Vec<usize> = (0..n).filter(|i| mask >> i & 1 == 1).collect();
                    out.push(format!("c15mt.join {w} {n} {} {}", nat_list(&errs), nat_list(perm)));
                    if w == 1 {
                        out.push(format!("c15mt.par {n} {} {}", nat_list(&errs), nat_list(perm)));
                    }
                }
            }
        }
        // every single error position (first / last / beyond the window)
        for n in 1..=(if thorough { 6usize } else { 4 }) {
            for e in 0..n {
                for w in [1usize, 2, 3, 8] {
                    let mut perm: Vec<usize> = (0..n).collect();
                    rng.shuffle(&mut perm);
                    out.push(format!("c15mt.join {w} {n} {e} {}", nat_list(&perm)));
                }
            }
        }
        // dependencies reaching d tasks ahead: completes iff d < window; two hanging cases only (2 s each, thorough tier)
        for w in 1..=(if thorough { 6usize } else { 3 }) {
            for d in 0..w {
                for n in [1usize, 2, 5, 9, 40] {
                    out.push(format!("c15mt.dep {w} {n} {d}"));
                }
            }
        }
        if thorough {
            out.push("c15mt.dep 2 6 2".to_string());
            out.push("c15mt.dep 3 9 5".to_string());
        }
        // longer random ones
        for _ in 0..(if thorough { 200 } else { 20 }) {
            let n = 1 + rng.usize_below(40);
            let w = 1 + rng.usize_below(8);
            let mut perm: Vec<usize> = (0..n).collect();
            rng.shuffle(&mut perm);
            let errs: Vec<usize> = if rng.bool() { vec![] } else { vec![rng.usize_below(n)] };
            out.push(format!("c15mt.join {w} {n} {} {}", nat_list(&errs), nat_list(&perm)));
        }
        out
    }

    #[test]
    fn verif_c15mt_join() {
        run_suite("c15mt_join", generate, exec);
    }
}
