// Suites that need access to items private to protocol::ipa_prf (feature ipa-verif, test builds only).
//
// C03: c03_lagrange, c03_proof — the real CanonicalLagrangeDenominator / LagrangeTable / ProofGenerator /
// verifier functions of the private `malicious_security` module on Fp61BitPrime vectors.
mod c03_suites {
    use super::super::malicious_security::{
        lagrange::{CanonicalLagrangeDenominator, LagrangeTable},
        prover::{ProverLagrangeInput, ProverValues, SmallProofGenerator, UVValues},
        verifier::{VerifierTableIndices, compute_g_differences, recursively_compute_final_check},
    };
    use crate::{
        ff::{Field, Fp61BitPrime, PrimeField, U128Conversions},
        ipa_verif::proto::*,
        protocol::context::dzkp_field::{TABLE_U, TABLE_V},
        secret_sharing::SharedValue,
    };

    type F = Fp61BitPrime;
    const P: u128 = F::PRIME as u128;

    fn f(v: u128) -> F {
        assert!(v < P, "harness: non-canonical operand");
        F::truncate_from(v)
    }
    fn fl(s: &str) -> Vec<F> {
        parse_nat_list::<u128>(s).into_iter().map(f).collect()
    }
    fn show(xs: &[F]) -> String {
        nat_list(&xs.iter().map(|x| x.as_u128()).collect::<Vec<_>>())
    }
    fn arr<const N: usize>(xs: &[F]) -> [F; N] {
        <[F; N]>::try_from(xs.to_vec()).ok().expect("harness: wrong vector length")
    }

    fn lag_from<const N: usize, const M: usize>(ys: &[F]) -> String {
        let t = LagrangeTable::<F, N, M>::from(CanonicalLagrangeDenominator::<F, N>::new());
        show(&t.eval(&arr::<N>(ys)))
    }
    fn lag_at<const N: usize>(r: F, ys: &[F]) -> String {
        let d = CanonicalLagrangeDenominator::<F, N>::new();
        LagrangeTable::<F, N, 1>::new(&d, &r).eval(&arr::<N>(ys))[0].as_u128().to_string()
    }

    fn exec_lagrange(req: &str) -> String {
        let t: Vec<&str> = req.split(' ').collect();
        match t[1] {
            "from" => {
                let ys = fl(t[4]);
                match (t[2], t[3]) {
                    ("4", "3") => lag_from::<4, 3>(&ys),
                    ("7", "1") => lag_from::<7, 1>(&ys),
                    ("8", "7") => lag_from::<8, 7>(&ys),
                    ("32", "31") => lag_from::<32, 31>(&ys),
                    ("2", "1") => lag_from::<2, 1>(&ys),
                    ("1", "1") => lag_from::<1, 1>(&ys),
                    _ => panic!("harness: unsupported table shape"),
                }
            }
            "at" => {
                let r = f(t[3].parse().unwrap());
                let ys = fl(t[4]);
                match t[2] {
                    "1" => lag_at::<1>(r, &ys),
                    "2" => lag_at::<2>(r, &ys),
                    "4" => lag_at::<4>(r, &ys),
                    "7" => lag_at::<7>(r, &ys),
                    "8" => lag_at::<8>(r, &ys),
                    "32" => lag_at::<32>(r, &ys),
                    _ => panic!("harness: unsupported table width"),
                }
            }
            _ => panic!("harness: unknown request {req}"),
        }
    }

    fn elem(rng: &mut Rng, k: usize) -> u128 {
        match k % 7 {
            0 => 0,
            1 => 1,
            2 => P - 1,
            3 => P - 2,
            4 => 1 << 60,
            _ => rng.next_u128() % P,
        }
    }

    fn vec_of(rng: &mut Rng, n: usize, style: usize) -> Vec<u128> {
        (0..n)
            .map(|i| match style {
                0 => 0,
                1 => P - 1,
                2 => elem(rng, i),
                3 => (i as u128) % P,
                _ => rng.next_u128() % P,
            })
            .collect()
    }

    #[test]
    fn verif_c03_lagrange() {
        run_suite(
            "c03_lagrange",
            |rng, thorough| {
                let mut out = vec![];
                let reps = if thorough { 60 } else { 6 };
                for (n, m) in [(4usize, 3usize), (7, 1), (8, 7), (32, 31), (2, 1), (1, 1)] {
                    for style in 0..4 {
                        out.push(format!("c03.lagrange from {n} {m} {}", nat_list(&vec_of(rng, n, style))));
                    }
                    for _ in 0..reps {
                        out.push(format!("c03.lagrange from {n} {m} {}", nat_list(&vec_of(rng, n, 4))));
                    }
                }
                for n in [1usize, 2, 4, 7, 8, 32] {
                    // on-domain points (the row is a unit vector), just outside, extremes, random
                    let mut rs: Vec<u128> = (0..=(n as u128 + 1)).collect();
                    rs.extend_from_slice(&[P - 1, P - 2, 1 << 60, (P + 1) / 2]);
                    for _ in 0..reps {
                        rs.push(rng.next_u128() % P);
                    }
                    for (k, r) in rs.into_iter().enumerate() {
                        out.push(format!("c03.lagrange at {n} {r} {}", nat_list(&vec_of(rng, n, 1 + k % 4))));
                    }
                }
                out
            },
            exec_lagrange,
        );
    }

    fn uv_of(us: &[F], vs: &[F]) -> UVValues<F, 4> {
        us.iter().copied().zip(vs.iter().copied()).collect::<UVValues<F, 4>>()
    }

    fn exec_proof(req: &str) -> String {
        let t: Vec<&str> = req.split(' ').collect();
        match t[1] {
            "compute" => {
                let uv = uv_of(&fl(t[2]), &fl(t[3]));
                let table = LagrangeTable::<F, 4, 3>::from(CanonicalLagrangeDenominator::<F, 4>::new());
                show(&SmallProofGenerator::compute_proof_from_uv(uv.iter(), &table))
            }
            "next" => {
                let r = f(t[2].parse().unwrap());
                let uv = uv_of(&fl(t[3]), &fl(t[4]));
                let d = CanonicalLagrangeDenominator::<F, 4>::new();
                let table = LagrangeTable::<F, 4, 1>::new(&d, &r);
                let next: Vec<(F, F)> = ProverValues(uv.iter().copied()).eval_at_r(&table).collect();
                format!(
                    "{} {}",
                    show(&next.iter().map(|x| x.0).collect::<Vec<_>>()),
                    show(&next.iter().map(|x| x.1).collect::<Vec<_>>())
                )
            }
            "masks" => {
                let mut uv = uv_of(&fl(t[2]), &fl(t[3]));
                match uv.set_masks(f(t[4].parse().unwrap()), f(t[5].parse().unwrap())) {
                    Ok(()) => format!(
                        "ok {}",
                        uv.iter().map(|(u, v)| format!("{}/{}", show(u), show(v))).collect::<Vec<_>>().join(";")
                    ),
                    Err(_) => "err".into(),
                }
            }
            "gdiff" => {
                let first = arr::<7>(&fl(t[2]));
                let zk = fl(t[3]);
                let zkps: Vec<[F; 7]> = zk.chunks_exact(7).map(|c| arr::<7>(c)).collect();
                let chs = fl(t[4]);
                let d = compute_g_differences::<F, 7, 4, 7, 4>(
                    &first,
                    &zkps,
                    &chs,
                    f(t[5].parse().unwrap()),
                    f(t[6].parse().unwrap()),
                );
                show(&d)
            }
            "final" => {
                let table = if t[2] == "U" { &*TABLE_U } else { &*TABLE_V };
                let ds: Vec<u8> = if t[3] == "-" { vec![] } else { t[3].bytes().map(|b| b - b'0').collect() };
                let chs = fl(t[4]);
                recursively_compute_final_check::<F, 4>(
                    VerifierTableIndices { input: ds.into_iter(), table },
                    &chs,
                    f(t[5].parse().unwrap()),
                )
                .as_u128()
                .to_string()
            }
            _ => panic!("harness: unknown request {req}"),
        }
    }

    #[test]
    fn verif_c03_proof() {
        run_suite(
            "c03_proof",
            |rng, thorough| {
                let mut out = vec![];
                let reps = if thorough { 40 } else { 4 };
                // compute_proof_from_uv: lengths around the chunk size and around the accumulator's
                // deferred-reduction interval (64 chunks = 256 values), with extreme operands
                for n in [0usize, 1, 3, 4, 5, 8, 15, 16, 17, 252, 253, 256, 257, 260, 512, 513, 1024] {
                    for style in 0..5 {
                        if n > 300 && style > 1 && style < 4 {
                            continue;
                        }
                        out.push(format!(
                            "c03.proof compute {} {}",
                            nat_list(&vec_of(rng, n, style)),
                            nat_list(&vec_of(rng, n, if style == 0 { 4 } else { style }))
                        ));
                    }
                }
                for _ in 0..reps {
                    let n = 1 + rng.usize_below(40);
                    out.push(format!("c03.proof compute {} {}", nat_list(&vec_of(rng, n, 4)), nat_list(&vec_of(rng, n, 4))));
                }
                // next level
                for n in [1usize, 3, 4, 5, 16, 17, 64] {
                    for r in [0u128, 1, 3, 4, 5, P - 1, rng.next_u128() % P] {
                        out.push(format!("c03.proof next {r} {} {}", nat_list(&vec_of(rng, n, 4)), nat_list(&vec_of(rng, n, 2))));
                    }
                }
                // set_masks: allowed only with fewer than L values
                for n in [0usize, 1, 2, 3, 4, 5, 8] {
                    out.push(format!(
                        "c03.proof masks {} {} {} {}",
                        nat_list(&vec_of(rng, n, 4)),
                        nat_list(&vec_of(rng, n, 4)),
                        rng.next_u128() % P,
                        rng.next_u128() % P
                    ));
                }
                // compute_g_differences: 1..13 compressed proofs, matching and mismatching challenge counts
                for k in [1usize, 2, 3, 5, 13] {
                    for extra in [1usize, 0, 2] {
                        for style in [2usize, 4, 1] {
                            out.push(format!(
                                "c03.proof gdiff {} {} {} {} {}",
                                nat_list(&vec_of(rng, 7, style)),
                                nat_list(&vec_of(rng, 7 * k, style)),
                                nat_list(&vec_of(rng, k + extra, 4)),
                                elem(rng, style + k),
                                elem(rng, style + 1)
                            ));
                        }
                    }
                }
                out.push(format!("c03.proof gdiff {} - {} 0 0", nat_list(&vec_of(rng, 7, 4)), nat_list(&vec_of(rng, 1, 4))));
                out.push(format!("c03.proof gdiff {} {} - 0 0", nat_list(&vec_of(rng, 7, 4)), nat_list(&vec_of(rng, 7, 4))));
                // recursively_compute_final_check: lengths that fit / do not fit the number of challenges
                for tb in ["U", "V"] {
                    for (len, nch) in [
                        (1usize, 2usize), (3, 2), (4, 2), (0, 2), (3, 1), (4, 3), (12, 3), (15, 3), (16, 3), (16, 4), (17, 4),
                        (255, 5), (256, 5), (256, 6), (257, 6), (1023, 6), (1024, 7), (3, 14), (3, 15), (700, 7),
                    ] {
                        let ds: String = (0..len).map(|_| char::from(b'0' + (rng.below(8) as u8))).collect();
                        let ds = if ds.is_empty() { "-".to_string() } else { ds };
                        // challenges outside the interpolation domain, as hash_to_field guarantees; one inside too
                        let mut chs: Vec<u128> = (0..nch).map(|_| 4 + rng.next_u128() % (P - 4)).collect();
                        if len == 12 {
                            chs[0] = 2;
                        }
                        out.push(format!("c03.proof final {tb} {ds} {} {}", nat_list(&chs), rng.next_u128() % P));
                    }
                    for _ in 0..reps {
                        let len = 1 + rng.usize_below(60);
                        let mut nch = 2;
                        let mut l = len;
                        while l >= 4 {
                            l = (l + 3) / 4;
                            nch += 1;
                        }
                        let ds: String = (0..len).map(|_| char::from(b'0' + (rng.below(8) as u8))).collect();
                        let chs: Vec<u128> = (0..nch).map(|_| 4 + rng.next_u128() % (P - 4)).collect();
                        out.push(format!("c03.proof final {tb} {ds} {} {}", nat_list(&chs), rng.next_u128() % P));
                    }
                }
                out
            },
            exec_proof,
        );
    }
}

// C03: c03_batch — the real `ProofBatch::generate` (prover loop, PRSS share splitting, masks) and the real
// `BatchToVerify::{generate_batch_to_verify, generate_challenges, compute_p_and_q_r, verify}` on all three helpers of
// a seeded TestWorld, for an honest prover, a prover whose left verifier recorded an altered product share, and a
// "two-faced" prover (first proof from one set of records, recursion adapted to the verifier's view).
// The PRSS values / masks / challenges observed in a first run are put into the request (the model is parametric in
// them); `exec` re-runs the same seeded world and reports the prover's left shares, p(r), q(r) and the verdicts.
mod c03_batch {
    use super::super::{
        ProverTableIndices, VerifierTableIndices,
        malicious_security::{
            FIRST_RECURSION_FACTOR as FRF, lagrange::LagrangeTable, prover::ProverLagrangeInput,
        },
        validation_protocol::{proof_generation::ProofBatch, validation::BatchToVerify},
    };
    use crate::{
        ff::{Fp61BitPrime, PrimeField, U128Conversions},
        ipa_verif::proto::*,
        protocol::{
            RecordId, RecordIdRange,
            context::{
                Context,
                dzkp_field::{DZKPBaseField, TABLE_U, TABLE_V},
            },
        },
        test_fixture::{Runner, TestWorld, TestWorldConfig},
    };

    type F = Fp61BitPrime;

    #[derive(Clone)]
    struct TwoFaced {
        first: Vec<(u8, u8)>,
        rec: Vec<(u8, u8)>,
    }

    impl ProverLagrangeInput<F, FRF> for TwoFaced {
        fn extrapolate_y_values<'a, const P: usize, const M: usize>(
            self,
            lagrange_table: &'a LagrangeTable<F, FRF, M>,
        ) -> impl Iterator<Item = ([F; P], [F; P])> + 'a
        where
            Self: 'a,
        {
            ProverTableIndices(self.first.into_iter()).extrapolate_y_values(lagrange_table)
        }

        fn eval_at_r<'a>(self, lagrange_table: &'a LagrangeTable<F, FRF, 1>) -> impl Iterator<Item = (F, F)> + 'a
        where
            Self: 'a,
        {
            ProverTableIndices(self.rec.into_iter()).eval_at_r(lagrange_table)
        }
    }

    #[derive(Debug, Clone, Default)]
    struct Obs {
        left: Vec<u128>,      // my_batch_left_shares (flattened)
        from_left: Vec<u128>, // shares_of_batch_from_left_prover (PRSS shares of the LEFT prover's proofs)
        p_mask_right: u128,   // p mask of the RIGHT prover
        q_mask_left: u128,    // q mask of the LEFT prover
        chs_right: Vec<u128>, // challenges for the RIGHT prover
        p_right: u128,        // p(r) of the RIGHT prover
        q_left: u128,         // q(r) of the LEFT prover
        ok: bool,             // verdict about the RIGHT prover
    }

    fn flat(b: &ProofBatch) -> Vec<u128> {
        b.first_proof.iter().chain(b.proofs.iter().flat_map(|p| p.iter())).map(|x| x.as_u128()).collect()
    }

    struct Views {
        first: Vec<(u8, u8)>,
        rec: Vec<(u8, u8)>,
        ul: Vec<u8>,
        vr: Vec<u8>,
    }

    /// base indices + deviation -> what the prover uses for the first proof / for the recursion and what its
    /// left / right verifier derive from their own records.
    fn views(us: &str, vs: &str, dev: &str) -> Views {
        let u: Vec<u8> = us.bytes().map(|b| b - b'0').collect();
        let v: Vec<u8> = vs.bytes().map(|b| b - b'0').collect();
        assert_eq!(u.len(), v.len(), "harness: index strings differ in length");
        let honest: Vec<(u8, u8)> = u.iter().copied().zip(v.iter().copied()).collect();
        let mut ul = u.clone();
        let mut rec = honest.clone();
        if dev != "-" {
            let (kind, pos) = dev.split_once(':').expect("dev");
            let pos: usize = pos.parse().unwrap();
            // the left verifier recorded a flipped z_right at `pos`: bit e (value 4) of its u index differs
            ul[pos] ^= 4;
            if kind == "two" {
                rec[pos].0 ^= 4;
            } else {
                assert_eq!(kind, "alt");
            }
        }
        Views { first: honest, rec, ul, vr: v }
    }

    async fn run(seed: u64, w: &Views) -> [Obs; 3] {
        let world = TestWorld::<crate::sharding::NotSharded>::with_config(&TestWorldConfig::default().with_seed(seed));
        let input = TwoFaced { first: w.first.clone(), rec: w.rec.clone() };
        let (input, ul, vr) = (&input, &w.ul, &w.vr);
        let m = w.first.len();
        world
            .semi_honest((), |ctx, ()| async move {
                let (my_left, from_left, p_mask_right, q_mask_left) =
                    ProofBatch::generate(&ctx.narrow("generate_batch"), RecordIdRange::ALL, input.clone());
                let mut o = Obs {
                    left: flat(&my_left),
                    from_left: flat(&from_left),
                    p_mask_right: p_mask_right.as_u128(),
                    q_mask_left: q_mask_left.as_u128(),
                    ..Obs::default()
                };
                let batch = BatchToVerify::generate_batch_to_verify(
                    ctx.narrow("generate_batch"),
                    RecordId::FIRST,
                    my_left,
                    from_left,
                    p_mask_right,
                    q_mask_left,
                )
                .await;
                let (chs_left, chs_right) = batch.generate_challenges(ctx.narrow("generate_hash"), RecordId::FIRST).await;
                o.chs_right = chs_right.iter().map(|x| x.as_u128()).collect();
                let (p, q) = batch.compute_p_and_q_r(
                    &chs_left,
                    &chs_right,
                    VerifierTableIndices { input: ul.iter().copied(), table: &TABLE_U },
                    VerifierTableIndices { input: vr.iter().copied(), table: &TABLE_V },
                );
                o.p_right = p.as_u128();
                o.q_left = q.as_u128();
                // as in `Batch::validate`: every multiplication contributes -1/2
                let sum_of_uv = F::truncate_from(u128::try_from(m).unwrap()) * F::MINUS_ONE_HALF;
                o.ok = batch
                    .verify(ctx.narrow("verify"), RecordId::FIRST, sum_of_uv, p, q, &chs_left, &chs_right)
                    .await
                    .is_ok();
                o
            })
            .await
    }

    /// the randomness concerning prover `pi`: PRSS shares of its proofs (held by its right verifier), its masks,
    /// its challenges (as derived by its left verifier).
    fn randomness(obs: &[Obs; 3], pi: usize) -> String {
        let (l, r) = ((pi + 2) % 3, (pi + 1) % 3);
        format!(
            "{} {} {} {}",
            nat_list(&obs[r].from_left),
            obs[l].p_mask_right,
            obs[r].q_mask_left,
            nat_list(&obs[l].chs_right)
        )
    }

    fn exec(req: &str) -> String {
        let t: Vec<&str> = req.split(' ').collect();
        let seed: u64 = t[1].parse().unwrap();
        let pi: usize = t[2].parse().unwrap();
        let w = views(t[3], t[4], t[5]);
        let obs = match block_on_timeout(120, run(seed, &w)) {
            Ok(o) => o,
            Err(e) => return e,
        };
        if randomness(&obs, pi) != t[6..10].join(" ") {
            return "randomness-differs-between-runs".into();
        }
        let (l, r) = ((pi + 2) % 3, (pi + 1) % 3);
        let v = |b: bool| if b { "ok" } else { "fail" };
        format!(
            "left={} p={} q={} v={} all={},{},{}",
            nat_list(&obs[pi].left),
            obs[l].p_right,
            obs[r].q_left,
            v(obs[l].ok),
            v(obs[0].ok),
            v(obs[1].ok),
            v(obs[2].ok)
        )
    }

    fn consistent_pair(rng: &mut Rng) -> (u8, u8) {
        loop {
            let (i, j) = (rng.below(8) as u8, rng.below(8) as u8);
            let (a, c, e) = (i & 1, (i >> 1) & 1, (i >> 2) & 1);
            let (b, d, f) = (j & 1, (j >> 1) & 1, (j >> 2) & 1);
            if e == (a & b) ^ (c & d) ^ f {
                return (i, j);
            }
        }
    }

    #[test]
    fn verif_c03_batch() {
        let _ = F::PRIME;
        run_suite(
            "c03_batch",
            |rng, thorough| {
                let mut out = vec![];
                // batch sizes around the powers of the recursion factor (4^k: the two-extra-iterations corner),
                // 3·4^k (largest size with k+1 compressed proofs) and random ones
                let mut sizes: Vec<usize> = vec![1, 2, 3, 4, 5, 11, 12, 13, 15, 16, 17, 47, 48, 49, 63, 64, 65, 191, 192, 193, 255, 256, 257, 1024];
                if thorough {
                    sizes.extend_from_slice(&[767, 768, 769, 1023, 1025, 3072, 3073, 4095, 4096, 4097, 16384]);
                    for _ in 0..40 {
                        sizes.push(1 + rng.usize_below(3000));
                    }
                } else {
                    for _ in 0..6 {
                        sizes.push(1 + rng.usize_below(700));
                    }
                }
                for (k, &m) in sizes.iter().enumerate() {
                    let pairs: Vec<(u8, u8)> = (0..m).map(|_| consistent_pair(rng)).collect();
                    let us: String = pairs.iter().map(|p| char::from(b'0' + p.0)).collect();
                    let vs: String = pairs.iter().map(|p| char::from(b'0' + p.1)).collect();
                    let pos = match k % 3 {
                        0 => 0,
                        1 => m - 1,
                        _ => rng.usize_below(m),
                    };
                    let mut devs = vec!["-".to_string(), format!("two:{pos}")];
                    if k % 2 == 0 || thorough {
                        devs.push(format!("alt:{pos}"));
                    }
                    for dev in devs {
                        let seed = rng.below(1 << 30);
                        let pi = rng.usize_below(3);
                        let w = views(&us, &vs, &dev);
                        // a panic / hang of the real code in this observation run must not take the suite down:
                        // the request is emitted without randomness and `exec` reports the panic for this input
                        let first = std::panic::catch_unwind(std::panic::AssertUnwindSafe(|| block_on_timeout(120, run(seed, &w))));
                        let rnd = match first {
                            Ok(Ok(obs)) => randomness(&obs, pi),
                            _ => "- 0 0 -".to_string(),
                        };
                        out.push(format!("c03.batch {seed} {pi} {us} {vs} {dev} {rnd}"));
                    }
                }
                out
            },
            exec,
        );
    }
}
