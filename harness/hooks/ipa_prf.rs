// Suites that need access to items private to protocol::ipa_prf (feature ipa-verif, test builds only).
//
// C03: c03_lagrange, c03_proof — the real CanonicalLagrangeDenominator / LagrangeTable / ProofGenerator /
// verifier functions of the private `malicious_security` module on Fp61BitPrime vectors.
mod c03_suites {
    use super::super::malicious_security::{
        lagrange::{CanonicalLagrangeDenominator, LagrangeTable},
        prover::{ProverLagrangeInput, ProverValues, SmallProofGenerator, UVValues},
        verifier::{VerifierTableIndices, compute_g_differences, recursively_compute_final_check},
    };
    use crate::{
        ff::{Field, Fp61BitPrime, PrimeField, U128Conversions},
        ipa_verif::proto::*,
        protocol::context::dzkp_field::{TABLE_U, TABLE_V},
        secret_sharing::SharedValue,
    };

    type F = Fp61BitPrime;
    const P: u128 = F::PRIME as u128;

    fn f(v: u128) -> F {
        assert!(v < P, "harness: non-canonical operand");
        F::truncate_from(v)
    }
    fn fl(s: &str) -> Vec<F> {
        parse_nat_list::<u128>(s).into_iter().map(f).collect()
    }
    fn show(xs: &[F]) -> String {
        nat_list(&xs.iter().map(|x| x.as_u128()).collect::<Vec<_>>())
    }
    fn arr<const N: usize>(xs: &[F]) -> [F; N] {
        <[F; N]>::try_from(xs.to_vec()).ok().expect("harness: wrong vector length")
    }

    fn lag_from<const N: usize, const M: usize>(ys: &[F]) -> String {
        let t = LagrangeTable::<F, N, M>::from(CanonicalLagrangeDenominator::<F, N>::new());
        show(&t.eval(&arr::<N>(ys)))
    }
    fn lag_at<const N: usize>(r: F, ys: &[F]) -> String {
        let d = CanonicalLagrangeDenominator::<F, N>::new();
        LagrangeTable::<F, N, 1>::new(&d, &r).eval(&arr::<N>(ys))[0].as_u128().to_string()
    }

    fn exec_lagrange(req: &str) -> String {
        let t: Vec<&str> = req.split(' ').collect();
        match t[1] {
            "from" => {
                let ys = fl(t[4]);
                match (t[2], t[3]) {
                    ("4", "3") => lag_from::<4, 3>(&ys),
                    ("7", "1") => lag_from::<7, 1>(&ys),
                    ("8", "7") => lag_from::<8, 7>(&ys),
                    ("32", "31") => lag_from::<32, 31>(&ys),
                    ("2", "1") => lag_from::<2, 1>(&ys),
                    ("1", "1") => lag_from::<1, 1>(&ys),
                    _ => panic!("harness: unsupported table shape"),
                }
            }
            "at" => {
                let r = f(t[3].parse().unwrap());
                let ys = fl(t[4]);
                match t[2] {
                    "1" => lag_at::<1>(r, &ys),
                    "2" => lag_at::<2>(r, &ys),
                    "4" => lag_at::<4>(r, &ys),
                    "7" => lag_at::<7>(r, &ys),
                    "8" => lag_at::<8>(r, &ys),
                    "32" => lag_at::<32>(r, &ys),
                    _ => panic!("harness: unsupported table width"),
                }
            }
            _ => panic!("harness: unknown request {req}"),
        }
    }

    fn elem(rng: &mut Rng, k: usize) -> u128 {
        match k % 7 {
            0 => 0,
            1 => 1,
            2 => P - 1,
            3 => P - 2,
            4 => 1 << 60,
            _ => rng.next_u128() % P,
        }
    }

    fn vec_of(rng: &mut Rng, n: usize, style: usize) -> Vec<u128> {
        (0..n)
            .map(|i| match style {
                0 => 0,
                1 => P - 1,
                2 => elem(rng, i),
                3 => (i as u128) % P,
                _ => rng.next_u128() % P,
            })
            .collect()
    }

    #[test]
    fn verif_c03_lagrange() {
        run_suite(
            "c03_lagrange",
            |rng, thorough| {
                let mut out = vec![];
                let reps = if thorough { 60 } else { 6 };
                for (n, m) in [(4usize, 3usize), (7, 1), (8, 7), (32, 31), (2, 1), (1, 1)] {
                    for style in 0..4 {
                        out.push(format!("c03.lagrange from {n} {m} {}", nat_list(&vec_of(rng, n, style))));
                    }
                    for _ in 0..reps {
                        out.push(format!("c03.lagrange from {n} {m} {}", nat_list(&vec_of(rng, n, 4))));
                    }
                }
                for n in [1usize, 2, 4, 7, 8, 32] {
                    // on-domain points (the row is a unit vector), just outside, extremes, random
                    let mut rs: Vec<u128> = (0..=(n as u128 + 1)).collect();
                    rs.extend_from_slice(&[P - 1, P - 2, 1 << 60, (P + 1) / 2]);
                    for _ in 0..reps {
                        rs.push(rng.next_u128() % P);
                    }
                    for (k, r) in rs.into_iter().enumerate() {
                        out.push(format!("c03.lagrange at {n} {r} {}", nat_list(&vec_of(rng, n, 1 + k % 4))));
                    }
                }
                out
            },
            exec_lagrange,
        );
    }

    fn uv_of(us: &[F], vs: &[F]) -> UVValues<F, 4> {
        us.iter().copied().zip(vs.iter().copied()).collect::<UVValues<F, 4>>()
    }

    fn exec_proof(req: &str) -> String {
        let t: Vec<&str> = req.split(' ').collect();
        match t[1] {
            "compute" => {
                let uv = uv_of(&fl(t[2]), &fl(t[3]));
                let table = LagrangeTable::<F, 4, 3>::from(CanonicalLagrangeDenominator::<F, 4>::new());
                show(&SmallProofGenerator::compute_proof_from_uv(uv.iter(), &table))
            }
            "next" => {
                let r = f(t[2].parse().unwrap());
                let uv = uv_of(&fl(t[3]), &fl(t[4]));
                let d = CanonicalLagrangeDenominator::<F, 4>::new();
                let table = LagrangeTable::<F, 4, 1>::new(&d, &r);
                let next: Vec<(F, F)> = ProverValues(uv.iter().copied()).eval_at_r(&table).collect();
                format!(
                    "{} {}",
                    show(&next.iter().map(|x| x.0).collect::<Vec<_>>()),
                    show(&next.iter().map(|x| x.1).collect::<Vec<_>>())
                )
            }
            "masks" => {
                let mut uv = uv_of(&fl(t[2]), &fl(t[3]));
                match uv.set_masks(f(t[4].parse().unwrap()), f(t[5].parse().unwrap())) {
                    Ok(()) => format!(
                        "ok {}",
                        uv.iter().map(|(u, v)| format!("{}/{}", show(u), show(v))).collect::<Vec<_>>().join(";")
                    ),
                    Err(_) => "err".into(),
                }
            }
            "gdiff" => {
                let first = arr::<7>(&fl(t[2]));
                let zk = fl(t[3]);
                let zkps: Vec<[F; 7]> = zk.chunks_exact(7).map(|c| arr::<7>(c)).collect();
                let chs = fl(t[4]);
                let d = compute_g_differences::<F, 7, 4, 7, 4>(
                    &first,
                    &zkps,
                    &chs,
                    f(t[5].parse().unwrap()),
                    f(t[6].parse().unwrap()),
                );
                show(&d)
            }
            "final" => {
                let table = if t[2] == "U" { &*TABLE_U } else { &*TABLE_V };
                let ds: Vec<u8> = if t[3] == "-" { vec![] } else { t[3].bytes().map(|b| b - b'0').collect() };
                let chs = fl(t[4]);
                recursively_compute_final_check::<F, 4>(
                    VerifierTableIndices { input: ds.into_iter(), table },
                    &chs,
                    f(t[5].parse().unwrap()),
                )
                .as_u128()
                .to_string()
            }
            _ => panic!("harness: unknown request {req}"),
        }
    }

    #[test]
    fn verif_c03_proof() {
        run_suite(
            "c03_proof",
            |rng, thorough| {
                let mut out = vec![];
                let reps = if thorough { 40 } else { 4 };
                // compute_proof_from_uv: lengths around the chunk size and around the accumulator's
                // deferred-reduction interval (64 chunks = 256 values), with extreme operands
                for n in [0usize, 1, 3, 4, 5, 8, 15, 16, 17, 252, 253, 256, 257, 260, 512, 513, 1024] {
                    for style in 0..5 {
                        if n > 300 && style > 1 && style < 4 {
                            continue;
                        }
                        out.push(format!(
                            "c03.proof compute {} {}",
                            nat_list(&vec_of(rng, n, style)),
                            nat_list(&vec_of(rng, n, if style == 0 { 4 } else { style }))
                        ));
                    }
                }
                for _ in 0..reps {
                    let n = 1 + rng.usize_below(40);
                    out.push(format!("c03.proof compute {} {}", nat_list(&vec_of(rng, n, 4)), nat_list(&vec_of(rng, n, 4))));
                }
                // next level
                for n in [1usize, 3, 4, 5, 16, 17, 64] {
                    for r in [0u128, 1, 3, 4, 5, P - 1, rng.next_u128() % P] {
                        out.push(format!("c03.proof next {r} {} {}", nat_list(&vec_of(rng, n, 4)), nat_list(&vec_of(rng, n, 2))));
                    }
                }
                // set_masks: allowed only with fewer than L values
                for n in [0usize, 1, 2, 3, 4, 5, 8] {
                    out.push(format!(
                        "c03.proof masks {} {} {} {}",
                        nat_list(&vec_of(rng, n, 4)),
                        nat_list(&vec_of(rng, n, 4)),
                        rng.next_u128() % P,
                        rng.next_u128() % P
                    ));
                }
                // compute_g_differences: 1..13 compressed proofs, matching and mismatching challenge counts
                for k in [1usize, 2, 3, 5, 13] {
                    for extra in [1usize, 0, 2] {
                        for style in [2usize, 4, 1] {
                            out.push(format!(
                                "c03.proof gdiff {} {} {} {} {}",
                                nat_list(&vec_of(rng, 7, style)),
                                nat_list(&vec_of(rng, 7 * k, style)),
                                nat_list(&vec_of(rng, k + extra, 4)),
                                elem(rng, style + k),
                                elem(rng, style + 1)
                            ));
                        }
                    }
                }
                out.push(format!("c03.proof gdiff {} - {} 0 0", nat_list(&vec_of(rng, 7, 4)), nat_list(&vec_of(rng, 1, 4))));
                out.push(format!("c03.proof gdiff {} {} - 0 0", nat_list(&vec_of(rng, 7, 4)), nat_list(&vec_of(rng, 7, 4))));
                // recursively_compute_final_check: lengths that fit / do not fit the number of challenges
                for tb in ["U", "V"] {
                    for (len, nch) in [
                        (1usize, 2usize), (3, 2), (4, 2), (0, 2), (3, 1), (4, 3), (12, 3), (15, 3), (16, 3), (16, 4), (17, 4),
                        (255, 5), (256, 5), (256, 6), (257, 6), (1023, 6), (1024, 7), (3, 14), (3, 15), (700, 7),
                    ] {
                        let ds: String = (0..len).map(|_| char::from(b'0' + (rng.below(8) as u8))).collect();
                        let ds = if ds.is_empty() { "-".to_string() } else { ds };
                        // challenges outside the interpolation domain, as hash_to_field guarantees; one inside too
                        let mut chs: Vec<u128> = (0..nch).map(|_| 4 + rng.next_u128() % (P - 4)).collect();
                        if len == 12 {
                            chs[0] = 2;
                        }
                        out.push(format!("c03.proof final {tb} {ds} {} {}", nat_list(&chs), rng.next_u128() % P));
                    }
                    for _ in 0..reps {
                        let len = 1 + rng.usize_below(60);
                        let mut nch = 2;
                        let mut l = len;
                        while l >= 4 {
                            l = (l + 3) / 4;
                            nch += 1;
                        }
                        let ds: String = (0..len).map(|_| char::from(b'0' + (rng.below(8) as u8))).collect();
                        let chs: Vec<u128> = (0..nch).map(|_| 4 + rng.next_u128() % (P - 4)).collect();
                        out.push(format!("c03.proof final {tb} {ds} {} {}", nat_list(&chs), rng.next_u128() % P));
                    }
                }
                out
            },
            exec_proof,
        );
    }
}
