// Suites that need access to items private to this module (feature ipa-verif, test builds only).
//
// ---- C05: sharded shuffle (sharded.rs / malicious.rs) ------------------------------------------
// Request grammar:
//   c05.e2e MODE BITS SHARDS DIST SEED ROWS
//       MODE = sh (ShardedShuffle on the semi-honest sharded context) | mal (… on the malicious one)
//       BITS = 32 | 64 | 112 (row type BA32/BA64/BA112), SHARDS = 1|2|3,
//       DIST = rr (round robin) | rnd (Random<0>) | last (all rows on the last shard) | first
//       ROWS = comma list of row values (decimal)
//     -> `ok consistent=1 rows=<sorted reconstructed rows>` | `err …` | `timeout` | `panic:…`
//   c05.card MODE 32 SHARDS DIST SEED N D12 D31 D23
//       the real shuffle of the N rows 1..=N; D12/D31/D23 = the PRSS destinations `pick_shard(i, direction)`
//       of the three permutation rounds as observed on the real contexts of a world with the same seed
//       (per shard a string of N digits, shards separated by `/`)
//     -> `ok h1=<rows per shard> h2=<…> h3=<…>` (output table sizes of the three helpers) | `err …`
//   c05.tags BITS KEYS ROWS EXPECT
//       KEYS = ⌈BITS/32⌉ revealed MAC keys (decimal Gf32Bit), ROWS = hex of serialized ShareAndTag rows,
//       EXPECT = Σ keyᵢ·wordᵢ + tag per row, computed by the generator with plain Gf32Bit operations
//     -> `ok <EXPECT>` iff compute_and_hash_tags(keys ‖ 1, rows) = hash(EXPECT), else `mismatch`
//   c05.addtags BITS SEED KEY ROWS   MPC compute_and_add_tags on shares of ROWS with the MAC key vector KEY
//     -> `ok <hex of reconstructed row‖tag>,…`
//   c05.tamper BITS SHARDS SEED NROWS ATTACKER GATE DEST BYTE MASK NTH
//       one helper (ATTACKER) xors MASK into byte BYTE (mod len) of the NTH-th non-empty stream chunk it sends
//       to DEST on a step whose gate contains GATE, on whatever shard that chunk occurs
//     -> `hit=<0|1> detected=<0|1>` (detected: some honest helper returned Err)
use std::sync::{
    Arc,
    atomic::{AtomicUsize, Ordering},
};

use generic_array::GenericArray;

use super::{
    ShardedShuffle,
    malicious::{compute_and_add_tags_for_verif as c05_compute_and_add_tags, c05_hash_tags},
};
use crate::{
    ff::{
        Field, Gf32Bit, Serializable, U128Conversions,
        boolean_array::{BA32, BA64, BA96, BA112, BA144},
    },
    helpers::{Direction, Role, hashing::compute_possibly_empty_hash, in_memory_config::MaliciousHelper},
    ipa_verif::proto::*,
    protocol::{RecordId, context::{Context as _, ShardedContext}, ipa_prf::shuffle::step::ShardedShuffleStep},
    secret_sharing::{SharedValue, replicated::{ReplicatedSecretSharing, semi_honest::AdditiveShare}},
    test_fixture::{
        Distribute, RandomInputDistribution, Reconstruct, RoundRobinInputDistribution, Runner,
        TestWorld, TestWorldConfig, WithShards,
    },
};

/// All rows on the last shard (every other shard starts empty).
pub struct C05LastShard;
impl Distribute for C05LastShard {
    fn distribute<const SHARDS: usize, A>(input: Vec<A>) -> [Vec<A>; SHARDS] {
        let mut r: [_; SHARDS] = std::array::from_fn(|_| Vec::new());
        r[SHARDS - 1] = input;
        r
    }
}

/// All rows on the first shard.
pub struct C05FirstShard;
impl Distribute for C05FirstShard {
    fn distribute<const SHARDS: usize, A>(input: Vec<A>) -> [Vec<A>; SHARDS] {
        let mut r: [_; SHARDS] = std::array::from_fn(|_| Vec::new());
        r[0] = input;
        r
    }
}

/// After a few hangs the remaining protocol runs of this process are not attempted any more (they are
/// reported as `timeout …`, which never equals a model answer), so a broken tree fails fast.
static C05_TIMEOUTS: AtomicUsize = AtomicUsize::new(0);

fn c05_run<F: std::future::Future<Output = String>>(secs: u64, fut: F) -> String {
    if C05_TIMEOUTS.load(Ordering::SeqCst) >= 3 {
        return "timeout (not run: three earlier cases hung)".into();
    }
    match block_on_timeout(secs, fut) {
        Ok(s) => s,
        Err(t) => {
            C05_TIMEOUTS.fetch_add(1, Ordering::SeqCst);
            t
        }
    }
}

fn c05_err_kind(e: &crate::error::Error) -> String {
    let s = format!("{e}");
    let k = if matches!(e, crate::error::Error::ShuffleValidationFailed(_)) {
        "shuffle-validation"
    } else {
        "other"
    };
    canon(&format!("{k}: {}", s.chars().take(60).collect::<String>()))
}

macro_rules! c05_e2e_impl {
    ($name:ident, $v:ty) => {
        async fn $name<const SHARDS: usize, D: Distribute>(malicious: bool, seed: u64, rows: Vec<u128>) -> String {
            let config = TestWorldConfig::default().with_seed(seed);
            let world = TestWorld::<WithShards<SHARDS, D>>::with_shards(config);
            let input: Vec<$v> = rows.iter().map(|&r| <$v>::truncate_from(r)).collect();
            let results: Vec<[Result<Vec<AdditiveShare<$v>>, crate::error::Error>; 3]> = if malicious {
                world
                    .malicious(input.into_iter(), |ctx, shares| async move { ctx.sharded_shuffle(shares).await })
                    .await
            } else {
                world
                    .semi_honest(input.into_iter(), |ctx, shares| async move { ctx.sharded_shuffle(shares).await })
                    .await
            };
            if results.len() != SHARDS {
                return format!("err wrong-shard-count {}", results.len());
            }
            let mut out: Vec<u128> = vec![];
            let mut consistent = true;
            for (s, per_helper) in results.iter().enumerate() {
                let mut tables: Vec<&Vec<AdditiveShare<$v>>> = vec![];
                for (h, r) in per_helper.iter().enumerate() {
                    match r {
                        Ok(t) => tables.push(t),
                        Err(e) => return format!("err shard{s}/H{} {}", h + 1, c05_err_kind(e)),
                    }
                }
                let n = tables[0].len();
                if tables[1].len() != n || tables[2].len() != n {
                    return format!("err shard{s} lengths {} {} {}", n, tables[1].len(), tables[2].len());
                }
                for i in 0..n {
                    let (a, b, c) = (&tables[0][i], &tables[1][i], &tables[2][i]);
                    if a.right() != b.left() || b.right() != c.left() || c.right() != a.left() {
                        consistent = false;
                    }
                    out.push((a.left() + a.right() + b.right()).as_u128());
                }
            }
            out.sort_unstable();
            format!("ok consistent={} rows={}", u8::from(consistent), nat_list(&out))
        }
    };
}

c05_e2e_impl!(c05_e2e_32, BA32);
c05_e2e_impl!(c05_e2e_64, BA64);
c05_e2e_impl!(c05_e2e_112, BA112);

macro_rules! c05_dispatch_e2e {
    ($f:ident, $shards:expr, $dist:expr, $mal:expr, $seed:expr, $rows:expr) => {
        match ($shards, $dist) {
            (1, "rr") => c05_run(30, $f::<1, RoundRobinInputDistribution>($mal, $seed, $rows)),
            (2, "rr") => c05_run(30, $f::<2, RoundRobinInputDistribution>($mal, $seed, $rows)),
            (3, "rr") => c05_run(30, $f::<3, RoundRobinInputDistribution>($mal, $seed, $rows)),
            (2, "rnd") => c05_run(30, $f::<2, RandomInputDistribution>($mal, $seed, $rows)),
            (3, "rnd") => c05_run(30, $f::<3, RandomInputDistribution>($mal, $seed, $rows)),
            (2, "last") => c05_run(30, $f::<2, C05LastShard>($mal, $seed, $rows)),
            (3, "last") => c05_run(30, $f::<3, C05LastShard>($mal, $seed, $rows)),
            (3, "first") => c05_run(30, $f::<3, C05FirstShard>($mal, $seed, $rows)),
            (s, d) => panic!("harness: unsupported shards/distribution {s}/{d}"),
        }
    };
}

/// `pick_shard(RecordId(i), direction)` for `i < nmax` on the three permutation steps, with the direction
/// this helper uses in `h{1,2,3}_shuffle_for_shard` (empty for the step it takes no part in).
fn c05_dests_of<C: ShardedContext>(ctx: &C, nmax: usize) -> Vec<Vec<u8>> {
    let plan: [Option<Direction>; 3] = match ctx.role() {
        Role::H1 => [Some(Direction::Right), Some(Direction::Left), None],
        Role::H2 => [Some(Direction::Left), None, Some(Direction::Right)],
        Role::H3 => [None, Some(Direction::Right), Some(Direction::Left)],
    };
    let steps = [ShardedShuffleStep::Permute12, ShardedShuffleStep::Permute31, ShardedShuffleStep::Permute23];
    plan.iter()
        .zip(steps.iter())
        .map(|(dir, step)| match dir {
            None => vec![],
            Some(d) => {
                let c = ctx.narrow(step);
                (0..nmax).map(|i| u8::try_from(u32::from(c.pick_shard(RecordId::from(i), *d))).unwrap()).collect()
            }
        })
        .collect()
}

/// Destinations `[round 12, 31, 23][shard][index]` of a world with this seed (its first protocol run).
async fn c05_probe_dests<const SHARDS: usize, D: Distribute>(malicious: bool, seed: u64, nmax: usize) -> [Vec<Vec<u8>>; 3] {
    let config = TestWorldConfig::default().with_seed(seed);
    let world = TestWorld::<WithShards<SHARDS, D>>::with_shards(config);
    let input: Vec<BA32> = vec![];
    let r: Vec<[Vec<Vec<u8>>; 3]> = if malicious {
        world
            .malicious(input.into_iter(), |ctx, _shares: Vec<AdditiveShare<BA32>>| async move { c05_dests_of(&ctx, nmax) })
            .await
    } else {
        world
            .semi_honest(input.into_iter(), |ctx, _shares: Vec<AdditiveShare<BA32>>| async move { c05_dests_of(&ctx, nmax) })
            .await
    };
    // round 12 and 31 as H1 sees them, round 23 as H2 sees it
    [
        r.iter().map(|per_helper| per_helper[0][0].clone()).collect(),
        r.iter().map(|per_helper| per_helper[0][1].clone()).collect(),
        r.iter().map(|per_helper| per_helper[1][2].clone()).collect(),
    ]
}

fn c05_route_shape(shape: &[usize], dest: &[Vec<u8>]) -> Vec<usize> {
    let mut out = vec![0usize; shape.len()];
    for (j, &n) in shape.iter().enumerate() {
        for i in 0..n {
            out[usize::from(dest[j][i])] += 1;
        }
    }
    out
}

/// Round-robin input of `n` rows on 2 shards whose shuffle output on some shard is exactly `target`
/// rows: searches `n` around `2·target` with the real PRSS destinations of a world seeded with `seed`.
fn c05_find_exact_output(malicious: bool, seed: u64, target: usize) -> Option<(usize, [Vec<Vec<u8>>; 3])> {
    let nmax = 2 * target + 800;
    let dests = block_on_timeout(60, c05_probe_dests::<2, RoundRobinInputDistribution>(malicious, seed, nmax)).ok()?;
    for k in 0..1600usize {
        let n = if k % 2 == 0 { 2 * target + k / 2 } else { 2 * target - k.div_ceil(2) };
        let input = [n.div_ceil(2), n / 2];
        let out = c05_route_shape(&c05_route_shape(&c05_route_shape(&input, &dests[0]), &dests[1]), &dests[2]);
        if out.contains(&target) {
            return Some((n, dests));
        }
    }
    None
}

fn c05_dest_token(d: &[Vec<u8>], n: usize) -> String {
    d.iter()
        .map(|v| v.iter().take(n).map(|&x| char::from(b'0' + x)).collect::<String>())
        .collect::<Vec<_>>()
        .join("/")
}

async fn c05_card_32<const SHARDS: usize, D: Distribute>(malicious: bool, seed: u64, n: usize) -> String {
    let config = TestWorldConfig::default().with_seed(seed);
    let world = TestWorld::<WithShards<SHARDS, D>>::with_shards(config);
    let input: Vec<BA32> = (0..n).map(|i| BA32::truncate_from(i as u128 + 1)).collect();
    let results: Vec<[Result<Vec<AdditiveShare<BA32>>, crate::error::Error>; 3]> = if malicious {
        world
            .malicious(input.into_iter(), |ctx, shares| async move { ctx.sharded_shuffle(shares).await })
            .await
    } else {
        world
            .semi_honest(input.into_iter(), |ctx, shares| async move { ctx.sharded_shuffle(shares).await })
            .await
    };
    let mut sizes: [Vec<usize>; 3] = [vec![], vec![], vec![]];
    for (s, per_helper) in results.iter().enumerate() {
        for (h, r) in per_helper.iter().enumerate() {
            match r {
                Ok(t) => sizes[h].push(t.len()),
                Err(e) => return format!("err shard{s}/H{} {}", h + 1, c05_err_kind(e)),
            }
        }
    }
    format!("ok h1={} h2={} h3={}", nat_list(&sizes[0]), nat_list(&sizes[1]), nat_list(&sizes[2]))
}

fn c05_exec_card(t: &[&str]) -> String {
    let mal = match t[1] {
        "sh" => false,
        "mal" => true,
        m => panic!("harness: unknown mode {m}"),
    };
    assert_eq!(t[2], "32", "harness: c05.card is instantiated for BA32");
    let seed: u64 = t[5].parse().unwrap();
    let n: usize = t[6].parse().unwrap();
    match (t[3], t[4]) {
        ("1", "rr") => c05_run(60, c05_card_32::<1, RoundRobinInputDistribution>(mal, seed, n)),
        ("2", "rr") => c05_run(60, c05_card_32::<2, RoundRobinInputDistribution>(mal, seed, n)),
        ("3", "rr") => c05_run(60, c05_card_32::<3, RoundRobinInputDistribution>(mal, seed, n)),
        ("2", "last") => c05_run(60, c05_card_32::<2, C05LastShard>(mal, seed, n)),
        ("3", "first") => c05_run(60, c05_card_32::<3, C05FirstShard>(mal, seed, n)),
        (s, d) => panic!("harness: unsupported shards/distribution {s}/{d}"),
    }
}

fn c05_exec_e2e(t: &[&str]) -> String {
    let mal = match t[1] {
        "sh" => false,
        "mal" => true,
        m => panic!("harness: unknown mode {m}"),
    };
    let shards: usize = t[3].parse().unwrap();
    let seed: u64 = t[5].parse().unwrap();
    let rows: Vec<u128> = parse_nat_list(t[6]);
    let r = match t[2] {
        "32" => c05_dispatch_e2e!(c05_e2e_32, shards, t[4], mal, seed, rows),
        "64" => c05_dispatch_e2e!(c05_e2e_64, shards, t[4], mal, seed, rows),
        "112" => c05_dispatch_e2e!(c05_e2e_112, shards, t[4], mal, seed, rows),
        b => panic!("harness: unsupported row width {b}"),
    };
    r
}

fn c05_gf(v: u32) -> Gf32Bit {
    Gf32Bit::truncate_from(u128::from(v))
}

macro_rules! c05_tags_impl {
    ($name:ident, $addname:ident, $v:ty, $vt:ty) => {
        fn $name(keys: &[u32], rows: &[Vec<u8>], expect: &[u32]) -> String {
            let mut k: Vec<Gf32Bit> = keys.iter().map(|&x| c05_gf(x)).collect();
            k.push(Gf32Bit::ONE); // as reveal_keys does
            let rows: Vec<$vt> = rows
                .iter()
                .map(|b| <$vt>::deserialize(GenericArray::from_slice(b)).unwrap())
                .collect();
            let h = c05_hash_tags::<AdditiveShare<$v>>(&k, rows);
            let want = compute_possibly_empty_hash(expect.iter().map(|&x| c05_gf(x)));
            if h == want { format!("ok {}", nat_list(expect)) } else { "mismatch".into() }
        }

        async fn $addname(seed: u64, key: u128, rows: Vec<u128>) -> String {
            let world = TestWorld::new_with(TestWorldConfig::default().with_seed(seed));
            let records: Vec<$v> = rows.iter().map(|&r| <$v>::truncate_from(r)).collect();
            let keys = <$v>::truncate_from(key);
            let rows_and_tags: Vec<$vt> = world
                .semi_honest((records.into_iter(), keys), |ctx, (row_shares, key_shares)| async move {
                    let mac_key: Vec<AdditiveShare<Gf32Bit>> =
                        super::MaliciousShuffleable::to_gf32bit(&key_shares).unwrap().collect::<Vec<_>>();
                    c05_compute_and_add_tags::<_, AdditiveShare<$v>>(ctx.narrow(&ShardedShuffleStep::GenerateTags), &mac_key, row_shares)
                        .await
                        .unwrap()
                })
                .await
                .reconstruct();
            let hexes: Vec<String> = rows_and_tags
                .iter()
                .map(|x| {
                    let mut buf = GenericArray::default();
                    x.serialize(&mut buf);
                    hex(&buf)
                })
                .collect();
            if hexes.is_empty() { "ok -".into() } else { format!("ok {}", hexes.join(",")) }
        }
    };
}

c05_tags_impl!(c05_tags_32, c05_addtags_32, BA32, BA64);
c05_tags_impl!(c05_tags_64, c05_addtags_64, BA64, BA96);
c05_tags_impl!(c05_tags_112, c05_addtags_112, BA112, BA144);

fn c05_hex_list(s: &str) -> Vec<Vec<u8>> {
    if s == "-" {
        return vec![];
    }
    s.split(',').map(unhex).collect()
}

fn c05_exec_tags(t: &[&str]) -> String {
    let keys: Vec<u32> = parse_nat_list(t[2]);
    let rows = c05_hex_list(t[3]);
    let expect: Vec<u32> = parse_nat_list(t[4]);
    match t[1] {
        "32" => c05_tags_32(&keys, &rows, &expect),
        "64" => c05_tags_64(&keys, &rows, &expect),
        "112" => c05_tags_112(&keys, &rows, &expect),
        b => panic!("harness: unsupported row width {b}"),
    }
}

fn c05_exec_addtags(t: &[&str]) -> String {
    let seed: u64 = t[2].parse().unwrap();
    let key: u128 = t[3].parse().unwrap();
    let rows: Vec<u128> = parse_nat_list(t[4]);
    let r = match t[1] {
        "32" => c05_run(30, c05_addtags_32(seed, key, rows)),
        "64" => c05_run(30, c05_addtags_64(seed, key, rows)),
        "112" => c05_run(30, c05_addtags_112(seed, key, rows)),
        b => panic!("harness: unsupported row width {b}"),
    };
    r
}

fn c05_role(s: &str) -> Role {
    match s {
        "H1" => Role::H1,
        "H2" => Role::H2,
        "H3" => Role::H3,
        r => panic!("harness: unknown role {r}"),
    }
}

macro_rules! c05_tamper_impl {
    ($name:ident, $v:ty) => {
        #[allow(clippy::too_many_arguments)]
        async fn $name<const SHARDS: usize>(seed: u64, nrows: usize, attacker: Role, gate: String, dest: Role, bytes: Vec<usize>, mask: u8, nth: usize) -> String {
            let mut rng = Rng(seed ^ 0xC05);
            let mut config = TestWorldConfig::default().with_seed(seed);
            let seen = Arc::new(AtomicUsize::new(0));
            let hits = Arc::new(AtomicUsize::new(0));
            let (seen2, hits2) = (Arc::clone(&seen), Arc::clone(&hits));
            config.stream_interceptor = MaliciousHelper::new(attacker, config.role_assignment(), move |ctx, data| {
                if ctx.gate.as_ref().contains(gate.as_str()) && ctx.dest == dest && !data.is_empty() {
                    let k = seen2.fetch_add(1, Ordering::SeqCst);
                    if k == nth {
                        // `b1+b2+…`: the same difference in several bytes of the message (correlated words of one row)
                        for byte in &bytes {
                            let i = byte % data.len();
                            data[i] ^= mask;
                        }
                        hits2.fetch_add(1, Ordering::SeqCst);
                    }
                }
            });
            let world = TestWorld::<WithShards<SHARDS, RandomInputDistribution>>::with_shards(config);
            let input: Vec<$v> = (0..nrows).map(|_| <$v>::truncate_from(rng.next_u128())).collect();
            let mut sorted_in: Vec<u128> = input.iter().map(|x| x.as_u128()).collect();
            sorted_in.sort_unstable();
            let results: Vec<[Result<Vec<AdditiveShare<$v>>, crate::error::Error>; 3]> = world
                .malicious(input.into_iter(), |ctx, shares| async move { ctx.sharded_shuffle(shares).await })
                .await;
            let mut honest_err = 0usize;
            let mut all_ok = true;
            for per_helper in &results {
                for (h, r) in per_helper.iter().enumerate() {
                    if r.is_err() {
                        all_ok = false;
                        if Role::all()[h] != attacker {
                            honest_err += 1;
                        }
                    }
                }
            }
            // when nothing was detected the output must be the untouched multiset
            let mut intact = 2u8; // 2 = not applicable
            if all_ok {
                let mut out: Vec<u128> = vec![];
                for per_helper in &results {
                    let t: Vec<&Vec<AdditiveShare<$v>>> = per_helper.iter().map(|r| r.as_ref().unwrap()).collect();
                    if t[0].len() == t[1].len() && t[1].len() == t[2].len() {
                        for i in 0..t[0].len() {
                            out.push((t[0][i].left() + t[0][i].right() + t[1][i].right()).as_u128());
                        }
                    }
                }
                out.sort_unstable();
                intact = u8::from(out == sorted_in);
            }
            let hit = hits.load(Ordering::SeqCst);
            if hit == 0 {
                format!("hit=0 detected={} intact={intact}", u8::from(honest_err > 0))
            } else {
                format!("hit=1 detected={}", u8::from(honest_err > 0))
            }
        }
    };
}

c05_tamper_impl!(c05_tamper_32, BA32);
c05_tamper_impl!(c05_tamper_64, BA64);
c05_tamper_impl!(c05_tamper_112, BA112);

fn c05_exec_tamper(t: &[&str]) -> String {
    let shards: usize = t[2].parse().unwrap();
    let seed: u64 = t[3].parse().unwrap();
    let nrows: usize = t[4].parse().unwrap();
    let attacker = c05_role(t[5]);
    let gate = t[6].to_string();
    let dest = c05_role(t[7]);
    let byte: Vec<usize> = t[8].split('+').map(|b| b.parse().unwrap()).collect();
    let mask: u8 = t[9].parse().unwrap();
    let nth: usize = t[10].parse().unwrap();
    macro_rules! go {
        ($f:ident) => {
            match shards {
                1 => c05_run(45, $f::<1>(seed, nrows, attacker, gate, dest, byte.clone(), mask, nth)),
                2 => c05_run(45, $f::<2>(seed, nrows, attacker, gate, dest, byte.clone(), mask, nth)),
                3 => c05_run(45, $f::<3>(seed, nrows, attacker, gate, dest, byte.clone(), mask, nth)),
                s => panic!("harness: unsupported shard count {s}"),
            }
        };
    }
    let r = match t[1] {
        "32" => go!(c05_tamper_32),
        "64" => go!(c05_tamper_64),
        "112" => go!(c05_tamper_112),
        b => panic!("harness: unsupported row width {b}"),
    };
    r
}

pub fn c05_exec(req: &str) -> String {
    let t: Vec<&str> = req.split(' ').collect();
    match t[0] {
        "c05.e2e" => c05_exec_e2e(&t),
        "c05.card" => c05_exec_card(&t),
        "c05.tags" => c05_exec_tags(&t),
        "c05.addtags" => c05_exec_addtags(&t),
        "c05.tamper" => c05_exec_tamper(&t),
        _ => panic!("harness: unknown request {req}"),
    }
}

// ------------------------------------------------------------------ generators

fn c05_max(bits: u32) -> u128 {
    (1u128 << bits) - 1
}

fn c05_rows(rng: &mut Rng, bits: u32, n: usize, style: u64) -> Vec<u128> {
    (0..n)
        .map(|i| match style {
            0 => 0,                               // all rows equal (zero)
            1 => c05_max(bits),                   // all ones
            2 => (i as u128 + 1) & c05_max(bits), // distinct small
            3 => if i % 2 == 0 { 5 } else { rng.next_u128() & c05_max(bits) }, // duplicates
            _ => rng.next_u128() & c05_max(bits),
        })
        .collect()
}

fn c05_gen_e2e(rng: &mut Rng, thorough: bool) -> Vec<String> {
    let mut out = vec![];
    let mut push = |mode: &str, bits: u32, shards: usize, dist: &str, seed: u64, rows: &[u128]| {
        out.push(format!("c05.e2e {mode} {bits} {shards} {dist} {seed} {}", nat_list(rows)));
    };
    // every row count 0..=3*shards for every shard count and distribution (incl. empty shards)
    for mode in ["sh", "mal"] {
        for (shards, dists) in [(1usize, &["rr"][..]), (2, &["rr", "rnd", "last"][..]), (3, &["rr", "rnd", "last", "first"][..])] {
            for dist in dists {
                for n in 0..=3 * shards {
                    let bits = [32u32, 64, 112][(n + shards) % 3];
                    let style = (n as u64 + shards as u64) % 5;
                    let rows = c05_rows(rng, bits, n, style);
                    push(mode, bits, shards, dist, rng.next_u64(), &rows);
                }
            }
        }
    }
    // chunk boundary of the tag computation (TAG_CHUNK = 32) and a few hundred rows
    for &(bits, shards, dist, n) in &[
        (32u32, 1usize, "rr", 31usize), (32, 1, "rr", 32), (32, 2, "rnd", 33), (64, 3, "rr", 64), (64, 2, "last", 65),
        (112, 3, "rnd", 96), (112, 3, "last", 97), (32, 3, "rnd", 300), (64, 2, "rr", 257), (112, 3, "rr", 200),
    ] {
        let rows = c05_rows(rng, bits, n, 4);
        push("mal", bits, shards, dist, rng.next_u64(), &rows);
        if thorough || n <= 65 || n == 300 {
            push("sh", bits, shards, dist, rng.next_u64(), &rows);
        }
    }
    // row counts around every power of two and around multiples of 4096 (table slices / stream chunks)
    // up to 2·4096 + 1 on ONE shard: the cardinality H2 announces to H1 is then exactly the row count
    for k in 1..=13u32 {
        for n in [(1usize << k) - 1, 1 << k, (1 << k) + 1] {
            if n <= 9 {
                continue; // covered above
            }
            let big = n >= 1000;
            let rows = c05_rows(rng, 32, n, if big { 2 } else { 4 });
            push("sh", 32, 1, "rr", rng.next_u64(), &rows);
            if thorough || !big || n == 4096 {
                push("mal", 32, 1, "rr", rng.next_u64(), &rows);
            }
        }
    }
    // the cardinality message against the model's routing, with the observed PRSS destinations: small
    // shapes on 1-3 shards, then 2 shards where one shard's OUTPUT is exactly 4096 rows (found by a search
    // over the row count with the real destinations of the world's seed)
    let mut extra: Vec<String> = vec![];
    let mut card = |mode: &str, shards: usize, dist: &str, seed: u64, n: usize, dests: Option<[Vec<Vec<u8>>; 3]>| {
        let mal = mode == "mal";
        let d = match dests {
            Some(d) => Some(d),
            None => match (shards, dist) {
                (1, "rr") => block_on_timeout(60, c05_probe_dests::<1, RoundRobinInputDistribution>(mal, seed, n)).ok(),
                (2, "rr") => block_on_timeout(60, c05_probe_dests::<2, RoundRobinInputDistribution>(mal, seed, n)).ok(),
                (3, "rr") => block_on_timeout(60, c05_probe_dests::<3, RoundRobinInputDistribution>(mal, seed, n)).ok(),
                (2, "last") => block_on_timeout(60, c05_probe_dests::<2, C05LastShard>(mal, seed, n)).ok(),
                (3, "first") => block_on_timeout(60, c05_probe_dests::<3, C05FirstShard>(mal, seed, n)).ok(),
                (s, d) => panic!("harness: unsupported shards/distribution {s}/{d}"),
            },
        };
        let d = d.expect("harness: destination probe did not complete");
        let tok = |r: &Vec<Vec<u8>>| if n == 0 { vec!["-"; shards].join("/") } else { c05_dest_token(r, n) };
        extra.push(format!("c05.card {mode} 32 {shards} {dist} {seed} {n} {} {} {}", tok(&d[0]), tok(&d[1]), tok(&d[2])));
    };
    for &(shards, dist, n) in &[(1usize, "rr", 0usize), (1, "rr", 5), (2, "rr", 1), (2, "rr", 9), (2, "last", 7), (3, "rr", 2), (3, "first", 10), (3, "rr", 100), (2, "rr", 1000)] {
        let seed = rng.next_u64();
        card("sh", shards, dist, seed, n, None);
        if thorough || n <= 10 {
            card("mal", shards, dist, rng.next_u64(), n, None);
        }
    }
    for mode in ["sh", "mal"] {
        if mode == "mal" && !thorough {
            continue;
        }
        let mut found = None;
        for _ in 0..4 {
            let seed = rng.next_u64();
            if let Some((n, dests)) = c05_find_exact_output(mode == "mal", seed, 4096) {
                found = Some((seed, n, dests));
                break;
            }
        }
        let (seed, n, dests) = found.expect("harness: no row count with a 4096-row shard output found");
        card(mode, 2, "rr", seed, n, Some(dests));
        let rows = c05_rows(rng, 32, n, 2);
        push(mode, 32, 2, "rr", seed, &rows);
    }
    for n in [3 * 4096usize, 1000, 10_000] {
        if thorough || n == 1000 {
            let rows = c05_rows(rng, 32, n, 2);
            push("sh", 32, 1, "rr", rng.next_u64(), &rows);
        }
    }
    for _ in 0..(if thorough { 200 } else { 30 }) {
        let bits = *rng.pick(&[32u32, 64, 112]);
        let shards = 1 + rng.usize_below(3);
        let dist = if shards == 1 { "rr" } else { *rng.pick(&["rr", "rnd", "last"]) };
        let n = rng.usize_below(if thorough { 500 } else { 120 });
        let style = rng.below(5);
        let rows = c05_rows(rng, bits, n, style);
        push(*rng.pick(&["sh", "mal"]), bits, shards, dist, rng.next_u64(), &rows);
    }
    out.extend(extra);
    out
}

fn c05_words(bits: u32) -> usize {
    (bits as usize).div_ceil(32)
}

/// Σ keyᵢ·wordᵢ + tag with plain `Gf32Bit` operations on the serialized row‖tag.
fn c05_val(bits: u32, keys: &[u32], row: &[u8]) -> u32 {
    let off = (bits as usize).div_ceil(8);
    let mut padded = row[..off].to_vec();
    while padded.len() % 4 != 0 {
        padded.push(0);
    }
    let mut acc = <Gf32Bit as SharedValue>::ZERO;
    for (i, k) in keys.iter().enumerate() {
        let w = u32::from_le_bytes(padded[4 * i..4 * i + 4].try_into().unwrap());
        acc += c05_gf(w) * c05_gf(*k);
    }
    let tag = u32::from_le_bytes(row[off..off + 4].try_into().unwrap());
    acc += c05_gf(tag);
    u32::try_from(acc.as_u128()).unwrap()
}

fn c05_gen_tags(rng: &mut Rng, thorough: bool) -> Vec<String> {
    let mut out = vec![];
    let special: [u32; 10] = [0, 1, 2, 3, 0x8000_0000, 0xffff_ffff, 0x8d, 0x1_0000, 0x7fff_ffff, 0x8000_008d];
    for bits in [32u32, 64, 112] {
        let nk = c05_words(bits);
        let len = (bits as usize).div_ceil(8) + 4;
        let mut cases: Vec<(Vec<u32>, Vec<Vec<u8>>)> = vec![];
        cases.push((vec![0; nk], vec![])); // empty table
        // single rows built from special words / keys
        for &k in &special {
            for &w in &special {
                let keys = vec![k; nk];
                let mut row = vec![];
                for j in 0..nk {
                    row.extend_from_slice(&(if j == 0 { w } else { w.rotate_left(j as u32) }).to_le_bytes());
                }
                row.truncate(len - 4);
                row.extend_from_slice(&(w ^ k).to_le_bytes());
                if bits == 112 {
                    // BA112 has no padding bits, nothing to clear
                }
                cases.push((keys, vec![row]));
            }
        }
        for _ in 0..(if thorough { 400 } else { 40 }) {
            let keys: Vec<u32> = (0..nk).map(|_| if rng.below(5) == 0 { *rng.pick(&special) } else { rng.next_u64() as u32 }).collect();
            let n = rng.usize_below(6);
            let rows: Vec<Vec<u8>> = (0..n).map(|_| rng.bytes(len)).collect();
            cases.push((keys, rows));
        }
        // a larger table
        {
            let keys: Vec<u32> = (0..nk).map(|_| rng.next_u64() as u32).collect();
            let rows: Vec<Vec<u8>> = (0..70).map(|_| rng.bytes(len)).collect();
            cases.push((keys, rows));
        }
        for (keys, rows) in cases {
            let expect: Vec<u32> = rows.iter().map(|r| c05_val(bits, &keys, r)).collect();
            let rows_s = if rows.is_empty() { "-".to_string() } else { rows.iter().map(|r| hex(r)).collect::<Vec<_>>().join(",") };
            out.push(format!("c05.tags {bits} {} {rows_s} {}", nat_list(&keys), nat_list(&expect)));
        }
        // MPC tag generation
        for &n in &[1usize, 2, 31, 32, 33] {
            if !thorough && n > 2 && bits != 32 {
                continue;
            }
            let rows = c05_rows(rng, bits, n, 4);
            out.push(format!("c05.addtags {bits} {} {} {}", rng.next_u64(), rng.next_u128() & c05_max(bits), nat_list(&rows)));
        }
        out.push(format!("c05.addtags {bits} {} {} {}", rng.next_u64(), c05_max(bits), nat_list(&[0u128, c05_max(bits), 1])));
    }
    out
}

fn c05_gen_tamper(rng: &mut Rng, thorough: bool) -> Vec<String> {
    let mut out = vec![];
    // (attacker, gate, dest): every inter-helper shuffle message
    let attacks: [(&str, &str, &str); 8] = [
        ("H1", "transfer_x_y", "H2"),   // x2
        ("H2", "transfer_x_y", "H3"),   // y1
        ("H2", "transfer_c", "H3"),     // c1
        ("H3", "transfer_c", "H2"),     // c2
        ("H2", "cardinality", "H1"),    // size of C
        ("H3", "hashes_h3", "H1"),
        ("H3", "hash_h3", "H2"),
        ("H2", "hash_h2", "H1"),
    ];
    let mut push = |bits: u32, shards: usize, seed: u64, n: usize, a: (&str, &str, &str), byte: usize, mask: u8, nth: usize| {
        out.push(format!("c05.tamper {bits} {shards} {seed} {n} {} {} {} {byte} {mask} {nth}", a.0, a.1, a.2));
    };
    for (j, a) in attacks.iter().enumerate() {
        for shards in [1usize, 2, 3] {
            if !thorough && shards == 2 && j % 2 == 1 {
                continue;
            }
            let bits = [32u32, 64, 112][(j + shards) % 3];
            let n = [40usize, 3, 1, 100][(j + shards) % 4];
            let is_card = a.1 == "cardinality";
            let byte = if is_card { 0 } else { rng.usize_below(64) };
            let mask = if is_card { 1 << rng.below(3) } else { 1u8 << rng.below(8) };
            push(bits, shards, rng.next_u64(), n, *a, byte, mask, 0);
        }
    }
    // tag bytes vs row bytes, later chunks, empty input (nothing to alter except the cardinality word)
    for a in &attacks[..4] {
        push(32, 3, rng.next_u64(), 60, *a, 4, 0x80, 0); // first byte of the tag of the first row (BA64 = row‖tag)
        push(32, 3, rng.next_u64(), 60, *a, 11, 0x01, 0); // second row of the first chunk, if present
        push(32, 2, rng.next_u64(), 0, *a, 0, 1, 0);
    }
    push(32, 2, rng.next_u64(), 0, attacks[4], 0, 1, 0);
    push(64, 3, rng.next_u64(), 0, attacks[4], 0, 2, 0);
    drop(push);
    // the same difference in two (three) 32-bit words of ONE row: detected only if the words have independent MAC keys.
    // Row layout in a table message: row bytes, then the 4-byte tag (BA64: 8+4, BA112: 14+4).
    for (j, a) in attacks[..4].iter().enumerate() {
        for (bits, bytes) in [(64u32, "0+4"), (64, "3+7"), (112, "0+4"), (112, "1+9"), (112, "4+8+12"), (112, "0+12")] {
            for shards in [1usize, 3] {
                if !thorough && (j + shards + bytes.len() + bits as usize / 16) % 2 == 1 {
                    continue;
                }
                let mask = 1u8 << rng.below(8);
                out.push(format!("c05.tamper {bits} {shards} {} {} {} {} {} {bytes} {mask} 0", rng.next_u64(), [5usize, 40][j % 2], a.0, a.1, a.2));
            }
        }
    }
    let mut push = |bits: u32, shards: usize, seed: u64, n: usize, a: (&str, &str, &str), byte: usize, mask: u8, nth: usize| {
        out.push(format!("c05.tamper {bits} {shards} {seed} {n} {} {} {} {byte} {mask} {nth}", a.0, a.1, a.2));
    };
    for _ in 0..(if thorough { 150 } else { 20 }) {
        let a = *rng.pick(&attacks[..4]);
        let bits = *rng.pick(&[32u32, 64, 112]);
        push(bits, 1 + rng.usize_below(3), rng.next_u64(), 1 + rng.usize_below(80), a, rng.usize_below(200), 1 << rng.below(8), 0);
    }
    out
}

#[test]
fn verif_c05_e2e() {
    run_suite("c05_e2e", c05_gen_e2e, c05_exec);
}

#[test]
fn verif_c05_tags() {
    run_suite("c05_tags", c05_gen_tags, c05_exec);
}

#[test]
fn verif_c05_tamper() {
    run_suite("c05_tamper", c05_gen_tamper, c05_exec);
}
