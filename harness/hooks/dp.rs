// Suites that need access to items private to this module (feature ipa-verif, test builds only).

// ---------------------------------------------------------------- C12 (privacy noise): accessors for private items
// of `protocol::dp` (`ShiftedTruncatedDiscreteLaplace`, `MAX_EPSILON`).

use crate::ipa_verif::c12::ScriptRng as C12ScriptRng;

pub fn c12_max_epsilon() -> f64 {
    super::MAX_EPSILON
}

/// `ShiftedTruncatedDiscreteLaplace::new(params, bit_size)` then `sample_shares::<_, OV>` with the scripted RNG.
/// Returns `(shift, sample drawn, left, right, u64s consumed)`.
pub fn c12_sample_shares(
    epsilon: f64,
    delta: f64,
    cap: u32,
    bit_size: u32,
    ov_bits: u32,
    dir_left: bool,
    script: Vec<u64>,
) -> Result<(u32, u128, u128, usize), String> {
    use crate::{
        ff::{
            U128Conversions,
            boolean_array::{BA3, BA8, BA16, BA20, BA32, BA64},
        },
        helpers::Direction,
        secret_sharing::replicated::ReplicatedSecretSharing,
    };
    let params = super::NoiseParams {
        epsilon,
        delta,
        per_user_credit_cap: cap,
        ..Default::default()
    };
    let d = super::ShiftedTruncatedDiscreteLaplace::new(&params, bit_size).map_err(|e| format!("{e:?}"))?;
    let mut rng = C12ScriptRng { script, pos: 0 };
    let dir = if dir_left { Direction::Left } else { Direction::Right };
    macro_rules! go {
        ($OV:ty) => {{
            let s: super::Replicated<$OV> = d.sample_shares(&mut rng, dir);
            (s.left().as_u128(), s.right().as_u128())
        }};
    }
    let (l, r) = match ov_bits {
        3 => go!(BA3),
        8 => go!(BA8),
        16 => go!(BA16),
        20 => go!(BA20),
        32 => go!(BA32),
        64 => go!(BA64),
        w => panic!("harness: no OV of {w} bits"),
    };
    Ok((d.shift, l, r, rng.pos))
}

/// requests that need private items of `protocol::dp`
pub fn c12_exec_private(req: &str) -> String {
    use crate::ipa_verif::proto::parse_nat_list;
    let t: Vec<&str> = req.split(' ').collect();
    let f = |s: &str| f64::from_bits(s.parse::<u64>().unwrap());
    match t[0] {
        "c12.maxeps" => c12_max_epsilon().to_bits().to_string(),
        "c12.shares" => {
            let (eps, delta, cap) = (f(t[1]), f(t[2]), t[3].parse::<u32>().unwrap());
            let (bit_size, ov_bits) = (t[7].parse::<u32>().unwrap(), t[8].parse::<u32>().unwrap());
            let script: Vec<u64> = parse_nat_list(t[10]);
            let dir_left = t[9] == "L";
            match crate::ipa_verif::c12::with_deadline(10, move || c12_sample_shares(eps, delta, cap, bit_size, ov_bits, dir_left, script)) {
                None => "timeout".into(),
                Some(Ok((shift, l, r, used))) => format!("{shift} {l} {r} {used}"),
                Some(Err(e)) => format!("err {}", e.split('(').next().unwrap()),
            }
        }
        _ => panic!("harness: unknown request {req}"),
    }
}

#[test]
fn verif_c12_shares() {
    crate::ipa_verif::proto::run_suite(
        "c12_shares",
        |rng, th| {
            let mut o = vec!["c12.maxeps".to_string()];
            crate::ipa_verif::c12::gen_shares(rng, th, &mut o);
            o
        },
        c12_exec_private,
    );
}
