// Suites that need access to items private to protocol::context::dzkp_validator (feature ipa-verif, test builds only).
//
// C03: c03_store — the real Batch::push / insert_segment_small / insert_segment_large; block dump vs model.
mod c03_store {
    use bitvec::prelude::{BitVec, Lsb0};
    use ipa_step::StepNarrow;

    use super::super::{Batch, Segment, SegmentEntry};
    use crate::{
        ipa_verif::proto::*,
        protocol::{Gate, RecordId},
    };

    fn exec(req: &str) -> String {
        let t: Vec<&str> = req.split(' ').collect();
        let first = if t[1] == "-" { None } else { Some(RecordId::from(t[1].parse::<usize>().unwrap())) };
        let max: usize = t[2].parse().unwrap();
        let mut batch = Batch::new(first, max);
        for op in t[3].split(';') {
            let f: Vec<&str> = op.split(':').collect();
            let gate = Gate::default().narrow(f[0]);
            let record: usize = f[1].parse().unwrap();
            let width: usize = f[2].parse().unwrap();
            let bvs: Vec<BitVec<u8, Lsb0>> = f[3]
                .split('.')
                .map(|h| {
                    let mut bv = BitVec::<u8, Lsb0>::from_vec(unhex(h));
                    bv.truncate(width);
                    assert_eq!(bv.len(), width, "harness: not enough bytes for the width");
                    bv
                })
                .collect();
            let e = |i: usize| SegmentEntry::from_bitslice(&bvs[i]);
            let segment = Segment::from_entries(e(0), e(1), e(2), e(3), e(4), e(5), e(6));
            batch.push(gate, RecordId::from(record), segment);
        }
        let mut out = format!("n={} e={}", batch.get_number_of_multiplications(), u8::from(batch.is_empty()));
        for (g, store) in &batch.inner {
            let name = g.as_ref().rsplit('/').next().unwrap().to_string();
            let blocks: Vec<String> = store
                .vec
                .iter()
                .map(|b| {
                    [&b.x_left, &b.x_right, &b.y_left, &b.y_right, &b.prss_left, &b.prss_right, &b.z_right]
                        .iter()
                        .map(|a| hex(a.as_raw_slice()))
                        .collect::<Vec<_>>()
                        .join(".")
                })
                .collect();
            out.push_str(&format!(" {name}={}", if blocks.is_empty() { "-".to_string() } else { blocks.join("|") }));
        }
        out
    }

    fn seg(rng: &mut Rng, width: usize, style: usize) -> String {
        let nbytes = width.div_ceil(8);
        (0..7)
            .map(|k| {
                let mut b: Vec<u8> = match style {
                    0 => vec![0xff; nbytes],
                    1 => vec![0; nbytes],
                    2 => vec![if k % 2 == 0 { 0xaa } else { 0x55 }; nbytes],
                    _ => rng.bytes(nbytes),
                };
                // clear the bits above `width` so that the request is canonical
                if width % 8 != 0 {
                    let last = nbytes - 1;
                    b[last] &= (1u8 << (width % 8)) - 1;
                }
                hex(&b)
            })
            .collect::<Vec<_>>()
            .join(".")
    }

    #[test]
    fn verif_c03_store() {
        run_suite(
            "c03_store",
            |rng, thorough| {
                let mut out = vec![];
                let widths = [1usize, 2, 3, 4, 5, 7, 8, 16, 20, 32, 33, 64, 100, 128, 129, 200, 255, 256, 512, 768];
                for &w in &widths {
                    let per_block = if w < 256 { 256 / w.next_power_of_two() } else { 1 };
                    // in order, all ones: fills one block exactly, then spills into the next
                    let n = (per_block + 1).min(40);
                    let ops: Vec<String> = (0..n).map(|r| format!("g:{r}:{w}:{}", seg(rng, w, 0))).collect();
                    out.push(format!("c03.store - {} {}", n, ops.join(";")));
                    // out of order, random content, implicit first record = first pushed
                    let mut ids: Vec<usize> = (0..n.min(9)).collect();
                    rng.shuffle(&mut ids);
                    let ops: Vec<String> = ids.iter().map(|r| format!("g:{}:{w}:{}", r + 5, seg(rng, w, 3))).collect();
                    out.push(format!("c03.store 5 64 {}", ops.join(";")));
                    // a late record first: gap blocks must stay zero; overwrite of the same record
                    let far = 3 * per_block + 1;
                    out.push(format!(
                        "c03.store 0 1000 g:{far}:{w}:{};g:0:{w}:{};g:{far}:{w}:{}",
                        seg(rng, w, 0), seg(rng, w, 2), seg(rng, w, 3)
                    ));
                    // range checks: before the first record, at and beyond first + max
                    out.push(format!("c03.store 4 2 g:3:{w}:{}", seg(rng, w, 3)));
                    out.push(format!("c03.store 4 2 g:5:{w}:{}", seg(rng, w, 3)));
                    out.push(format!("c03.store 4 2 g:6:{w}:{}", seg(rng, w, 3)));
                    out.push(format!("c03.store - 2 g:9:{w}:{};g:8:{w}:{}", seg(rng, w, 3), seg(rng, w, 3)));
                    out.push(format!("c03.store - 2 g:9:{w}:{};g:10:{w}:{};g:11:{w}:{}", seg(rng, w, 3), seg(rng, w, 3), seg(rng, w, 3)));
                }
                // several gates with different widths; gate order in the dump is the map order
                for _ in 0..(if thorough { 200 } else { 20 }) {
                    let ngates = 1 + rng.usize_below(3);
                    let ws: Vec<usize> = (0..ngates).map(|_| *rng.pick(&widths)).collect();
                    let nops = 1 + rng.usize_below(8);
                    let ops: Vec<String> = (0..nops)
                        .map(|_| {
                            let g = rng.usize_below(ngates);
                            format!("{}:{}:{}:{}", ["zz", "a", "m"][g], rng.usize_below(12), ws[g], seg(rng, ws[g], 3))
                        })
                        .collect();
                    out.push(format!("c03.store 0 12 {}", ops.join(";")));
                }
                // a gate used with two different widths: the debug assertion fires; invalid width 300
                out.push(format!("c03.store 0 4 g:0:8:{};g:1:16:{}", seg(rng, 8, 3), seg(rng, 16, 3)));
                out.push(format!("c03.store 0 4 g:0:300:{}", seg(rng, 300, 3)));
                out
            },
            exec,
        );
    }
}

// C03: c03_vstore — the tables of the REAL `MaliciousDZKPValidator` (created through `ctx.dzkp_validator`), filled
// through the real `DZKPUpgraded::push` from contexts narrowed to different gates, in a scripted order.
//
//   c03.vstore <rpb|max> <total|-> <op>;<op>;…
//     op = gate:record:width:f0.….f6   push that segment from the context of that gate
//        | v<record>                   ctx.validate_record(record), polled once (`ok`, `pend`, `err:<kind>`)
//   response: `<v outcomes joined by , or -> | x:<first_batch>:<slot> / <slot> … | drop=<ok|unsafe>`
//     slot = `N` (validated out of order) or `f=<first_record|-> n=<multiplications> e=<0|1> <gate>=<blocks>…`
//     (the block dump of c03_store). A panic of a push or of validate_record is the whole response.
// Nothing is ever sent: only empty batches are completed (`Batch::validate` returns at once for them), so one
// helper's context is enough.
mod c03_vstore {
    use std::{
        future::Future,
        pin::Pin,
        task::{Context as TaskCtx, Poll},
    };

    use bitvec::prelude::{BitVec, Lsb0};

    use super::super::{Batch, DZKPValidator, Segment, SegmentEntry};
    use crate::{
        error::Error,
        ipa_verif::proto::*,
        protocol::{
            RecordId,
            context::{Context, DZKPContext, MaliciousContext, TEST_DZKP_STEPS, UpgradableContext},
        },
        sharding::NotSharded,
        test_fixture::TestWorld,
    };

    type Fut<'a> = Pin<Box<dyn Future<Output = Result<(), Error>> + Send + 'a>>;

    pub(super) fn dump_batch(b: &Batch) -> String {
        let mut out = format!(
            "f={} n={} e={}",
            b.first_record.map_or("-".to_string(), |r| usize::from(r).to_string()),
            b.get_number_of_multiplications(),
            u8::from(b.is_empty())
        );
        for (g, store) in &b.inner {
            let name = g.as_ref().rsplit('/').next().unwrap().to_string();
            let blocks: Vec<String> = store
                .vec
                .iter()
                .map(|b| {
                    [&b.x_left, &b.x_right, &b.y_left, &b.y_right, &b.prss_left, &b.prss_right, &b.z_right]
                        .iter()
                        .map(|a| hex(a.as_raw_slice()))
                        .collect::<Vec<_>>()
                        .join(".")
                })
                .collect();
            out.push_str(&format!(" {name}={}", if blocks.is_empty() { "-".to_string() } else { blocks.join("|") }));
        }
        out
    }

    fn exec(base: MaliciousContext<'_, NotSharded>, req: &str) -> String {
        let t: Vec<&str> = req.split(' ').collect();
        let rpb: usize = if t[1] == "max" { usize::MAX } else { t[1].parse().unwrap() };
        let base = if t[2] == "-" { base } else { base.set_total_records(t[2].parse::<usize>().unwrap()) };
        let validator = base.dzkp_validator(TEST_DZKP_STEPS, rpb);
        let ctx = validator.context();
        let mut futs: Vec<Fut<'_>> = vec![];
        let mut outs: Vec<String> = vec![];
        for op in t[3].split(';') {
            if let Some(r) = op.strip_prefix('v') {
                let mut f: Fut<'_> = ctx.validate_record(RecordId::from(r.parse::<usize>().unwrap()));
                let mut cx = TaskCtx::from_waker(futures::task::noop_waker_ref());
                match f.as_mut().poll(&mut cx) {
                    Poll::Pending => {
                        futs.push(f);
                        outs.push("pend".into());
                    }
                    Poll::Ready(Ok(())) => outs.push("ok".into()),
                    Poll::Ready(Err(Error::MissingTotalRecords(_))) => outs.push("err:missing-total".into()),
                    Poll::Ready(Err(Error::RecordIdOutOfRange { .. })) => outs.push("err:out-of-range".into()),
                    Poll::Ready(Err(e)) => outs.push(format!("err:{}", canon(&format!("{e:?}")).replace(' ', "_"))),
                }
                continue;
            }
            let f: Vec<&str> = op.split(':').collect();
            let record: usize = f[1].parse().unwrap();
            let width: usize = f[2].parse().unwrap();
            let bvs: Vec<BitVec<u8, Lsb0>> = f[3]
                .split('.')
                .map(|h| {
                    let mut bv = BitVec::<u8, Lsb0>::from_vec(unhex(h));
                    bv.truncate(width);
                    assert_eq!(bv.len(), width, "harness: not enough bytes for the width");
                    bv
                })
                .collect();
            let e = |i: usize| SegmentEntry::from_bitslice(&bvs[i]);
            let segment = Segment::from_entries(e(0), e(1), e(2), e(3), e(4), e(5), e(6));
            ctx.narrow(f[0]).push(RecordId::from(record), segment);
        }
        let state = validator
            .inner_ref
            .as_ref()
            .unwrap()
            .batcher
            .lock()
            .unwrap()
            .ipa_verif_state(dump_batch);
        // `x:<first_batch>:<slot>/<slot>…`, slot = `N` | `<payload>.<pending_count>.<bitmap len>.<set bits>`:
        // keep the payload only (the pending bookkeeping belongs to C16)
        let mut it = state.splitn(3, ':');
        let (x, first_batch, slots) = (it.next().unwrap(), it.next().unwrap(), it.next().unwrap());
        let slots: Vec<String> = slots
            .split('/')
            .map(|s| if s == "N" || s == "-" { s.to_string() } else { s.rsplitn(4, '.').last().unwrap().to_string() })
            .collect();
        drop(futs);
        let dropped = match guarded(move || drop(validator)) {
            Ok(()) => "ok".to_string(),
            Err(p) if p.contains("ContextUnsafe") => "unsafe".to_string(),
            Err(p) => p,
        };
        format!(
            "{} | {x}:{first_batch}:{} | drop={dropped}",
            if outs.is_empty() { "-".to_string() } else { outs.join(",") },
            slots.join(" / ")
        )
    }

    fn seg(rng: &mut Rng, width: usize) -> String {
        let nbytes = width.div_ceil(8);
        (0..7)
            .map(|_| {
                let mut b = rng.bytes(nbytes);
                if width % 8 != 0 {
                    let last = nbytes - 1;
                    b[last] &= (1u8 << (width % 8)) - 1;
                }
                // never all-zero, so that a misplaced or lost segment shows
                b[0] |= 1;
                hex(&b)
            })
            .collect::<Vec<_>>()
            .join(".")
    }

    const GATES: [&str; 3] = ["a", "m", "zz"];

    /// pushes of `records` for `ngates` gates; `order(batch-local list)` decides the order per gate
    fn pushes(rng: &mut Rng, records: &[usize], ngates: usize, widths: &[usize]) -> Vec<String> {
        let mut out = vec![];
        for g in 0..ngates {
            for &r in records {
                out.push(format!("{}:{r}:{}:{}", GATES[g], widths[g], seg(rng, widths[g])));
            }
        }
        out
    }

    fn generate(rng: &mut Rng, thorough: bool) -> Vec<String> {
        let mut out = vec![];
        let width_sets: [[usize; 3]; 6] = [[1, 8, 256], [3, 64, 512], [8, 3, 20], [64, 256, 1], [256, 1, 33], [512, 5, 128]];
        for (k, ws) in width_sets.iter().enumerate() {
            for &rpb in &[2usize, 4, 8] {
                let ngates = 1 + (k + rpb) % 3;
                // batch 0 only, backwards: the smallest case in which the anchor matters
                let mut recs: Vec<usize> = (0..rpb).rev().collect();
                out.push(format!("c03.vstore {rpb} - {}", pushes(rng, &recs, ngates, ws).join(";")));
                // second record first, then in order (what a racing multiplication produces)
                recs = (0..rpb).collect();
                recs.swap(0, 1);
                out.push(format!("c03.vstore {rpb} {} {}", 2 * rpb, pushes(rng, &recs, ngates, ws).join(";")));
                // three batches, the last one partial; every gate and batch in its own random order
                let total = 2 * rpb + 1 + rng.usize_below(rpb - 1);
                let mut ops = vec![];
                for b in 0..3 {
                    for g in 0..ngates {
                        let mut recs: Vec<usize> = (b * rpb..((b + 1) * rpb).min(total)).collect();
                        rng.shuffle(&mut recs);
                        for r in recs {
                            ops.push(format!("{}:{r}:{}:{}", GATES[g], ws[g], seg(rng, ws[g])));
                        }
                    }
                }
                out.push(format!("c03.vstore {rpb} {total} {}", ops.join(";")));
                // the same records, batches and gates interleaved by one global shuffle
                let mut ops = pushes(rng, &(0..total).collect::<Vec<_>>(), ngates, ws);
                rng.shuffle(&mut ops);
                out.push(format!("c03.vstore {rpb} {total} {}", ops.join(";")));
                // later batches first (batch 2, then 1, then 0), each backwards
                let mut ops = vec![];
                for b in (0..3).rev() {
                    let recs: Vec<usize> = (b * rpb..((b + 1) * rpb).min(total)).rev().collect();
                    ops.extend(pushes(rng, &recs, ngates, ws));
                }
                out.push(format!("c03.vstore {rpb} {total} {}", ops.join(";")));
                // batch 0 validated while empty (the deque then starts at batch 1): batch 1 and 2 out of order
                let mut ops: Vec<String> = (0..rpb).map(|r| format!("v{r}")).collect();
                let mut later = pushes(rng, &(rpb..total).collect::<Vec<_>>(), ngates, ws);
                rng.shuffle(&mut later);
                ops.extend(later);
                out.push(format!("c03.vstore {rpb} {total} {}", ops.join(";")));
                // batch 1 validated while empty BEFORE batch 0 (slot taken out of order), then batch 2 and 0 backwards
                let mut ops: Vec<String> = (rpb..2 * rpb).map(|r| format!("v{r}")).collect();
                ops.extend(pushes(rng, &(2 * rpb..total).rev().collect::<Vec<_>>(), ngates, ws));
                ops.extend(pushes(rng, &(0..rpb).rev().collect::<Vec<_>>(), ngates, ws));
                out.push(format!("c03.vstore {rpb} {total} {}", ops.join(";")));
            }
            // single-shot validators (no explicit anchor): lowest record first, the rest shuffled
            let n = 5 + k;
            let mut recs: Vec<usize> = (1..n).collect();
            rng.shuffle(&mut recs);
            recs.insert(0, 0);
            out.push(format!("c03.vstore max {n} {}", pushes(rng, &recs, 2, ws).join(";")));
            // … and anchored at a record other than 0 (the aggregation protocol's later chunks)
            let recs2: Vec<usize> = recs.iter().map(|r| r + 7).collect();
            out.push(format!("c03.vstore max - {}", pushes(rng, &recs2, 1, ws).join(";")));
        }
        // documented limits (the model mirrors them, the oracle does not judge them):
        // single-shot validator, a record below the first pushed one; a push into a batch that was validated;
        // a record beyond the batch of a single-shot validator anchored implicitly
        out.push(format!("c03.vstore max 4 {}", pushes(rng, &[1, 0], 1, &[8, 8, 8]).join(";")));
        out.push(format!("c03.vstore 2 4 v0;v1;{}", pushes(rng, &[1], 1, &[8, 8, 8]).join(";")));
        out.push(format!("c03.vstore 2 4 v0;v0"));
        out.push(format!("c03.vstore 2 - v0"));
        out.push(format!("c03.vstore 2 4 v4"));
        if thorough {
            for _ in 0..150 {
                let ws = *rng.pick(&width_sets);
                let rpb = *rng.pick(&[2usize, 4, 8, 16]);
                let nb = 1 + rng.usize_below(4);
                let total = (nb - 1) * rpb + 1 + rng.usize_below(rpb);
                let ngates = 1 + rng.usize_below(3);
                let mut ops = pushes(rng, &(0..total).collect::<Vec<_>>(), ngates, &ws);
                rng.shuffle(&mut ops);
                out.push(format!("c03.vstore {rpb} {total} {}", ops.join(";")));
            }
        }
        out
    }

    #[test]
    fn verif_c03_vstore() {
        // one runtime and one TestWorld for the whole suite; every request gets its own gate
        let rt = tokio::runtime::Builder::new_current_thread().enable_all().build().unwrap();
        let _guard = rt.enter();
        let world = TestWorld::<NotSharded>::default();
        let counter = std::cell::Cell::new(0usize);
        let roots = world.malicious_contexts();
        run_suite("c03_vstore", generate, |req| {
            let k = counter.get();
            counter.set(k + 1);
            let step = format!("c03v{k}");
            exec(roots[0].narrow(&step), req)
        });
    }
}

// C02 (b14): called by `Batch::push` (guarded call in dzkp_validator.rs): the gate whose multiplication intermediates
// are being recorded in a DZKP batch. Forwarded to the registry of harness/c02.rs, which only keeps gates of worlds it
// started itself (run gate `protocol/c02w<k>`).
pub fn c02_note_push(gate: &crate::protocol::Gate) {
    crate::ipa_verif::c02::note_push(gate.as_ref());
}

// C16 (b21): called at the top of `Batch::validate` (guarded call in dzkp_validator.rs): the validation context's gate and
// the batch index, forwarded to the registry of harness/c16.rs (which keeps only gates of the race suites' own worlds).
pub fn c16_note_validate(gate: &crate::protocol::Gate, batch_index: usize) {
    crate::ipa_verif::c16::note_validate(gate.as_ref(), batch_index);
}

// C03 (b21): c03_race — the proof batch of ONE helper's REAL `MaliciousDZKPValidator` under CONCURRENT `DZKPUpgraded::push`.
//
//   c03.race <ty> <T> <R> <records per batch> <gates> <seed>   ->   validated=<k> rounds=<R>[ first=<round>:<helper>:<why>]
//
// One TestWorld; each of the R rounds takes a fresh validate_record-style validator per helper (`malicious_contexts()`
// hands out a fresh gate; total records = records per batch: exactly ONE proof batch), runs REAL honest multiplications
// (`zkp_multiply` minus its last step: harness/c03.rs `multiply_unpushed`) of <ty> vectors for every record under <gates>
// steps, and then, on every helper, T real OS threads (std::thread::scope, released together by a spin barrier) report
// the intermediates through the REAL `DZKPUpgraded::push` of contexts narrowed to the gates: the (gate, record) items are
// shuffled per helper and item j goes to thread j mod T, so at any moment the threads push DISTINCT (gate, record) pairs
// into the SAME `Batch` behind the batcher mutex. Then (1) the stored table of every helper (`ipa_verif_state` +
// `dump_batch`: anchor, number of multiplications, every gate's blocks) must be literally the table obtained by pushing the
// same segments single-threaded in (gate, record) order into a `Batch::new(Some(0), rpb)`, and (2) every record of the batch
// is validated on the three helpers (`validate_record`: the real proof) and the batch must be handed to the proof step
// exactly once per helper (hook `c16_note_validate`). Nobody deviates: every round must pass whatever the scheduling
// (`concurrent_push_eq_sequential`), so the suite is deterministic on a correct tree. If `push` is not ONE critical section
// (clone the batch out under the lock, push outside, store back), a whole segment is lost: why = `table` and/or `f`.
mod c03_race {
    use std::sync::atomic::{AtomicBool, AtomicUsize, Ordering};

    use bitvec::prelude::{BitVec, Lsb0};
    use futures::{TryStreamExt, StreamExt, stream};

    use super::super::{Batch, DZKPValidator, Segment, SegmentEntry};
    use super::c03_vstore::dump_batch;
    use crate::{
        error::Error,
        ff::boolean::Boolean,
        ipa_verif::{
            c03::{ORDER_GATES, multiply_unpushed},
            proto::*,
        },
        protocol::{
            RecordId,
            context::{Context, DZKPContext, TEST_DZKP_STEPS, UpgradableContext, dzkp_field::DZKPCompatibleField},
        },
        secret_sharing::{FieldSimd, SharedValueArray, Vectorizable, replicated::semi_honest::AdditiveShare as Replicated},
        seq_join::{SeqJoin, seq_join},
        sharding::NotSharded,
        test_fixture::{TestWorld, TestWorldConfig},
    };

    fn segment_of(bvs: &[BitVec<u8, Lsb0>]) -> Segment<'_> {
        let e = |i: usize| SegmentEntry::from_bitslice(&bvs[i]);
        Segment::from_entries(e(0), e(1), e(2), e(3), e(4), e(5), e(6))
    }

    fn race<const N: usize>(threads: usize, rounds: usize, rpb: usize, ngates: usize, seed: u64) -> String
    where
        Boolean: FieldSimd<N> + DZKPCompatibleField<N>,
    {
        let mut rng = Rng(seed ^ 0xC03_4ACE);
        let rt = tokio::runtime::Handle::current();
        let mut world = TestWorld::<NotSharded>::with_config(&TestWorldConfig::default().with_seed(rng.below(1 << 40)).with_timeout_secs(60));
        let mut validated = 0usize;
        let mut first_fail: Option<String> = None;
        for round in 0..rounds {
            // `malicious_contexts` hands out at most 999 gates per world
            if round > 0 && round % 900 == 0 {
                world = TestWorld::<NotSharded>::with_config(&TestWorldConfig::default().with_seed(rng.below(1 << 40)).with_timeout_secs(60));
            }
            let marker = format!("c03race{}x{round}x", seed % 1_000_000);
            // honest inputs, replicated over the three helpers
            let mut xs: [Vec<Replicated<Boolean, N>>; 3] = [vec![], vec![], vec![]];
            let mut ys: [Vec<Replicated<Boolean, N>>; 3] = [vec![], vec![], vec![]];
            for _ in 0..rpb {
                let sx: [<Boolean as Vectorizable<N>>::Array; 3] = std::array::from_fn(|_| SharedValueArray::from_fn(|_| Boolean::from(rng.bool())));
                let sy: [<Boolean as Vectorizable<N>>::Array; 3] = std::array::from_fn(|_| SharedValueArray::from_fn(|_| Boolean::from(rng.bool())));
                for i in 0..3 {
                    xs[i].push(Replicated::new_arr(sx[i].clone(), sx[(i + 1) % 3].clone()));
                    ys[i].push(Replicated::new_arr(sy[i].clone(), sy[(i + 1) % 3].clone()));
                }
            }
            let validators: Vec<_> = world
                .malicious_contexts()
                .into_iter()
                .map(|ctx| ctx.narrow(&marker).set_total_records(rpb).dzkp_validator(TEST_DZKP_STEPS, rpb))
                .collect();
            let m_ctxs: Vec<_> = validators.iter().map(|v| v.context()).collect();
            // phase 1: every multiplication runs to completion on the three helpers; nothing is recorded yet
            let done: Vec<Result<Vec<Vec<Vec<BitVec<u8, Lsb0>>>>, Error>> = rt.block_on(futures::future::join_all(
                m_ctxs.iter().zip(xs.iter().zip(ys.iter())).map(|(m_ctx, (x, y))| async move {
                    let work = stream::iter(x.iter().zip(y.iter())).enumerate().map(|(i, (a, b))| {
                        let m_ctx = m_ctx.clone();
                        async move {
                            let mut per_gate = vec![];
                            for g in 0..ngates {
                                let c = m_ctx.narrow(ORDER_GATES[g]);
                                per_gate.push(if g % 2 == 0 {
                                    multiply_unpushed::<N>(c, RecordId::from(i), a, b).await?
                                } else {
                                    multiply_unpushed::<N>(c, RecordId::from(i), b, a).await?
                                });
                            }
                            Ok::<_, Error>(per_gate)
                        }
                    });
                    seq_join(m_ctx.active_work(), work).try_collect().await
                }),
            ));
            let done: Vec<Vec<Vec<Vec<BitVec<u8, Lsb0>>>>> = done.into_iter().map(|d| d.expect("harness: honest multiplication failed")).collect();
            // phase 2: T threads per helper push DISTINCT (gate, record) items of the same batch through the real `push`
            let gated: Vec<Vec<_>> = m_ctxs.iter().map(|c| (0..ngates).map(|g| c.narrow(ORDER_GATES[g])).collect()).collect();
            let items: Vec<Vec<(usize, usize)>> = (0..3)
                .map(|_| {
                    let mut it: Vec<(usize, usize)> = (0..ngates).flat_map(|g| (0..rpb).map(move |r| (g, r))).collect();
                    rng.shuffle(&mut it);
                    it
                })
                .collect();
            let total_threads = 3 * threads;
            let arrived = AtomicUsize::new(0);
            let panicked = AtomicBool::new(false);
            let panic_msg = std::sync::Mutex::new(None::<String>);
            std::thread::scope(|sc| {
                for h in 0..3 {
                    for t in 0..threads {
                        let (items, gated, done, arrived, panicked, panic_msg) = (&items[h], &gated[h], &done[h], &arrived, &panicked, &panic_msg);
                        sc.spawn(move || {
                            arrived.fetch_add(1, Ordering::SeqCst);
                            let mut spins = 0u32;
                            while arrived.load(Ordering::Acquire) < total_threads {
                                spins += 1;
                                if spins % 4096 == 0 {
                                    std::thread::yield_now();
                                } else {
                                    std::hint::spin_loop();
                                }
                            }
                            let r = std::panic::catch_unwind(std::panic::AssertUnwindSafe(|| {
                                for (g, r) in items.iter().skip(t).step_by(threads) {
                                    gated[*g].push(RecordId::from(*r), segment_of(&done[*r][*g]));
                                }
                            }));
                            if let Err(p) = r {
                                let msg = p.downcast_ref::<String>().cloned().or_else(|| p.downcast_ref::<&str>().map(|s| (*s).to_string())).unwrap_or_default();
                                if !msg.contains("PoisonError") {
                                    panic_msg.lock().unwrap_or_else(|e| e.into_inner()).get_or_insert(canon(&msg));
                                }
                                panicked.store(true, Ordering::SeqCst);
                            }
                        });
                    }
                }
            });
            let mut bad: Option<String> = None;
            if panicked.load(Ordering::SeqCst) {
                // a push panicked under the batcher mutex (it is poisoned now): the round has failed, nothing more to ask
                first_fail.get_or_insert(format!("{round}:0:push-panicked:{}", panic_msg.lock().unwrap_or_else(|e| e.into_inner()).clone().unwrap_or_default().replace(' ', "_")));
                drop(gated);
                drop(m_ctxs);
                for v in validators {
                    let _ = guarded(move || drop(v));
                }
                let _ = crate::ipa_verif::c16::take_validations(&marker);
                continue;
            }
            // (1) the stored table = the in-order table
            for h in 0..3 {
                if bad.is_some() {
                    break;
                }
                let state = validators[h].inner_ref.as_ref().unwrap().batcher.lock().unwrap().ipa_verif_state(dump_batch);
                let slot = state.splitn(3, ':').nth(2).unwrap().to_string();
                let got = slot.rsplitn(4, '.').last().unwrap().to_string();
                let mut reference = Batch::new(Some(RecordId::from(0usize)), rpb);
                for g in 0..ngates {
                    for r in 0..rpb {
                        reference.push(gated[h][g].gate().clone(), RecordId::from(r), segment_of(&done[h][r][g]));
                    }
                }
                if got != dump_batch(&reference) || slot.contains('/') {
                    bad = Some(format!("{round}:{}:table", h + 1));
                }
            }
            // (2) the batch validates on the three helpers, handed to the proof step once per helper
            let results: Vec<Vec<Result<(), Error>>> = rt.block_on(futures::future::join_all(
                m_ctxs.iter().map(|ctx| futures::future::join_all((0..rpb).map(move |i| ctx.validate_record(RecordId::from(i))))),
            ));
            let handed = crate::ipa_verif::c16::take_validations(&marker);
            if bad.is_none() {
                bad = results.iter().enumerate().find_map(|(h, rs)| {
                    rs.iter().find_map(|r| {
                        r.as_ref().err().map(|e| {
                            let k = match e {
                                Error::DZKPValidationFailed | Error::ParallelDZKPValidationFailed => "f".to_string(),
                                e => canon(&format!("{e:?}")).replace([' ', ','], "_"),
                            };
                            format!("{round}:{}:{k}", h + 1)
                        })
                    })
                });
            }
            if bad.is_none() && handed != vec![0, 0, 0] {
                bad = Some(format!("{round}:0:proof-steps({})", handed.len()));
            }
            match bad {
                None => validated += 1,
                Some(b) => {
                    first_fail.get_or_insert(b);
                }
            }
            drop(gated);
            drop(m_ctxs);
            for v in validators {
                let _ = guarded(move || drop(v));
            }
        }
        match first_fail {
            None => format!("validated={validated} rounds={rounds}"),
            Some(f) => format!("validated={validated} rounds={rounds} first={f}"),
        }
    }

    fn exec(req: &str) -> String {
        let t: Vec<&str> = req.split(' ').collect();
        assert_eq!(t[0], "c03.race");
        let ty = t[1].to_string();
        let p: Vec<usize> = t[2..6].iter().map(|x| x.parse().unwrap()).collect();
        let (threads, rounds, rpb, ngates) = (p[0], p[1], p[2], p[3]);
        let seed: u64 = t[6].parse().unwrap();
        assert!((1..=16).contains(&threads) && rounds <= 100_000 && (2..=4096).contains(&rpb) && (1..=3).contains(&ngates), "harness: bad race parameters");
        let r = block_on_timeout(600, async move {
            // the world's background tasks live on this runtime; the rounds block one of its workers
            tokio::task::spawn_blocking(move || match ty.as_str() {
                "b1" => race::<1>(threads, rounds, rpb, ngates, seed),
                "ba8" => race::<8>(threads, rounds, rpb, ngates, seed),
                "ba64" => race::<64>(threads, rounds, rpb, ngates, seed),
                "ba256" => race::<256>(threads, rounds, rpb, ngates, seed),
                ty => panic!("harness: unknown type {ty}"),
            })
            .await
        });
        match r {
            Ok(Ok(s)) => s,
            Ok(Err(e)) => match e.try_into_panic() {
                Ok(p) => std::panic::resume_unwind(p),
                Err(e) => format!("join:{e}"),
            },
            Err(e) => e,
        }
    }

    #[test]
    fn verif_c03_race() {
        run_suite(
            "c03_race",
            |rng, thorough| {
                let k = if thorough { 20 } else { 1 };
                let mut out = vec![];
                // (type, threads, rounds, records per batch, gates)
                for (ty, threads, rounds, rpb, ngates) in [
                    ("ba8", 4usize, 40usize, 16usize, 2usize),
                    ("b1", 4, 40, 32, 3),
                    ("ba64", 3, 30, 8, 2),
                    ("ba256", 2, 20, 4, 1),
                    ("b1", 8, 30, 16, 1),
                    ("ba8", 1, 10, 16, 2),
                ] {
                    out.push(format!("c03.race {ty} {threads} {} {rpb} {ngates} {}", rounds * k, rng.below(1 << 40)));
                }
                out
            },
            exec,
        );
    }
}
