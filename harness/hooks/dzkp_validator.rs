// Suites that need access to items private to protocol::context::dzkp_validator (feature ipa-verif, test builds only).
//
// C03: c03_store — the real Batch::push / insert_segment_small / insert_segment_large; block dump vs model.
mod c03_store {
    use bitvec::prelude::{BitVec, Lsb0};
    use ipa_step::StepNarrow;

    use super::super::{Batch, Segment, SegmentEntry};
    use crate::{
        ipa_verif::proto::*,
        protocol::{Gate, RecordId},
    };

    fn exec(req: &str) -> String {
        let t: Vec<&str> = req.split(' ').collect();
        let first = if t[1] == "-" { None } else { Some(RecordId::from(t[1].parse::<usize>().unwrap())) };
        let max: usize = t[2].parse().unwrap();
        let mut batch = Batch::new(first, max);
        for op in t[3].split(';') {
            let f: Vec<&str> = op.split(':').collect();
            let gate = Gate::default().narrow(f[0]);
            let record: usize = f[1].parse().unwrap();
            let width: usize = f[2].parse().unwrap();
            let bvs: Vec<BitVec<u8, Lsb0>> = f[3]
                .split('.')
                .map(|h| {
                    let mut bv = BitVec::<u8, Lsb0>::from_vec(unhex(h));
                    bv.truncate(width);
                    assert_eq!(bv.len(), width, "harness: not enough bytes for the width");
                    bv
                })
                .collect();
            let e = |i: usize| SegmentEntry::from_bitslice(&bvs[i]);
            let segment = Segment::from_entries(e(0), e(1), e(2), e(3), e(4), e(5), e(6));
            batch.push(gate, RecordId::from(record), segment);
        }
        let mut out = format!("n={} e={}", batch.get_number_of_multiplications(), u8::from(batch.is_empty()));
        for (g, store) in &batch.inner {
            let name = g.as_ref().rsplit('/').next().unwrap().to_string();
            let blocks: Vec<String> = store
                .vec
                .iter()
                .map(|b| {
                    [&b.x_left, &b.x_right, &b.y_left, &b.y_right, &b.prss_left, &b.prss_right, &b.z_right]
                        .iter()
                        .map(|a| hex(a.as_raw_slice()))
                        .collect::<Vec<_>>()
                        .join(".")
                })
                .collect();
            out.push_str(&format!(" {name}={}", if blocks.is_empty() { "-".to_string() } else { blocks.join("|") }));
        }
        out
    }

    fn seg(rng: &mut Rng, width: usize, style: usize) -> String {
        let nbytes = width.div_ceil(8);
        (0..7)
            .map(|k| {
                let mut b: Vec<u8> = match style {
                    0 => vec![0xff; nbytes],
                    1 => vec![0; nbytes],
                    2 => vec![if k % 2 == 0 { 0xaa } else { 0x55 }; nbytes],
                    _ => rng.bytes(nbytes),
                };
                // clear the bits above `width` so that the request is canonical
                if width % 8 != 0 {
                    let last = nbytes - 1;
                    b[last] &= (1u8 << (width % 8)) - 1;
                }
                hex(&b)
            })
            .collect::<Vec<_>>()
            .join(".")
    }

    #[test]
    fn verif_c03_store() {
        run_suite(
            "c03_store",
            |rng, thorough| {
                let mut out = vec![];
                let widths = [1usize, 2, 3, 4, 5, 7, 8, 16, 20, 32, 33, 64, 100, 128, 129, 200, 255, 256, 512, 768];
                for &w in &widths {
                    let per_block = if w < 256 { 256 / w.next_power_of_two() } else { 1 };
                    // in order, all ones: fills one block exactly, then spills into the next
                    let n = (per_block + 1).min(40);
                    let ops: Vec<String> = (0..n).map(|r| format!("g:{r}:{w}:{}", seg(rng, w, 0))).collect();
                    out.push(format!("c03.store - {} {}", n, ops.join(";")));
                    // out of order, random content, implicit first record = first pushed
                    let mut ids: Vec<usize> = (0..n.min(9)).collect();
                    rng.shuffle(&mut ids);
                    let ops: Vec<String> = ids.iter().map(|r| format!("g:{}:{w}:{}", r + 5, seg(rng, w, 3))).collect();
                    out.push(format!("c03.store 5 64 {}", ops.join(";")));
                    // a late record first: gap blocks must stay zero; overwrite of the same record
                    let far = 3 * per_block + 1;
                    out.push(format!(
                        "c03.store 0 1000 g:{far}:{w}:{};g:0:{w}:{};g:{far}:{w}:{}",
                        seg(rng, w, 0), seg(rng, w, 2), seg(rng, w, 3)
                    ));
                    // range checks: before the first record, at and beyond first + max
                    out.push(format!("c03.store 4 2 g:3:{w}:{}", seg(rng, w, 3)));
                    out.push(format!("c03.store 4 2 g:5:{w}:{}", seg(rng, w, 3)));
                    out.push(format!("c03.store 4 2 g:6:{w}:{}", seg(rng, w, 3)));
                    out.push(format!("c03.store - 2 g:9:{w}:{};g:8:{w}:{}", seg(rng, w, 3), seg(rng, w, 3)));
                    out.push(format!("c03.store - 2 g:9:{w}:{};g:10:{w}:{};g:11:{w}:{}", seg(rng, w, 3), seg(rng, w, 3), seg(rng, w, 3)));
                }
                // several gates with different widths; gate order in the dump is the map order
                for _ in 0..(if thorough { 200 } else { 20 }) {
                    let ngates = 1 + rng.usize_below(3);
                    let ws: Vec<usize> = (0..ngates).map(|_| *rng.pick(&widths)).collect();
                    let nops = 1 + rng.usize_below(8);
                    let ops: Vec<String> = (0..nops)
                        .map(|_| {
                            let g = rng.usize_below(ngates);
                            format!("{}:{}:{}:{}", ["zz", "a", "m"][g], rng.usize_below(12), ws[g], seg(rng, ws[g], 3))
                        })
                        .collect();
                    out.push(format!("c03.store 0 12 {}", ops.join(";")));
                }
                // a gate used with two different widths: the debug assertion fires; invalid width 300
                out.push(format!("c03.store 0 4 g:0:8:{};g:1:16:{}", seg(rng, 8, 3), seg(rng, 16, 3)));
                out.push(format!("c03.store 0 4 g:0:300:{}", seg(rng, 300, 3)));
                out
            },
            exec,
        );
    }
}

// C02 (b14): called by `Batch::push` (guarded call in dzkp_validator.rs): the gate whose multiplication intermediates
// are being recorded in a DZKP batch. Forwarded to the registry of harness/c02.rs, which only keeps gates of worlds it
// started itself (run gate `protocol/c02w<k>`).
pub fn c02_note_push(gate: &crate::protocol::Gate) {
    crate::ipa_verif::c02::note_push(gate.as_ref());
}
