// Suites that need access to items private to this module (feature ipa-verif, test builds only).
//
// ---------------------------------------------------------------------------------------------
// C18 — query lifecycle. This file is `include!`d as `crate::query::ipa_verif_hook`, so it sees the
// private `processor`, `state`, `completion`, `runner` modules of `crate::query`.
//
// Request grammar
//   c18.min <A> <B>                 min_status(A, B)            -> status name
//   c18.tr <Cur> <New>              QueryState::transition      -> ok | AlreadyRunning | InvalidState:<from>:<to> | panic:…
//   c18.status <State>              QueryStatus::from(&state)   -> status name | panic:…
//   c18.hist <h> <s> <n> <op,op,…>  a history of calls on ONE real `Processor` that sits at helper
//        index h (0 = the identity that RoleAssignment::new maps to H1), shard s of n shards.
//        Ops (peer/shard replies are scripted: o = accept, e = reject):
//          nq:<p><p>:<r…>   new_query; replies of the two other helpers (order: left, right), then one
//                            reply per other shard
//          ph:<r…>          prepare_helper (roles = RoleAssignment::new(make_three()))
//          ps               prepare_shard
//          ri               receive_inputs (on success the spawned task is replaced by a stub task whose
//                            result the harness controls; task ids count successful receive_inputs)
//          qs:<r…>          query_status; per other shard: o = same status, 0..4 = DifferentStatus with
//                            that status index, x = some other error
//          ss:<k>           shard_status with CompareStatusRequest.status = status index k
//          co:<r…>          complete (spawned; if it cannot finish it stays pending)
//          ki               kill
//          to:<id> te:<id>  the stub task <id> returns Ok / Err
//        Response: one `<result>/<passive status after>` per op, comma separated.
// ---------------------------------------------------------------------------------------------
pub mod c18 {
    use std::{
        sync::{Arc, Mutex},
        time::Duration,
    };

    use super::super::{
        processor::{
            NewQueryError, PrepareQueryError, Processor, QueryCompletionError, QueryInputError,
            QueryKillStatus, QueryStatusError,
        },
        runner::QueryResult,
        state::{QueryState, QueryStatus, RunningQuery, StateError, min_status},
    };
    use crate::{
        executor::IpaRuntime,
        ff::{FieldType, boolean_array::BA64},
        helpers::{
            ApiError, BodyStream, HandlerBox, HelperIdentity, HelperResponse, InMemoryMpcNetwork,
            InMemoryShardNetwork, RequestHandler, RoleAssignment, Transport, make_owned_handler,
            query::{CompareStatusRequest, PrepareQuery, QueryConfig, QueryType::TestMultiply},
            routing::RouteId,
        },
        ipa_verif::proto::*,
        protocol::QueryId,
        sharding::ShardIndex,
    };

    const STATUSES: [QueryStatus; 5] = [
        QueryStatus::Preparing,
        QueryStatus::AwaitingInputs,
        QueryStatus::Running,
        QueryStatus::AwaitingCompletion,
        QueryStatus::Completed,
    ];
    const STATE_NAMES: [&str; 6] = [
        "Empty",
        "Preparing",
        "AwaitingInputs",
        "Running",
        "AwaitingCompletion",
        "Completed",
    ];

    fn status_by_name(s: &str) -> QueryStatus {
        *STATUSES
            .iter()
            .find(|x| format!("{x:?}") == s)
            .unwrap_or_else(|| panic!("harness: unknown status {s}"))
    }

    fn config() -> QueryConfig {
        QueryConfig::new(TestMultiply, FieldType::Fp31, 1).unwrap()
    }

    fn roles() -> RoleAssignment {
        RoleAssignment::new(HelperIdentity::make_three())
    }

    fn ok_result() -> QueryResult {
        Ok(Box::new(Vec::<BA64>::new()))
    }

    fn err_result() -> QueryResult {
        Err(crate::error::Error::Internal)
    }

    /// Must run inside a tokio runtime (`Running` needs a spawned task).
    fn state_by_name(s: &str) -> QueryState {
        match s {
            "Empty" => QueryState::Empty,
            "Preparing" => QueryState::Preparing(config()),
            "AwaitingInputs" => QueryState::AwaitingInputs(config(), roles()),
            "Running" => {
                let (_tx, rx) = tokio::sync::oneshot::channel();
                QueryState::Running(RunningQuery {
                    result: rx,
                    join_handle: IpaRuntime::current().spawn(async {}),
                })
            }
            "AwaitingCompletion" => QueryState::AwaitingCompletion(Default::default()),
            "Completed" => QueryState::Completed(ok_result()),
            _ => panic!("harness: unknown state {s}"),
        }
    }

    fn state_error(e: &StateError) -> String {
        match e {
            StateError::AlreadyRunning => "AlreadyRunning".into(),
            StateError::InvalidState { from, to } => format!("InvalidState:{from:?}:{to:?}"),
        }
    }

    fn current_thread<T>(fut: impl std::future::Future<Output = T>) -> Result<T, String> {
        let rt = tokio::runtime::Builder::new_current_thread()
            .enable_all()
            .build()
            .unwrap();
        rt.block_on(async { tokio::time::timeout(Duration::from_secs(30), fut).await })
            .map_err(|_| "timeout".to_string())
    }

    // ------------------------------------------------------------------ tables
    pub fn exec_tables(req: &str) -> String {
        let t: Vec<&str> = req.split(' ').collect();
        match t[0] {
            "c18.min" => format!("{:?}", min_status(status_by_name(t[1]), status_by_name(t[2]))),
            "c18.tr" => current_thread(async {
                let cur = state_by_name(t[1]);
                let new = state_by_name(t[2]);
                match QueryState::transition(&cur, new) {
                    Ok(s) => {
                        // the returned state must be the requested one
                        let got = QueryStatus::from(&s);
                        assert_eq!(format!("{got:?}"), t[2], "transition returned another state");
                        "ok".to_string()
                    }
                    Err(e) => state_error(&e),
                }
            })
            .unwrap_or_else(|e| e),
            "c18.status" => current_thread(async {
                let s = state_by_name(t[1]);
                format!("{:?}", QueryStatus::from(&s))
            })
            .unwrap_or_else(|e| e),
            _ => panic!("harness: unknown request {req}"),
        }
    }

    pub fn gen_tables(_rng: &mut Rng, _thorough: bool) -> Vec<String> {
        let mut v = Vec::new();
        for a in STATUSES {
            for b in STATUSES {
                v.push(format!("c18.min {a:?} {b:?}"));
            }
        }
        for a in STATE_NAMES {
            for b in STATE_NAMES {
                v.push(format!("c18.tr {a} {b}"));
            }
        }
        for a in STATE_NAMES {
            v.push(format!("c18.status {a}"));
        }
        v
    }

    // ------------------------------------------------------------------ histories
    #[derive(Clone, Copy, Debug)]
    enum Reply {
        Ok,
        Reject,
        Differ(QueryStatus),
    }

    #[derive(Default)]
    struct Script {
        mpc: [Option<Reply>; 3],
        shard: Vec<Reply>,
    }

    fn reply_to_result(r: Reply) -> Result<HelperResponse, ApiError> {
        match r {
            Reply::Ok => Ok(HelperResponse::ok()),
            Reply::Reject => Err(ApiError::QueryStatus(QueryStatusError::NoSuchQuery(QueryId))),
            Reply::Differ(s) => Err(ApiError::QueryStatus(QueryStatusError::DifferentStatus {
                query_id: QueryId,
                my_status: s,
                other_status: QueryStatus::Preparing,
            })),
        }
    }

    struct World {
        processor: Arc<Processor>,
        script: Arc<Mutex<Script>>,
        mpc: InMemoryMpcNetwork,
        shards: InMemoryShardNetwork,
        _mpc_handlers: Vec<Arc<dyn RequestHandler<HelperIdentity>>>,
        _shard_handlers: Vec<Arc<dyn RequestHandler<ShardIndex>>>,
        h: usize,
        s: u32,
        n: u32,
        senders: Vec<Option<tokio::sync::oneshot::Sender<QueryResult>>>,
        pending: Vec<(usize, tokio::task::JoinHandle<Result<(), QueryCompletionError>>)>,
    }

    impl World {
        fn new(h: usize, s: u32, n: u32) -> Self {
            let script = Arc::new(Mutex::new(Script::default()));
            let ids = HelperIdentity::make_three();
            let mpc_handlers: Vec<Arc<dyn RequestHandler<HelperIdentity>>> = (0..3)
                .map(|j| {
                    let script = Arc::clone(&script);
                    make_owned_handler(move |_req, _body| {
                        let r = script.lock().unwrap().mpc[j].unwrap_or(Reply::Ok);
                        futures::future::ready(reply_to_result(r))
                    })
                })
                .collect();
            let mpc = InMemoryMpcNetwork::new([
                Some(HandlerBox::owning_ref(&mpc_handlers[0])),
                Some(HandlerBox::owning_ref(&mpc_handlers[1])),
                Some(HandlerBox::owning_ref(&mpc_handlers[2])),
            ]);
            let script2 = Arc::clone(&script);
            let (shards, shard_handlers) = InMemoryShardNetwork::with_shards_and_handlers(n, move |si| {
                let script = Arc::clone(&script2);
                make_owned_handler(move |_req, _body| {
                    let idx = usize::from(si);
                    let r = script.lock().unwrap().shard.get(idx).copied().unwrap_or(Reply::Ok);
                    futures::future::ready(reply_to_result(r))
                })
            });
            let _ = ids;
            World {
                processor: Arc::new(Processor::default()),
                script,
                mpc,
                shards,
                _mpc_handlers: mpc_handlers,
                _shard_handlers: shard_handlers,
                h,
                s,
                n,
                senders: Vec::new(),
                pending: Vec::new(),
            }
        }

        fn me(&self) -> HelperIdentity {
            HelperIdentity::make_three()[self.h]
        }

        fn mpc_t(&self) -> crate::helpers::InMemoryTransport<HelperIdentity> {
            self.mpc.transport(self.me())
        }

        fn shard_t(&self) -> crate::helpers::InMemoryTransport<ShardIndex> {
            self.shards.transport(self.me(), ShardIndex::from(self.s))
        }

        /// one scripted reply per *other* shard, in increasing shard order
        fn set_shard_replies(&self, spec: &str, differ_ok: bool) {
            let mut replies = vec![Reply::Ok; self.n as usize];
            let others: Vec<usize> = (0..self.n as usize).filter(|i| *i != self.s as usize).collect();
            let chars: Vec<char> = spec.chars().collect();
            assert_eq!(chars.len(), others.len(), "harness: need one reply per other shard");
            for (c, i) in chars.iter().zip(others) {
                replies[i] = match c {
                    'o' => Reply::Ok,
                    'e' | 'x' => Reply::Reject,
                    '0'..='4' if differ_ok => Reply::Differ(STATUSES[*c as usize - '0' as usize]),
                    _ => panic!("harness: bad reply {c}"),
                };
            }
            self.script.lock().unwrap().shard = replies;
        }

        fn passive_status(&self) -> String {
            match self.processor.ipa_verif_queries().handle(QueryId).status() {
                None => "none".into(),
                Some(s) => format!("{s:?}"),
            }
        }

        async fn settle(&self) {
            for _ in 0..64 {
                tokio::task::yield_now().await;
            }
        }

        /// pending `complete` calls that have finished: (task id, result)
        async fn reap(&mut self) -> Vec<(usize, String)> {
            let mut done = Vec::new();
            let mut i = 0;
            while i < self.pending.len() {
                if self.pending[i].1.is_finished() {
                    let (id, jh) = self.pending.remove(i);
                    let r = match jh.await {
                        Ok(r) => completion_result(&r),
                        Err(e) => format!("panic:{}", canon(&e.to_string())),
                    };
                    done.push((id, r));
                } else {
                    i += 1;
                }
            }
            done
        }

        async fn op(&mut self, op: &str) -> String {
            let parts: Vec<&str> = op.split(':').collect();
            let res = match parts[0] {
                "nq" => {
                    let p: Vec<char> = parts[1].chars().collect();
                    let [right, left] = self.me().others();
                    {
                        let mut sc = self.script.lock().unwrap();
                        sc.mpc = [None; 3];
                        let idx = |id: HelperIdentity| HelperIdentity::make_three().iter().position(|x| *x == id).unwrap();
                        sc.mpc[idx(left)] = Some(if p[0] == 'o' { Reply::Ok } else { Reply::Reject });
                        sc.mpc[idx(right)] = Some(if p[1] == 'o' { Reply::Ok } else { Reply::Reject });
                    }
                    self.set_shard_replies(parts.get(2).copied().unwrap_or(""), false);
                    match self.processor.new_query(self.mpc_t(), self.shard_t(), config()).await {
                        Ok(pq) => {
                            assert_eq!(pq.roles.role(self.me()), crate::helpers::Role::H1);
                            "ok".to_string()
                        }
                        Err(NewQueryError::State(e)) => format!("err:{}", state_error(&e)),
                        Err(NewQueryError::MpcTransport(_)) => "err:MpcTransport".into(),
                        Err(NewQueryError::ShardBroadcastError(_)) => "err:ShardBroadcast".into(),
                    }
                }
                "ph" => {
                    self.set_shard_replies(parts.get(1).copied().unwrap_or(""), false);
                    let req = PrepareQuery { query_id: QueryId, config: config(), roles: roles() };
                    match self.processor.prepare_helper(self.mpc_t(), self.shard_t(), req).await {
                        Ok(()) => "ok".to_string(),
                        Err(e) => format!("err:{}", prepare_error(&e)),
                    }
                }
                "ps" => {
                    let req = PrepareQuery { query_id: QueryId, config: config(), roles: roles() };
                    match self.processor.prepare_shard(&self.shard_t(), req) {
                        Ok(()) => "ok".to_string(),
                        Err(e) => format!("err:{}", prepare_error(&e)),
                    }
                }
                "ri" => {
                    match self.processor.receive_inputs(self.mpc_t(), self.shard_t(), QueryId, BodyStream::empty()) {
                        Ok(()) => {
                            // Replace the real protocol task (never polled so far: current-thread
                            // runtime, no await since it was spawned) by a stub whose result we control.
                            let (tx, rx) = tokio::sync::oneshot::channel();
                            let mut q = self.processor.ipa_verif_queries().inner.lock().unwrap();
                            match q.remove(&QueryId) {
                                Some(QueryState::Running(real)) => real.join_handle.abort(),
                                _ => panic!("harness: receive_inputs returned Ok but the state is not Running"),
                            }
                            q.insert(
                                QueryId,
                                QueryState::Running(RunningQuery {
                                    result: rx,
                                    join_handle: IpaRuntime::current().spawn(std::future::pending()),
                                }),
                            );
                            self.senders.push(Some(tx));
                            format!("ok:{}", self.senders.len() - 1)
                        }
                        Err(QueryInputError::NoSuchQuery(_)) => "err:NoSuchQuery".into(),
                        Err(QueryInputError::StateError { source }) => format!("err:{}", state_error(&source)),
                    }
                }
                "qs" => {
                    self.set_shard_replies(parts.get(1).copied().unwrap_or(""), true);
                    match self.processor.query_status(self.shard_t(), QueryId).await {
                        Ok(s) => format!("ok:{s:?}"),
                        Err(e) => format!("err:{}", status_error(&e)),
                    }
                }
                "ss" => {
                    let k: usize = parts[1].parse().unwrap();
                    let req = CompareStatusRequest { query_id: QueryId, status: STATUSES[k] };
                    match self.processor.shard_status(&self.shard_t(), &req) {
                        Ok(s) => format!("ok:{s:?}"),
                        Err(e) => format!("err:{}", status_error(&e)),
                    }
                }
                "co" => {
                    self.set_shard_replies(parts.get(1).copied().unwrap_or(""), false);
                    let p = Arc::clone(&self.processor);
                    let st = self.shard_t();
                    // which task would this call wait for?
                    let task_id = self.senders.len().wrapping_sub(1);
                    let jh = tokio::spawn(async move { p.complete(QueryId, st).await.map(|_| ()) });
                    self.settle().await;
                    if jh.is_finished() {
                        match jh.await {
                            Ok(r) => completion_result(&r),
                            Err(e) => format!("panic:{}", canon(&e.to_string())),
                        }
                    } else {
                        self.pending.push((task_id, jh));
                        format!("pending:{task_id}")
                    }
                }
                "ki" => match self.processor.kill(QueryId) {
                    Ok(_) => "ok".to_string(),
                    Err(QueryKillStatus::NoSuchQuery(_)) => "err:NoSuchQuery".into(),
                },
                "to" | "te" => {
                    let id: usize = parts[1].parse().unwrap();
                    let r = if parts[0] == "to" { ok_result() } else { err_result() };
                    match self.senders.get_mut(id).and_then(Option::take) {
                        None => "dropped".to_string(),
                        Some(tx) => {
                            let was_pending = self.pending.iter().any(|(t, _)| *t == id);
                            match tx.send(r) {
                                Err(_) => "dropped".to_string(),
                                Ok(()) => {
                                    self.settle().await;
                                    if was_pending {
                                        let done = self.reap().await;
                                        match done.iter().find(|(t, _)| *t == id) {
                                            Some((_, r)) => format!("resolved:{r}"),
                                            None => "unresolved".to_string(),
                                        }
                                    } else {
                                        "stored".to_string()
                                    }
                                }
                            }
                        }
                    }
                }
                _ => panic!("harness: unknown op {op}"),
            };
            self.settle().await;
            // no pending completion may finish except through its own task event
            let stray = self.reap().await;
            let mut out = res;
            for (id, r) in stray {
                out.push_str(&format!("+stray{id}={r}"));
            }
            format!("{out}/{}", self.passive_status())
        }
    }

    fn completion_result(r: &Result<(), QueryCompletionError>) -> String {
        match r {
            Ok(()) => "ok".into(),
            Err(QueryCompletionError::NoSuchQuery(_)) => "err:NoSuchQuery".into(),
            Err(QueryCompletionError::StateError { source }) => format!("err:{}", state_error(source)),
            Err(QueryCompletionError::ExecutionError(_)) => "err:Execution".into(),
            Err(QueryCompletionError::ShardError(_)) => "err:ShardError".into(),
        }
    }

    fn prepare_error(e: &PrepareQueryError) -> String {
        match e {
            PrepareQueryError::WrongTarget => "WrongTarget".into(),
            PrepareQueryError::NotLeader(_) => "NotLeader".into(),
            PrepareQueryError::Leader => "Leader".into(),
            PrepareQueryError::AlreadyRunning => "AlreadyRunning".into(),
            PrepareQueryError::StateError { source } => state_error(source),
            PrepareQueryError::ShardBroadcastError(_) => "ShardBroadcast".into(),
        }
    }

    fn status_error(e: &QueryStatusError) -> String {
        match e {
            QueryStatusError::NoSuchQuery(_) => "NoSuchQuery".into(),
            QueryStatusError::ShardBroadcastError(_) => "ShardBroadcast".into(),
            QueryStatusError::NotLeader(_) => "NotLeader".into(),
            QueryStatusError::Leader => "Leader".into(),
            QueryStatusError::DifferentStatus { my_status, other_status, .. } => {
                format!("DifferentStatus:{my_status:?}:{other_status:?}")
            }
        }
    }

    pub fn exec_hist(req: &str) -> String {
        let t: Vec<&str> = req.split(' ').collect();
        assert_eq!(t[0], "c18.hist");
        let (h, s, n): (usize, u32, u32) = (t[1].parse().unwrap(), t[2].parse().unwrap(), t[3].parse().unwrap());
        let ops: Vec<String> = t[4].split(',').map(str::to_string).collect();
        current_thread(async move {
            let mut w = World::new(h, s, n);
            let mut out = Vec::new();
            for op in &ops {
                out.push(w.op(op).await);
            }
            for (_, jh) in w.pending.drain(..) {
                jh.abort();
            }
            out.join(",")
        })
        .unwrap_or_else(|e| e)
    }

    fn rep(c: char, k: u32) -> String {
        std::iter::repeat(c).take(k as usize).collect()
    }

    /// the op alphabet for a processor with `k` other shards
    fn alphabet(k: u32, full: bool) -> Vec<String> {
        let o = rep('o', k);
        let mut v = vec![format!("nq:oo:{o}"), "ps".to_string(), format!("ph:{o}"), "ri".to_string(),
                         format!("qs:{o}"), "ss:2".to_string(), format!("co:{o}"), "ki".to_string(),
                         "to:0".to_string(), "te:0".to_string()];
        if full {
            v.push(format!("nq:eo:{o}"));
            v.push(format!("nq:oe:{o}"));
            v.push("to:1".to_string());
            v.push("te:1".to_string());
            for k2 in [0usize, 1, 3, 4] {
                v.push(format!("ss:{k2}"));
            }
            if k > 0 {
                let e = format!("e{}", rep('o', k - 1));
                v.push(format!("nq:oo:{e}"));
                v.push(format!("ph:{e}"));
                v.push(format!("co:{e}"));
                v.push(format!("qs:x{}", rep('o', k - 1)));
                for d in 0..5 {
                    v.push(format!("qs:{d}{}", rep('o', k - 1)));
                }
            }
        }
        v
    }

    fn enumerate(alpha: &[String], depth: usize, prefix: &mut Vec<String>, head: &str, out: &mut Vec<String>) {
        if !prefix.is_empty() {
            out.push(format!("{head} {}", prefix.join(",")));
        }
        if prefix.len() == depth {
            return;
        }
        for a in alpha {
            prefix.push(a.clone());
            enumerate(alpha, depth, prefix, head, out);
            prefix.pop();
        }
    }

    fn random_op(rng: &mut Rng, k: u32, tasks: &mut usize) -> String {
        let reps = |rng: &mut Rng, alphabet: &[char], bias: u64| -> String {
            (0..k).map(|_| if rng.below(bias) == 0 { *rng.pick(&alphabet[1..]) } else { alphabet[0] }).collect()
        };
        match rng.below(16) {
            0 | 1 => {
                let p: String = (0..2).map(|_| if rng.below(6) == 0 { 'e' } else { 'o' }).collect();
                format!("nq:{p}:{}", reps(rng, &['o', 'e'], 6))
            }
            2 => format!("ph:{}", reps(rng, &['o', 'e'], 6)),
            3 => "ps".into(),
            4 | 5 | 6 => {
                *tasks += 1;
                "ri".into()
            }
            7 => format!("qs:{}", reps(rng, &['o', '0', '1', '2', '3', '4', 'x'], 2)),
            8 => format!("ss:{}", rng.below(5)),
            9 | 10 | 11 => format!("co:{}", reps(rng, &['o', 'e'], 8)),
            12 => "ki".into(),
            13 | 14 => format!("to:{}", rng.below((*tasks as u64).max(1) + 1)),
            _ => format!("te:{}", rng.below((*tasks as u64).max(1) + 1)),
        }
    }

    pub fn gen_hist(rng: &mut Rng, thorough: bool) -> Vec<String> {
        let mut v = Vec::new();
        // scripted scenarios first (the ones the property text names)
        for (h, s, n) in [(0usize, 0u32, 1u32), (0, 0, 2), (1, 0, 2), (1, 1, 2), (0, 1, 3), (2, 0, 3)] {
            let k = n - 1;
            let o = rep('o', k);
            let create = if s == 0 { if h == 0 { format!("nq:oo:{o}") } else { format!("ph:{o}") } } else { "ps".to_string() };
            let head = format!("c18.hist {h} {s} {n}");
            for sc in [
                format!("{create},ri,to:0,qs:{o},co:{o},co:{o},{create}"),
                format!("{create},ri,co:{o},ki,{create},to:0,qs:{o},ss:1"),
                format!("{create},ri,co:{o},co:{o},ki,ki,to:0"),
                format!("{create},ri,ri,te:0,co:{o},qs:{o},{create},ri,to:1,co:{o}"),
                format!("qs:{o},ss:2,co:{o},ki,ri,{create},{create},ri,ki,to:0,{create}"),
                format!("{create},ri,co:{o},ki,{create},ri,co:{o},to:0,to:1,qs:{o}"),
                format!("nq:eo:{o},qs:{o},nq:oe:{o},qs:{o},nq:oo:{o},qs:{o}"),
            ] {
                v.push(format!("{head} {sc}"));
            }
        }
        // exhaustive: full alphabet to depth 3, reduced alphabet to depth 4 (5 when thorough)
        for (h, s, n) in [(0usize, 0u32, 2u32), (1, 0, 2), (1, 1, 2), (0, 0, 1)] {
            let head = format!("c18.hist {h} {s} {n}");
            let full = alphabet(n - 1, true);
            enumerate(&full, if thorough { 3 } else { 2 }, &mut Vec::new(), &head, &mut v);
            let small = alphabet(n - 1, false);
            enumerate(&small, if thorough { 5 } else { 4 }, &mut Vec::new(), &head, &mut v);
        }
        // random long histories
        let count = if thorough { 20000 } else { 1500 };
        for _ in 0..count {
            let n = 1 + rng.below(4) as u32;
            let s = if rng.bool() { 0 } else { rng.below(u64::from(n)) as u32 };
            let h = rng.usize_below(3);
            let len = if rng.below(4) == 0 { 1 + rng.usize_below(8) } else { 30 };
            let mut tasks = 0usize;
            let ops: Vec<String> = (0..len).map(|_| random_op(rng, n - 1, &mut tasks)).collect();
            v.push(format!("c18.hist {h} {s} {n} {}", ops.join(",")));
        }
        v
    }
}

#[test]
fn verif_c18_tables() {
    crate::ipa_verif::proto::run_suite("c18_tables", c18::gen_tables, c18::exec_tables);
}

#[test]
fn verif_c18_histories() {
    crate::ipa_verif::proto::run_suite("c18_histories", c18::gen_hist, c18::exec_hist);
}
