// Suites that need access to items private to this module (feature ipa-verif, test builds only).
//
// ---------------------------------------------------------------------------------------------
// C18 — query lifecycle. This file is `include!`d as `crate::query::ipa_verif_hook`, so it sees the
// private `processor`, `state`, `completion`, `runner` modules of `crate::query`.
//
// Request grammar
//   c18.min <A> <B>                 min_status(A, B)            -> status name
//   c18.tr <Cur> <New>              QueryState::transition      -> ok | AlreadyRunning | InvalidState:<from>:<to> | panic:…
//   c18.status <State>              QueryStatus::from(&state)   -> status name | panic:…
//   c18.hist <h> <s> <n> <op,op,…>  a history of calls on ONE real `Processor` that sits at helper
//        index h (0 = the identity that RoleAssignment::new maps to H1), shard s of n shards.
//        Ops (peer/shard replies are scripted: o = accept, e = reject):
//          nq:<p><p>:<r…>   new_query; replies of the two other helpers (order: left, right), then one
//                            reply per other shard
//          ph:<r…>          prepare_helper (roles = RoleAssignment::new(make_three()))
//          ps               prepare_shard
//          ri               receive_inputs (on success the spawned task is replaced by a stub task whose
//                            result the harness controls; task ids count successful receive_inputs)
//          qs:<r…>          query_status; per other shard: o = same status, 0..4 = DifferentStatus with
//                            that status index, x = some other error
//          ss:<k>           shard_status with CompareStatusRequest.status = status index k
//          co:<r…>          complete (spawned; if it cannot finish it stays pending)
//          ki               kill
//          to:<id> te:<id>  the stub task <id> returns Ok / Err
//        Response: one `<result>/<passive status after>` per op, comma separated.
//   c18.app <h> <s> <n> <item,item,…>  the same, one level up: a real `HelperApp` (app.rs) connected to
//        the in-memory transports; every item is ONE `Addr` + body handed to the app's request
//        handlers through the `HandlerRef`s that `AppSetup::new` returns (exactly what the transport
//        layer does), or one `HelperApp` method call, or a task event. Item grammar:
//          <name>[!<mod>…][@<origin>][:<arg>…]
//          names (MPC handler): nq:<pp>:<r…> ReceiveQuery, ph:<r…> PrepareQuery, ri QueryInput,
//            qs:<r…> QueryStatus, co:<r…> CompleteQuery, ki KillQuery, me Metrics, rec Records
//          names (shard handler): ps PrepareQuery, ss:<k> QueryStatus, sco:<r…> CompleteQuery,
//            srec snq sri ski sme = Records / ReceiveQuery / QueryInput / KillQuery / Metrics
//          names (HelperApp methods): anq:<pp>:<r…> start_query, ari execute_query, aqs:<r…>
//            query_status, aco:<r…> complete_query;   to:<id> te:<id> as above
//          mods: noid = Addr.query_id is None; p0..p6 = Addr.params replaced by: empty string, `{}`,
//            truncated JSON, JSON of another request type, `{"query_id":…}`, a URL-encoded query
//            string, the proper JSON with an unknown extra field;  @k = Addr.origin (helper / shard k)
//        Response per item: `<class>/<passive status after>`, class = ok:empty | ok:prepared |
//        ok:status:<S> | ok:result:<task id> | ok:killed | ok:metrics | err:BadRequest |
//        err:DeserializationFailure | err:<ApiError variant>:<processor error> | pending:<id> |
//        stored | dropped | resolved:<class>.
// ---------------------------------------------------------------------------------------------
pub mod c18 {
    use std::{
        sync::{Arc, Mutex},
        time::Duration,
    };

    use super::super::{
        processor::{
            NewQueryError, PrepareQueryError, Processor, QueryCompletionError, QueryInputError,
            QueryKillStatus, QueryStatusError,
        },
        runner::QueryResult,
        state::{QueryState, QueryStatus, RunningQuery, StateError, min_status},
    };
    use crate::{
        executor::IpaRuntime,
        ff::{FieldType, boolean_array::BA64},
        helpers::{
            ApiError, BodyStream, HandlerBox, HelperIdentity, HelperResponse, InMemoryMpcNetwork,
            InMemoryShardNetwork, RequestHandler, RoleAssignment, Transport, make_owned_handler,
            query::{CompareStatusRequest, PrepareQuery, QueryConfig, QueryType::TestMultiply},
            routing::RouteId,
        },
        ipa_verif::proto::*,
        protocol::QueryId,
        sharding::ShardIndex,
    };

    const STATUSES: [QueryStatus; 5] = [
        QueryStatus::Preparing,
        QueryStatus::AwaitingInputs,
        QueryStatus::Running,
        QueryStatus::AwaitingCompletion,
        QueryStatus::Completed,
    ];
    const STATE_NAMES: [&str; 6] = [
        "Empty",
        "Preparing",
        "AwaitingInputs",
        "Running",
        "AwaitingCompletion",
        "Completed",
    ];

    fn status_by_name(s: &str) -> QueryStatus {
        *STATUSES
            .iter()
            .find(|x| format!("{x:?}") == s)
            .unwrap_or_else(|| panic!("harness: unknown status {s}"))
    }

    fn config() -> QueryConfig {
        QueryConfig::new(TestMultiply, FieldType::Fp31, 1).unwrap()
    }

    fn roles() -> RoleAssignment {
        RoleAssignment::new(HelperIdentity::make_three())
    }

    fn ok_result() -> QueryResult {
        Ok(Box::new(Vec::<BA64>::new()))
    }

    fn err_result() -> QueryResult {
        Err(crate::error::Error::Internal)
    }

    /// Must run inside a tokio runtime (`Running` needs a spawned task).
    fn state_by_name(s: &str) -> QueryState {
        match s {
            "Empty" => QueryState::Empty,
            "Preparing" => QueryState::Preparing(config()),
            "AwaitingInputs" => QueryState::AwaitingInputs(config(), roles()),
            "Running" => {
                let (_tx, rx) = tokio::sync::oneshot::channel();
                QueryState::Running(RunningQuery {
                    result: rx,
                    join_handle: IpaRuntime::current().spawn(async {}),
                })
            }
            "AwaitingCompletion" => QueryState::AwaitingCompletion(Default::default()),
            "Completed" => QueryState::Completed(ok_result()),
            _ => panic!("harness: unknown state {s}"),
        }
    }

    fn state_error(e: &StateError) -> String {
        match e {
            StateError::AlreadyRunning => "AlreadyRunning".into(),
            StateError::InvalidState { from, to } => format!("InvalidState:{from:?}:{to:?}"),
        }
    }

    fn current_thread<T>(fut: impl std::future::Future<Output = T>) -> Result<T, String> {
        let rt = tokio::runtime::Builder::new_current_thread()
            .enable_all()
            .build()
            .unwrap();
        rt.block_on(async { tokio::time::timeout(Duration::from_secs(30), fut).await })
            .map_err(|_| "timeout".to_string())
    }

    // ------------------------------------------------------------------ tables
    pub fn exec_tables(req: &str) -> String {
        let t: Vec<&str> = req.split(' ').collect();
        match t[0] {
            "c18.min" => format!("{:?}", min_status(status_by_name(t[1]), status_by_name(t[2]))),
            "c18.tr" => current_thread(async {
                let cur = state_by_name(t[1]);
                let new = state_by_name(t[2]);
                match QueryState::transition(&cur, new) {
                    Ok(s) => {
                        // the returned state must be the requested one
                        let got = QueryStatus::from(&s);
                        assert_eq!(format!("{got:?}"), t[2], "transition returned another state");
                        "ok".to_string()
                    }
                    Err(e) => state_error(&e),
                }
            })
            .unwrap_or_else(|e| e),
            "c18.status" => current_thread(async {
                let s = state_by_name(t[1]);
                format!("{:?}", QueryStatus::from(&s))
            })
            .unwrap_or_else(|e| e),
            _ => panic!("harness: unknown request {req}"),
        }
    }

    pub fn gen_tables(_rng: &mut Rng, _thorough: bool) -> Vec<String> {
        let mut v = Vec::new();
        for a in STATUSES {
            for b in STATUSES {
                v.push(format!("c18.min {a:?} {b:?}"));
            }
        }
        for a in STATE_NAMES {
            for b in STATE_NAMES {
                v.push(format!("c18.tr {a} {b}"));
            }
        }
        for a in STATE_NAMES {
            v.push(format!("c18.status {a}"));
        }
        v
    }

    // ------------------------------------------------------------------ histories
    #[derive(Clone, Copy, Debug)]
    enum Reply {
        Ok,
        Reject,
        Differ(QueryStatus),
    }

    #[derive(Default)]
    struct Script {
        mpc: [Option<Reply>; 3],
        shard: Vec<Reply>,
    }

    fn reply_to_result(r: Reply) -> Result<HelperResponse, ApiError> {
        match r {
            Reply::Ok => Ok(HelperResponse::ok()),
            Reply::Reject => Err(ApiError::QueryStatus(QueryStatusError::NoSuchQuery(QueryId))),
            Reply::Differ(s) => Err(ApiError::QueryStatus(QueryStatusError::DifferentStatus {
                query_id: QueryId,
                my_status: s,
                other_status: QueryStatus::Preparing,
            })),
        }
    }

    /// in-memory MPC and shard networks whose handlers answer from the script
    fn networks(
        script: &Arc<Mutex<Script>>,
        n: u32,
    ) -> (
        InMemoryMpcNetwork,
        InMemoryShardNetwork,
        Vec<Arc<dyn RequestHandler<HelperIdentity>>>,
        Vec<Arc<dyn RequestHandler<ShardIndex>>>,
    ) {
        let mpc_handlers: Vec<Arc<dyn RequestHandler<HelperIdentity>>> = (0..3)
            .map(|j| {
                let script = Arc::clone(script);
                make_owned_handler(move |_req, _body| {
                    let r = script.lock().unwrap().mpc[j].unwrap_or(Reply::Ok);
                    futures::future::ready(reply_to_result(r))
                })
            })
            .collect();
        let mpc = InMemoryMpcNetwork::new([
            Some(HandlerBox::owning_ref(&mpc_handlers[0])),
            Some(HandlerBox::owning_ref(&mpc_handlers[1])),
            Some(HandlerBox::owning_ref(&mpc_handlers[2])),
        ]);
        let script2 = Arc::clone(script);
        let (shards, shard_handlers) = InMemoryShardNetwork::with_shards_and_handlers(n, move |si| {
            let script = Arc::clone(&script2);
            make_owned_handler(move |_req, _body| {
                let idx = usize::from(si);
                let r = script.lock().unwrap().shard.get(idx).copied().unwrap_or(Reply::Ok);
                futures::future::ready(reply_to_result(r))
            })
        });
        (mpc, shards, mpc_handlers, shard_handlers)
    }

    /// one scripted reply per *other* shard (of `n`, seen from shard `s`), in increasing shard order
    fn script_shard_replies(script: &Arc<Mutex<Script>>, s: u32, n: u32, spec: &str, differ_ok: bool) {
        let mut replies = vec![Reply::Ok; n as usize];
        let others: Vec<usize> = (0..n as usize).filter(|i| *i != s as usize).collect();
        let chars: Vec<char> = spec.chars().collect();
        assert_eq!(chars.len(), others.len(), "harness: need one reply per other shard");
        for (c, i) in chars.iter().zip(others) {
            replies[i] = match c {
                'o' => Reply::Ok,
                'e' | 'x' => Reply::Reject,
                '0'..='4' if differ_ok => Reply::Differ(STATUSES[*c as usize - '0' as usize]),
                _ => panic!("harness: bad reply {c}"),
            };
        }
        script.lock().unwrap().shard = replies;
    }

    /// replies of the two other helpers of `me` (order: left, right)
    fn script_peer_replies(script: &Arc<Mutex<Script>>, me: HelperIdentity, spec: &str) {
        let p: Vec<char> = spec.chars().collect();
        let [right, left] = me.others();
        let mut sc = script.lock().unwrap();
        sc.mpc = [None; 3];
        let idx = |id: HelperIdentity| HelperIdentity::make_three().iter().position(|x| *x == id).unwrap();
        sc.mpc[idx(left)] = Some(if p[0] == 'o' { Reply::Ok } else { Reply::Reject });
        sc.mpc[idx(right)] = Some(if p[1] == 'o' { Reply::Ok } else { Reply::Reject });
    }

    struct World {
        processor: Arc<Processor>,
        script: Arc<Mutex<Script>>,
        mpc: InMemoryMpcNetwork,
        shards: InMemoryShardNetwork,
        _mpc_handlers: Vec<Arc<dyn RequestHandler<HelperIdentity>>>,
        _shard_handlers: Vec<Arc<dyn RequestHandler<ShardIndex>>>,
        h: usize,
        s: u32,
        n: u32,
        senders: Vec<Option<tokio::sync::oneshot::Sender<QueryResult>>>,
        pending: Vec<(usize, tokio::task::JoinHandle<Result<(), QueryCompletionError>>)>,
    }

    impl World {
        fn new(h: usize, s: u32, n: u32) -> Self {
            let script = Arc::new(Mutex::new(Script::default()));
            let (mpc, shards, mpc_handlers, shard_handlers) = networks(&script, n);
            World {
                processor: Arc::new(Processor::default()),
                script,
                mpc,
                shards,
                _mpc_handlers: mpc_handlers,
                _shard_handlers: shard_handlers,
                h,
                s,
                n,
                senders: Vec::new(),
                pending: Vec::new(),
            }
        }

        fn me(&self) -> HelperIdentity {
            HelperIdentity::make_three()[self.h]
        }

        fn mpc_t(&self) -> crate::helpers::InMemoryTransport<HelperIdentity> {
            self.mpc.transport(self.me())
        }

        fn shard_t(&self) -> crate::helpers::InMemoryTransport<ShardIndex> {
            self.shards.transport(self.me(), ShardIndex::from(self.s))
        }

        /// one scripted reply per *other* shard, in increasing shard order
        fn set_shard_replies(&self, spec: &str, differ_ok: bool) {
            script_shard_replies(&self.script, self.s, self.n, spec, differ_ok);
        }

        fn passive_status(&self) -> String {
            match self.processor.ipa_verif_queries().handle(QueryId).status() {
                None => "none".into(),
                Some(s) => format!("{s:?}"),
            }
        }

        async fn settle(&self) {
            for _ in 0..64 {
                tokio::task::yield_now().await;
            }
        }

        /// pending `complete` calls that have finished: (task id, result)
        async fn reap(&mut self) -> Vec<(usize, String)> {
            let mut done = Vec::new();
            let mut i = 0;
            while i < self.pending.len() {
                if self.pending[i].1.is_finished() {
                    let (id, jh) = self.pending.remove(i);
                    let r = match jh.await {
                        Ok(r) => completion_result(&r),
                        Err(e) => format!("panic:{}", canon(&e.to_string())),
                    };
                    done.push((id, r));
                } else {
                    i += 1;
                }
            }
            done
        }

        async fn op(&mut self, op: &str) -> String {
            let parts: Vec<&str> = op.split(':').collect();
            let res = match parts[0] {
                "nq" => {
                    script_peer_replies(&self.script, self.me(), parts[1]);
                    self.set_shard_replies(parts.get(2).copied().unwrap_or(""), false);
                    match self.processor.new_query(self.mpc_t(), self.shard_t(), config()).await {
                        Ok(pq) => {
                            assert_eq!(pq.roles.role(self.me()), crate::helpers::Role::H1);
                            "ok".to_string()
                        }
                        Err(NewQueryError::State(e)) => format!("err:{}", state_error(&e)),
                        Err(NewQueryError::MpcTransport(_)) => "err:MpcTransport".into(),
                        Err(NewQueryError::ShardBroadcastError(_)) => "err:ShardBroadcast".into(),
                    }
                }
                "ph" => {
                    self.set_shard_replies(parts.get(1).copied().unwrap_or(""), false);
                    let req = PrepareQuery { query_id: QueryId, config: config(), roles: roles() };
                    match self.processor.prepare_helper(self.mpc_t(), self.shard_t(), req).await {
                        Ok(()) => "ok".to_string(),
                        Err(e) => format!("err:{}", prepare_error(&e)),
                    }
                }
                "ps" => {
                    let req = PrepareQuery { query_id: QueryId, config: config(), roles: roles() };
                    match self.processor.prepare_shard(&self.shard_t(), req) {
                        Ok(()) => "ok".to_string(),
                        Err(e) => format!("err:{}", prepare_error(&e)),
                    }
                }
                "ri" => {
                    match self.processor.receive_inputs(self.mpc_t(), self.shard_t(), QueryId, BodyStream::empty()) {
                        Ok(()) => {
                            // Replace the real protocol task (never polled so far: current-thread
                            // runtime, no await since it was spawned) by a stub whose result we control.
                            let (tx, rx) = tokio::sync::oneshot::channel();
                            let mut q = self.processor.ipa_verif_queries().inner.lock().unwrap();
                            match q.remove(&QueryId) {
                                Some(QueryState::Running(real)) => real.join_handle.abort(),
                                _ => panic!("harness: receive_inputs returned Ok but the state is not Running"),
                            }
                            q.insert(
                                QueryId,
                                QueryState::Running(RunningQuery {
                                    result: rx,
                                    join_handle: IpaRuntime::current().spawn(std::future::pending()),
                                }),
                            );
                            self.senders.push(Some(tx));
                            format!("ok:{}", self.senders.len() - 1)
                        }
                        Err(QueryInputError::NoSuchQuery(_)) => "err:NoSuchQuery".into(),
                        Err(QueryInputError::StateError { source }) => format!("err:{}", state_error(&source)),
                    }
                }
                "qs" => {
                    self.set_shard_replies(parts.get(1).copied().unwrap_or(""), true);
                    match self.processor.query_status(self.shard_t(), QueryId).await {
                        Ok(s) => format!("ok:{s:?}"),
                        Err(e) => format!("err:{}", status_error(&e)),
                    }
                }
                "ss" => {
                    let k: usize = parts[1].parse().unwrap();
                    let req = CompareStatusRequest { query_id: QueryId, status: STATUSES[k] };
                    match self.processor.shard_status(&self.shard_t(), &req) {
                        Ok(s) => format!("ok:{s:?}"),
                        Err(e) => format!("err:{}", status_error(&e)),
                    }
                }
                "co" => {
                    self.set_shard_replies(parts.get(1).copied().unwrap_or(""), false);
                    let p = Arc::clone(&self.processor);
                    let st = self.shard_t();
                    // which task would this call wait for?
                    let task_id = self.senders.len().wrapping_sub(1);
                    let jh = tokio::spawn(async move { p.complete(QueryId, st).await.map(|_| ()) });
                    self.settle().await;
                    if jh.is_finished() {
                        match jh.await {
                            Ok(r) => completion_result(&r),
                            Err(e) => format!("panic:{}", canon(&e.to_string())),
                        }
                    } else {
                        self.pending.push((task_id, jh));
                        format!("pending:{task_id}")
                    }
                }
                "ki" => match self.processor.kill(QueryId) {
                    Ok(_) => "ok".to_string(),
                    Err(QueryKillStatus::NoSuchQuery(_)) => "err:NoSuchQuery".into(),
                },
                "to" | "te" => {
                    let id: usize = parts[1].parse().unwrap();
                    let r = if parts[0] == "to" { ok_result() } else { err_result() };
                    match self.senders.get_mut(id).and_then(Option::take) {
                        None => "dropped".to_string(),
                        Some(tx) => {
                            let was_pending = self.pending.iter().any(|(t, _)| *t == id);
                            match tx.send(r) {
                                Err(_) => "dropped".to_string(),
                                Ok(()) => {
                                    self.settle().await;
                                    if was_pending {
                                        let done = self.reap().await;
                                        match done.iter().find(|(t, _)| *t == id) {
                                            Some((_, r)) => format!("resolved:{r}"),
                                            None => "unresolved".to_string(),
                                        }
                                    } else {
                                        "stored".to_string()
                                    }
                                }
                            }
                        }
                    }
                }
                _ => panic!("harness: unknown op {op}"),
            };
            self.settle().await;
            // no pending completion may finish except through its own task event
            let stray = self.reap().await;
            let mut out = res;
            for (id, r) in stray {
                out.push_str(&format!("+stray{id}={r}"));
            }
            format!("{out}/{}", self.passive_status())
        }
    }

    fn completion_result(r: &Result<(), QueryCompletionError>) -> String {
        match r {
            Ok(()) => "ok".into(),
            Err(QueryCompletionError::NoSuchQuery(_)) => "err:NoSuchQuery".into(),
            Err(QueryCompletionError::StateError { source }) => format!("err:{}", state_error(source)),
            Err(QueryCompletionError::ExecutionError(_)) => "err:Execution".into(),
            Err(QueryCompletionError::ShardError(_)) => "err:ShardError".into(),
        }
    }

    fn prepare_error(e: &PrepareQueryError) -> String {
        match e {
            PrepareQueryError::WrongTarget => "WrongTarget".into(),
            PrepareQueryError::NotLeader(_) => "NotLeader".into(),
            PrepareQueryError::Leader => "Leader".into(),
            PrepareQueryError::AlreadyRunning => "AlreadyRunning".into(),
            PrepareQueryError::StateError { source } => state_error(source),
            PrepareQueryError::ShardBroadcastError(_) => "ShardBroadcast".into(),
        }
    }

    fn status_error(e: &QueryStatusError) -> String {
        match e {
            QueryStatusError::NoSuchQuery(_) => "NoSuchQuery".into(),
            QueryStatusError::ShardBroadcastError(_) => "ShardBroadcast".into(),
            QueryStatusError::NotLeader(_) => "NotLeader".into(),
            QueryStatusError::Leader => "Leader".into(),
            QueryStatusError::DifferentStatus { my_status, other_status, .. } => {
                format!("DifferentStatus:{my_status:?}:{other_status:?}")
            }
        }
    }

    pub fn exec_hist(req: &str) -> String {
        let t: Vec<&str> = req.split(' ').collect();
        assert_eq!(t[0], "c18.hist");
        let (h, s, n): (usize, u32, u32) = (t[1].parse().unwrap(), t[2].parse().unwrap(), t[3].parse().unwrap());
        let ops: Vec<String> = t[4].split(',').map(str::to_string).collect();
        current_thread(async move {
            let mut w = World::new(h, s, n);
            let mut out = Vec::new();
            for op in &ops {
                out.push(w.op(op).await);
            }
            for (_, jh) in w.pending.drain(..) {
                jh.abort();
            }
            out.join(",")
        })
        .unwrap_or_else(|e| e)
    }

    fn rep(c: char, k: u32) -> String {
        std::iter::repeat(c).take(k as usize).collect()
    }

    /// the op alphabet for a processor with `k` other shards
    fn alphabet(k: u32, full: bool) -> Vec<String> {
        let o = rep('o', k);
        let mut v = vec![format!("nq:oo:{o}"), "ps".to_string(), format!("ph:{o}"), "ri".to_string(),
                         format!("qs:{o}"), "ss:2".to_string(), format!("co:{o}"), "ki".to_string(),
                         "to:0".to_string(), "te:0".to_string()];
        if full {
            v.push(format!("nq:eo:{o}"));
            v.push(format!("nq:oe:{o}"));
            v.push("to:1".to_string());
            v.push("te:1".to_string());
            for k2 in [0usize, 1, 3, 4] {
                v.push(format!("ss:{k2}"));
            }
            if k > 0 {
                let e = format!("e{}", rep('o', k - 1));
                v.push(format!("nq:oo:{e}"));
                v.push(format!("ph:{e}"));
                v.push(format!("co:{e}"));
                v.push(format!("qs:x{}", rep('o', k - 1)));
                for d in 0..5 {
                    v.push(format!("qs:{d}{}", rep('o', k - 1)));
                }
            }
        }
        v
    }

    fn enumerate(alpha: &[String], depth: usize, prefix: &mut Vec<String>, head: &str, out: &mut Vec<String>) {
        if !prefix.is_empty() {
            out.push(format!("{head} {}", prefix.join(",")));
        }
        if prefix.len() == depth {
            return;
        }
        for a in alpha {
            prefix.push(a.clone());
            enumerate(alpha, depth, prefix, head, out);
            prefix.pop();
        }
    }

    fn random_op(rng: &mut Rng, k: u32, tasks: &mut usize) -> String {
        let reps = |rng: &mut Rng, alphabet: &[char], bias: u64| -> String {
            (0..k).map(|_| if rng.below(bias) == 0 { *rng.pick(&alphabet[1..]) } else { alphabet[0] }).collect()
        };
        match rng.below(16) {
            0 | 1 => {
                let p: String = (0..2).map(|_| if rng.below(6) == 0 { 'e' } else { 'o' }).collect();
                format!("nq:{p}:{}", reps(rng, &['o', 'e'], 6))
            }
            2 => format!("ph:{}", reps(rng, &['o', 'e'], 6)),
            3 => "ps".into(),
            4 | 5 | 6 => {
                *tasks += 1;
                "ri".into()
            }
            7 => format!("qs:{}", reps(rng, &['o', '0', '1', '2', '3', '4', 'x'], 2)),
            8 => format!("ss:{}", rng.below(5)),
            9 | 10 | 11 => format!("co:{}", reps(rng, &['o', 'e'], 8)),
            12 => "ki".into(),
            13 | 14 => format!("to:{}", rng.below((*tasks as u64).max(1) + 1)),
            _ => format!("te:{}", rng.below((*tasks as u64).max(1) + 1)),
        }
    }

    pub fn gen_hist(rng: &mut Rng, thorough: bool) -> Vec<String> {
        let mut v = Vec::new();
        // scripted scenarios first (the ones the property text names)
        for (h, s, n) in [(0usize, 0u32, 1u32), (0, 0, 2), (1, 0, 2), (1, 1, 2), (0, 1, 3), (2, 0, 3)] {
            let k = n - 1;
            let o = rep('o', k);
            let create = if s == 0 { if h == 0 { format!("nq:oo:{o}") } else { format!("ph:{o}") } } else { "ps".to_string() };
            let head = format!("c18.hist {h} {s} {n}");
            for sc in [
                format!("{create},ri,to:0,qs:{o},co:{o},co:{o},{create}"),
                format!("{create},ri,co:{o},ki,{create},to:0,qs:{o},ss:1"),
                format!("{create},ri,co:{o},co:{o},ki,ki,to:0"),
                format!("{create},ri,ri,te:0,co:{o},qs:{o},{create},ri,to:1,co:{o}"),
                format!("qs:{o},ss:2,co:{o},ki,ri,{create},{create},ri,ki,to:0,{create}"),
                format!("{create},ri,co:{o},ki,{create},ri,co:{o},to:0,to:1,qs:{o}"),
                format!("nq:eo:{o},qs:{o},nq:oe:{o},qs:{o},nq:oo:{o},qs:{o}"),
            ] {
                v.push(format!("{head} {sc}"));
            }
        }
        // exhaustive: full alphabet to depth 3, reduced alphabet to depth 4 (5 when thorough)
        for (h, s, n) in [(0usize, 0u32, 2u32), (1, 0, 2), (1, 1, 2), (0, 0, 1)] {
            let head = format!("c18.hist {h} {s} {n}");
            let full = alphabet(n - 1, true);
            enumerate(&full, if thorough { 3 } else { 2 }, &mut Vec::new(), &head, &mut v);
            let small = alphabet(n - 1, false);
            enumerate(&small, if thorough { 5 } else { 4 }, &mut Vec::new(), &head, &mut v);
        }
        // random long histories
        let count = if thorough { 20000 } else { 1500 };
        for _ in 0..count {
            let n = 1 + rng.below(4) as u32;
            let s = if rng.bool() { 0 } else { rng.below(u64::from(n)) as u32 };
            let h = rng.usize_below(3);
            let len = if rng.below(4) == 0 { 1 + rng.usize_below(8) } else { 30 };
            let mut tasks = 0usize;
            let ops: Vec<String> = (0..len).map(|_| random_op(rng, n - 1, &mut tasks)).collect();
            v.push(format!("c18.hist {h} {s} {n} {}", ops.join(",")));
        }
        v
    }

    // ------------------------------------------------------------------ app / request-handler level
    use crate::{
        AppSetup, HelperApp,
        app::AppConfig,
        cli::{LoggingHandle, install_collector},
        helpers::{HandlerRef, TransportIdentity, query::QueryInput, routing::Addr},
        protocol::Gate,
    };

    /// payload of stub task `id`: one BA64 holding RESULT_BASE + id
    const RESULT_BASE: u64 = 0x00c1_8000_0000;

    fn app_ok_result(id: usize) -> QueryResult {
        use crate::ff::U128Conversions;
        Ok(Box::new(vec![BA64::truncate_from(u128::from(RESULT_BASE) + id as u128)]))
    }

    fn completion_error(e: &QueryCompletionError) -> String {
        match e {
            QueryCompletionError::NoSuchQuery(_) => "NoSuchQuery".into(),
            QueryCompletionError::StateError { source } => state_error(source),
            QueryCompletionError::ExecutionError(_) => "Execution".into(),
            QueryCompletionError::ShardError(_) => "ShardError".into(),
        }
    }

    fn new_query_error(e: &NewQueryError) -> String {
        match e {
            NewQueryError::State(e) => state_error(e),
            NewQueryError::MpcTransport(_) => "MpcTransport".into(),
            NewQueryError::ShardBroadcastError(_) => "ShardBroadcast".into(),
        }
    }

    fn api_error(e: &ApiError) -> String {
        match e {
            ApiError::NewQuery(e) => format!("NewQuery:{}", new_query_error(e)),
            ApiError::QueryInput(QueryInputError::NoSuchQuery(_)) => "QueryInput:NoSuchQuery".into(),
            ApiError::QueryInput(QueryInputError::StateError { source }) => format!("QueryInput:{}", state_error(source)),
            ApiError::QueryPrepare(e) => format!("QueryPrepare:{}", prepare_error(e)),
            ApiError::QueryCompletion(e) => format!("QueryCompletion:{}", completion_error(e)),
            ApiError::QueryStatus(e) => format!("QueryStatus:{}", status_error(e)),
            ApiError::QueryKill(QueryKillStatus::NoSuchQuery(_)) => "QueryKill:NoSuchQuery".into(),
            ApiError::DeserializationFailure(_) => "DeserializationFailure".into(),
            ApiError::BadRequest(_) => "BadRequest".into(),
        }
    }

    /// class of a response body (independent of the route, except Metrics whose body is free text)
    fn body_class(metrics: bool, body: &[u8]) -> String {
        if metrics {
            return "ok:metrics".into();
        }
        if body.is_empty() {
            return "ok:empty".into();
        }
        if let Ok(serde_json::Value::Object(m)) = serde_json::from_slice::<serde_json::Value>(body) {
            let mut keys: Vec<&str> = m.keys().map(String::as_str).collect();
            keys.sort_unstable();
            return match keys.as_slice() {
                ["query_id"] => "ok:prepared".into(),
                ["status"] => match serde_json::from_value::<QueryStatus>(m["status"].clone()) {
                    Ok(s) => format!("ok:status:{s:?}"),
                    Err(_) => format!("ok:json:{}", canon(&String::from_utf8_lossy(body))),
                },
                ["query_id", "status"] if m["status"] == "killed" => "ok:killed".into(),
                _ => format!("ok:json:{}", canon(&String::from_utf8_lossy(body))),
            };
        }
        if body.len() == 8 {
            let v = u64::from_le_bytes(body.try_into().unwrap());
            if v >= RESULT_BASE && v < RESULT_BASE + 1_000_000 {
                return format!("ok:result:{}", v - RESULT_BASE);
            }
        }
        format!("ok:bytes:{}", hex(body))
    }

    fn response_class(metrics: bool, r: Result<HelperResponse, ApiError>) -> String {
        match r {
            Ok(resp) => body_class(metrics, &resp.into_body()),
            Err(e) => format!("err:{}", api_error(&e)),
        }
    }

    struct AppItem<'a> {
        name: &'a str,
        mods: Vec<&'a str>,
        origin: Option<u32>,
        args: Vec<&'a str>,
    }

    fn parse_item(tok: &str) -> AppItem<'_> {
        let mut parts = tok.split(':');
        let head = parts.next().unwrap();
        let args: Vec<&str> = parts.collect();
        let (head, origin) = match head.split_once('@') {
            Some((a, o)) => (a, Some(o.parse().expect("harness: bad origin"))),
            None => (head, None),
        };
        let mut m = head.split('!');
        let name = m.next().unwrap();
        AppItem { name, mods: m.collect(), origin, args }
    }

    fn id_only_json() -> String {
        serde_json::to_string(&serde_json::json!({ "query_id": QueryId })).unwrap()
    }

    /// what a p<k> mod turns the proper params `good` (expected type `ty`) into
    fn mangle_params(good: &str, ty: &str, k: &str) -> String {
        let prepare = serde_json::to_string(&PrepareQuery { query_id: QueryId, config: config(), roles: roles() }).unwrap();
        let query_config = serde_json::to_string(&config()).unwrap();
        match k {
            "p0" => String::new(),
            "p1" => "{}".into(),
            "p2" => good[..good.len() / 2].to_string(),
            "p3" => if ty == "PrepareQuery" { query_config } else { prepare },
            "p4" => id_only_json(),
            "p5" => "size=1&field_type=fp31&query_type=test-multiply".into(),
            "p6" => {
                assert!(good.starts_with('{'));
                format!("{{\"ipa_verif_extra\":[1,{{\"a\":null}}],{}", &good[1..])
            }
            _ => panic!("harness: unknown params mod {k}"),
        }
    }

    fn apply_mods<I: TransportIdentity>(mut addr: Addr<I>, it: &AppItem<'_>, ty: &str) -> Addr<I> {
        for m in &it.mods {
            match *m {
                "noid" => addr.query_id = None,
                k if k.starts_with('p') => addr.params = mangle_params(&addr.params.clone(), ty, k),
                other => panic!("harness: unknown mod {other}"),
            }
        }
        addr
    }

    struct AppWorld {
        app: Arc<HelperApp>,
        mpc_ref: HandlerRef<HelperIdentity>,
        shard_ref: HandlerRef<ShardIndex>,
        script: Arc<Mutex<Script>>,
        _mpc: InMemoryMpcNetwork,
        _shards: InMemoryShardNetwork,
        _mpc_handlers: Vec<Arc<dyn RequestHandler<HelperIdentity>>>,
        _shard_handlers: Vec<Arc<dyn RequestHandler<ShardIndex>>>,
        h: usize,
        s: u32,
        n: u32,
        senders: Vec<Option<tokio::sync::oneshot::Sender<QueryResult>>>,
        pending: Vec<(usize, tokio::task::JoinHandle<String>)>,
    }

    impl AppWorld {
        /// Must run inside the tokio runtime (`AppConfig::default()` captures the current handle).
        fn new(h: usize, s: u32, n: u32) -> Self {
            let script = Arc::new(Mutex::new(Script::default()));
            let (mpc, shards, mpc_handlers, shard_handlers) = networks(&script, n);
            let me = HelperIdentity::make_three()[h];
            // exactly what `TestApp::default` / the helper binary do: Setup::new, then connect
            let (setup, mpc_ref, shard_ref) = AppSetup::new(AppConfig::default());
            let logging_handle = LoggingHandle { metrics_handle: install_collector().unwrap() };
            let app = setup.connect(mpc.transport(me), shards.transport(me, ShardIndex::from(s)), logging_handle);
            AppWorld {
                app: Arc::new(app),
                mpc_ref,
                shard_ref,
                script,
                _mpc: mpc,
                _shards: shards,
                _mpc_handlers: mpc_handlers,
                _shard_handlers: shard_handlers,
                h,
                s,
                n,
                senders: Vec::new(),
                pending: Vec::new(),
            }
        }

        fn me(&self) -> HelperIdentity {
            HelperIdentity::make_three()[self.h]
        }

        fn processor(&self) -> &Processor {
            self.app.ipa_verif_query_processor()
        }

        fn passive_status(&self) -> String {
            match self.processor().ipa_verif_queries().handle(QueryId).status() {
                None => "none".into(),
                Some(s) => format!("{s:?}"),
            }
        }

        async fn settle(&self) {
            for _ in 0..64 {
                tokio::task::yield_now().await;
            }
        }

        async fn reap(&mut self) -> Vec<(usize, String)> {
            let mut done = Vec::new();
            let mut i = 0;
            while i < self.pending.len() {
                if self.pending[i].1.is_finished() {
                    let (id, jh) = self.pending.remove(i);
                    let r = match jh.await {
                        Ok(r) => r,
                        Err(e) => format!("panic:{}", canon(&e.to_string())),
                    };
                    done.push((id, r));
                } else {
                    i += 1;
                }
            }
            done
        }

        /// After a successful QueryInput: replace the real protocol task (never polled so far) by a stub.
        fn install_stub(&mut self) {
            let (tx, rx) = tokio::sync::oneshot::channel();
            let mut q = self.processor().ipa_verif_queries().inner.lock().unwrap();
            match q.remove(&QueryId) {
                Some(QueryState::Running(real)) => real.join_handle.abort(),
                _ => panic!("harness: QueryInput answered ok but the state is not Running"),
            }
            q.insert(
                QueryId,
                QueryState::Running(RunningQuery {
                    result: rx,
                    join_handle: IpaRuntime::current().spawn(std::future::pending()),
                }),
            );
            drop(q);
            self.senders.push(Some(tx));
        }

        fn mpc_origin(&self, it: &AppItem<'_>) -> Option<HelperIdentity> {
            it.origin.map(|k| HelperIdentity::make_three()[k as usize % 3])
        }

        fn shard_origin(&self, it: &AppItem<'_>) -> Option<ShardIndex> {
            it.origin.map(ShardIndex::from)
        }

        /// the `Addr` the transport layer would build for this item (MPC side), then the mods
        fn mpc_addr(&self, it: &AppItem<'_>) -> Addr<HelperIdentity> {
            let o = self.mpc_origin(it);
            let prepare = PrepareQuery { query_id: QueryId, config: config(), roles: roles() };
            // status / results / kill requests of the HTTP layer carry `{"query_id":…}` as params
            let with_id = |route: RouteId| Addr { route, origin: o, query_id: Some(QueryId), gate: None, params: id_only_json() };
            let (addr, ty) = match it.name {
                "nq" => (Addr::from_route(o, &config()), "QueryConfig"),
                "ph" => (Addr::from_route(o, prepare), "PrepareQuery"),
                "ri" => (Addr::from_route(o, (RouteId::QueryInput, QueryId)), "-"),
                "qs" => (with_id(RouteId::QueryStatus), "-"),
                "co" => (with_id(RouteId::CompleteQuery), "-"),
                "ki" => (with_id(RouteId::KillQuery), "-"),
                "me" => (Addr::from_route(o, RouteId::Metrics), "-"),
                "rec" => (Addr::from_route(o, (RouteId::Records, QueryId, Gate::default())), "-"),
                other => panic!("harness: unknown MPC item {other}"),
            };
            apply_mods(addr, it, ty)
        }

        fn shard_addr(&self, it: &AppItem<'_>) -> Addr<ShardIndex> {
            let o = self.shard_origin(it);
            let prepare = PrepareQuery { query_id: QueryId, config: config(), roles: roles() };
            let (addr, ty) = match it.name {
                "ps" => (Addr::from_route(o, prepare), "PrepareQuery"),
                "ss" => {
                    let k: usize = it.args[0].parse().unwrap();
                    (Addr::from_route(o, CompareStatusRequest { query_id: QueryId, status: STATUSES[k] }), "CompareStatusRequest")
                }
                // what the leader shard broadcasts in `Processor::complete`
                "sco" => (Addr::from_route(o, (RouteId::CompleteQuery, QueryId)), "-"),
                "srec" => (Addr::from_route(o, (RouteId::Records, QueryId, Gate::default())), "-"),
                "snq" => (Addr::from_route(o, &config()), "QueryConfig"),
                "sri" => (Addr::from_route(o, (RouteId::QueryInput, QueryId)), "-"),
                "ski" => (Addr { route: RouteId::KillQuery, origin: o, query_id: Some(QueryId), gate: None, params: id_only_json() }, "-"),
                "sme" => (Addr::from_route(o, RouteId::Metrics), "-"),
                other => panic!("harness: unknown shard item {other}"),
            };
            apply_mods(addr, it, ty)
        }

        async fn item(&mut self, tok: &str) -> String {
            let it = parse_item(tok);
            let arg = |i: usize| it.args.get(i).copied().unwrap_or("");
            // scripted replies of the others
            match it.name {
                "nq" | "anq" => {
                    script_peer_replies(&self.script, self.me(), arg(0));
                    script_shard_replies(&self.script, self.s, self.n, arg(1), false);
                }
                "ph" | "co" | "sco" | "aco" => script_shard_replies(&self.script, self.s, self.n, arg(0), false),
                "qs" | "aqs" => script_shard_replies(&self.script, self.s, self.n, arg(0), true),
                _ => {}
            }
            let well_formed_input = |it: &AppItem<'_>| !it.mods.contains(&"noid");
            let res = match it.name {
                // ---- requests that may stay in flight: spawned
                "co" | "sco" | "aco" => {
                    let task_id = self.senders.len().wrapping_sub(1);
                    let jh = match it.name {
                        "co" => {
                            let (r, addr) = (self.mpc_ref.clone(), self.mpc_addr(&it));
                            tokio::spawn(async move { response_class(false, r.handle(addr, BodyStream::empty()).await) })
                        }
                        "sco" => {
                            let (r, addr) = (self.shard_ref.clone(), self.shard_addr(&it));
                            tokio::spawn(async move { response_class(false, r.handle(addr, BodyStream::empty()).await) })
                        }
                        _ => {
                            let app = Arc::clone(&self.app);
                            tokio::spawn(async move {
                                match app.complete_query(QueryId).await {
                                    Ok(bytes) => body_class(false, &bytes),
                                    Err(e) => format!("err:{}", api_error(&e)),
                                }
                            })
                        }
                    };
                    self.settle().await;
                    if jh.is_finished() {
                        match jh.await {
                            Ok(r) => r,
                            Err(e) => format!("panic:{}", canon(&e.to_string())),
                        }
                    } else {
                        self.pending.push((task_id, jh));
                        format!("pending:{task_id}")
                    }
                }
                // ---- the other requests of the MPC handler
                "nq" | "ph" | "ri" | "qs" | "ki" | "me" | "rec" => {
                    let addr = self.mpc_addr(&it);
                    let body = if it.name == "ri" { BodyStream::from(vec![1u8, 2, 3, 4]) } else { BodyStream::empty() };
                    let r = self.mpc_ref.handle(addr, body).await;
                    if it.name == "ri" && r.is_ok() {
                        assert!(well_formed_input(&it), "harness: QueryInput without query id accepted");
                        self.install_stub();
                    }
                    response_class(it.name == "me", r)
                }
                // ---- requests of the shard handler
                "ps" | "ss" | "srec" | "snq" | "sri" | "ski" | "sme" => {
                    let addr = self.shard_addr(&it);
                    let r = self.shard_ref.handle(addr, BodyStream::empty()).await;
                    if it.name == "sri" && r.is_ok() {
                        self.install_stub();
                    }
                    response_class(false, r)
                }
                // ---- HelperApp methods
                "anq" => match self.app.start_query(config()).await {
                    Ok(QueryId) => "ok:prepared".to_string(),
                    Err(e) => format!("err:NewQuery:{}", new_query_error(&e)),
                },
                "ari" => {
                    let input = QueryInput::Inline { query_id: QueryId, input_stream: BodyStream::from(vec![1u8, 2, 3, 4]) };
                    match self.app.execute_query(input) {
                        Ok(()) => {
                            self.install_stub();
                            "ok:empty".to_string()
                        }
                        Err(e) => format!("err:{}", api_error(&e)),
                    }
                }
                "aqs" => match self.app.query_status(QueryId).await {
                    Ok(s) => format!("ok:status:{s:?}"),
                    Err(e) => format!("err:{}", api_error(&e)),
                },
                // ---- task events
                "to" | "te" => {
                    let id: usize = arg(0).parse().unwrap();
                    let r = if it.name == "to" { app_ok_result(id) } else { err_result() };
                    match self.senders.get_mut(id).and_then(Option::take) {
                        None => "dropped".to_string(),
                        Some(tx) => {
                            let was_pending = self.pending.iter().any(|(t, _)| *t == id);
                            match tx.send(r) {
                                Err(_) => "dropped".to_string(),
                                Ok(()) => {
                                    self.settle().await;
                                    if was_pending {
                                        let done = self.reap().await;
                                        match done.iter().find(|(t, _)| *t == id) {
                                            Some((_, r)) => format!("resolved:{r}"),
                                            None => "unresolved".to_string(),
                                        }
                                    } else {
                                        "stored".to_string()
                                    }
                                }
                            }
                        }
                    }
                }
                other => panic!("harness: unknown item {other}"),
            };
            self.settle().await;
            let stray = self.reap().await;
            let mut out = res;
            for (id, r) in stray {
                out.push_str(&format!("+stray{id}={r}"));
            }
            format!("{out}/{}", self.passive_status())
        }
    }

    pub fn exec_app(req: &str) -> String {
        let t: Vec<&str> = req.split(' ').collect();
        assert_eq!(t[0], "c18.app");
        let (h, s, n): (usize, u32, u32) = (t[1].parse().unwrap(), t[2].parse().unwrap(), t[3].parse().unwrap());
        let items: Vec<String> = t[4].split(',').map(str::to_string).collect();
        current_thread(async move {
            let mut w = AppWorld::new(h, s, n);
            let mut out = Vec::new();
            for it in &items {
                // a panic of the handler is the response of that item; the history ends there
                out.push(w.item(it).await);
            }
            for (_, jh) in w.pending.drain(..) {
                jh.abort();
            }
            out.join(",")
        })
        .unwrap_or_else(|e| e)
    }

    /// the lifecycle requests of a helper at this position: create, inputs, status, complete, kill,
    /// the task returning, and two malformed requests
    fn app_base(h: usize, s: u32, n: u32) -> Vec<String> {
        let o = rep('o', n - 1);
        let leader = s == 0;
        let create = if !leader { "ps".to_string() } else if h == 0 { format!("nq:oo:{o}") } else { format!("ph:{o}") };
        let status = if leader { format!("qs:{o}") } else { "ss:2".to_string() };
        let complete = if leader { format!("co:{o}") } else { format!("sco:{o}") };
        let bad_params = if !leader { "ps!p1".to_string() } else if h == 0 { format!("nq!p3:oo:{o}") } else { format!("ph!p2:{o}") };
        vec![create, "ri".into(), status, complete, "ki".into(), "to:0".into(), "ki!noid".into(), bad_params]
    }

    /// every kind of item (all routes on both handlers, all mods, origins, scripted rejections, methods)
    fn app_full(h: usize, s: u32, n: u32) -> Vec<String> {
        let k = n - 1;
        let o = rep('o', k);
        let mut v: Vec<String> = vec![
            format!("nq:oo:{o}"), format!("ph:{o}"), "ps".into(), "ri".into(), format!("qs:{o}"), format!("co:{o}"),
            format!("sco:{o}"), "ki".into(), "me".into(), format!("anq:oo:{o}"), "ari".into(), format!("aqs:{o}"),
            format!("aco:{o}"), "to:0".into(), "te:0".into(), "to:1".into(), "te:1".into(),
            // routes the handlers do not serve
            "rec".into(), "srec".into(), "snq".into(), "sri".into(), "ski".into(), "sme".into(),
            // missing query id: required …
            "ri!noid".into(), format!("qs!noid:{o}"), format!("co!noid:{o}"), "ki!noid".into(), format!("sco!noid:{o}"),
            // … and not required (the id travels in the params)
            format!("ph!noid:{o}"), "ps!noid".into(), "ss!noid:1".into(),
            // origins (never looked at)
            format!("nq@1:oo:{o}"), "ri@0".into(), "ki@2".into(), "ps@0".into(), format!("sco@1:{o}"), format!("ph@{h}:{o}"),
            format!("qs@7:{o}"), "ss@5:2".into(), "ki!noid@1".into(), "rec@2".into(),
            // rejections by the peers
            format!("nq:eo:{o}"), format!("nq:oe:{o}"), format!("anq:ee:{o}"),
        ];
        for st in 0..5 {
            v.push(format!("ss:{st}"));
        }
        for m in 0..7 {
            v.push(format!("nq!p{m}:oo:{o}"));
            v.push(format!("ph!p{m}:{o}"));
            v.push(format!("ps!p{m}"));
            v.push(format!("ss!p{m}:{}", m % 5));
        }
        v.push(format!("nq!noid!p6@2:oo:{o}"));
        v.push("ps!p4!noid@1".into());
        if k > 0 {
            let e = format!("e{}", rep('o', k - 1));
            v.push(format!("nq:oo:{e}"));
            v.push(format!("ph:{e}"));
            v.push(format!("co:{e}"));
            v.push(format!("sco:{e}"));
            v.push(format!("aco:{e}"));
            v.push(format!("qs:x{}", rep('o', k - 1)));
            for d in 0..5 {
                v.push(format!("qs:{d}{}", rep('o', k - 1)));
            }
            v.push(format!("aqs:1{}", rep('o', k - 1)));
        }
        v
    }

    fn app_random_item(rng: &mut Rng, h: usize, k: u32, tasks: &mut usize) -> String {
        let reps = |rng: &mut Rng, alphabet: &[char], bias: u64| -> String {
            (0..k).map(|_| if rng.below(bias) == 0 { *rng.pick(&alphabet[1..]) } else { alphabet[0] }).collect()
        };
        let peers = |rng: &mut Rng| -> String { (0..2).map(|_| if rng.below(6) == 0 { 'e' } else { 'o' }).collect() };
        let origin = |rng: &mut Rng| -> String { if rng.below(3) == 0 { format!("@{}", rng.below(4)) } else { String::new() } };
        let noid = |rng: &mut Rng| -> &'static str { if rng.below(8) == 0 { "!noid" } else { "" } };
        let pmod = |rng: &mut Rng| -> String { if rng.below(6) == 0 { format!("!p{}", rng.below(7)) } else { String::new() } };
        let _ = h;
        match rng.below(32) {
            0 | 1 => format!("nq{}{}:{}:{}", pmod(rng), origin(rng), peers(rng), reps(rng, &['o', 'e'], 6)),
            2 => format!("anq:{}:{}", peers(rng), reps(rng, &['o', 'e'], 6)),
            3 | 4 => format!("ph{}{}{}:{}", pmod(rng), noid(rng), origin(rng), reps(rng, &['o', 'e'], 6)),
            5 | 6 => format!("ps{}{}{}", pmod(rng), noid(rng), origin(rng)),
            7 | 8 | 9 | 10 => {
                let n = noid(rng);
                if n.is_empty() {
                    *tasks += 1;
                }
                format!("ri{n}{}", origin(rng))
            }
            11 => {
                *tasks += 1;
                "ari".into()
            }
            12 | 13 => format!("qs{}{}:{}", noid(rng), origin(rng), reps(rng, &['o', '0', '1', '2', '3', '4', 'x'], 2)),
            14 => format!("aqs:{}", reps(rng, &['o', '0', '1', '2', '3', '4', 'x'], 2)),
            15 | 16 => format!("ss{}{}{}:{}", pmod(rng), noid(rng), origin(rng), rng.below(5)),
            17 | 18 | 19 => format!("co{}{}:{}", noid(rng), origin(rng), reps(rng, &['o', 'e'], 8)),
            20 => format!("sco{}{}:{}", noid(rng), origin(rng), reps(rng, &['o', 'e'], 8)),
            21 => format!("aco:{}", reps(rng, &['o', 'e'], 8)),
            22 | 23 => format!("ki{}{}", noid(rng), origin(rng)),
            24 => (*rng.pick(&["me", "rec", "srec", "snq", "sri", "ski", "sme"])).to_string(),
            25 | 26 | 27 | 28 => format!("to:{}", rng.below((*tasks as u64).max(1) + 1)),
            _ => format!("te:{}", rng.below((*tasks as u64).max(1) + 1)),
        }
    }

    pub fn gen_app(rng: &mut Rng, thorough: bool) -> Vec<String> {
        let mut v = Vec::new();
        let positions = [(0usize, 0u32, 1u32), (0, 0, 2), (1, 0, 2), (1, 1, 2)];
        // the scenarios the property text names, through the handlers
        for (h, s, n) in [(0usize, 0u32, 1u32), (0, 0, 2), (1, 0, 2), (1, 1, 2), (0, 1, 3), (2, 0, 3)] {
            let b = app_base(h, s, n);
            let (create, status, complete) = (&b[0], &b[2], &b[3]);
            let head = format!("c18.app {h} {s} {n}");
            for sc in [
                format!("{create},ri,to:0,{status},{complete},{complete},{create}"),
                format!("{create},ri,{complete},ki,{create},to:0,{status},me"),
                format!("{create},ri!noid,ri,ki!noid,{complete},rec,srec,to:0,{complete}"),
                format!("{create},ri,ri,te:0,{complete},{status},{create},ri,to:1,{complete}"),
                format!("{status},{complete},ki,ri,{create},{create},ri,ki,to:0,{create}"),
                format!("{create},ari,aco:{0},ki,{create},ari,aco:{0},to:0,to:1,{status}", rep('o', n - 1)),
            ] {
                v.push(format!("{head} {sc}"));
            }
        }
        // exhaustive: every history of the lifecycle requests (+ two malformed ones) to depth 4 (5 thorough)
        for (h, s, n) in positions {
            let head = format!("c18.app {h} {s} {n}");
            enumerate(&app_base(h, s, n), if thorough { 5 } else { 4 }, &mut Vec::new(), &head, &mut v);
        }
        // every kind of item after / before / between every lifecycle request
        for (h, s, n) in positions {
            let head = format!("c18.app {h} {s} {n}");
            let base = app_base(h, s, n);
            let full = app_full(h, s, n);
            let status = base[2].clone();
            for f in &full {
                v.push(format!("{head} {f},{status}"));
                for b in &base[..6] {
                    v.push(format!("{head} {b},{f},{status}"));
                    v.push(format!("{head} {f},{b},{status}"));
                }
                // in each lifecycle state: preparing is not reachable from outside; awaiting inputs, running,
                // awaiting completion, completed
                let (create, complete) = (&base[0], &base[3]);
                v.push(format!("{head} {create},ri,{f},{status}"));
                v.push(format!("{head} {create},ri,{complete},{f},{status},to:0"));
                v.push(format!("{head} {create},ri,to:0,{status},{f},{status}"));
                if thorough {
                    for g in &full {
                        v.push(format!("{head} {f},{g},{status}"));
                        v.push(format!("{head} {create},{f},{g},{status}"));
                        v.push(format!("{head} {create},ri,{f},{g},{status}"));
                    }
                }
            }
        }
        // random long histories
        let count = if thorough { 20000 } else { 1000 };
        for _ in 0..count {
            let n = 1 + rng.below(4) as u32;
            let s = if rng.bool() { 0 } else { rng.below(u64::from(n)) as u32 };
            let h = rng.usize_below(3);
            let len = if rng.below(4) == 0 { 1 + rng.usize_below(8) } else { 24 };
            let mut tasks = 0usize;
            let items: Vec<String> = (0..len).map(|_| app_random_item(rng, h, n - 1, &mut tasks)).collect();
            v.push(format!("c18.app {h} {s} {n} {}", items.join(",")));
        }
        v
    }
}

#[test]
fn verif_c18_app() {
    crate::ipa_verif::proto::run_suite("c18_app", c18::gen_app, c18::exec_app);
}

#[test]
fn verif_c18_tables() {
    crate::ipa_verif::proto::run_suite("c18_tables", c18::gen_tables, c18::exec_tables);
}

#[test]
fn verif_c18_histories() {
    crate::ipa_verif::proto::run_suite("c18_histories", c18::gen_hist, c18::exec_hist);
}
