// Suites that need access to items private to this module (feature ipa-verif, test builds only).

// ------------------------------------------------------------------------------------------------
// C09 — query string suite (c09_query): c09.query str|parse|rt|json …  (needs net::http_serde, private to net)

pub mod c09_qs {
    use axum::extract::FromRequestParts;

    use crate::ipa_verif::proto::*;
    use crate::{
        ff::FieldType,
        helpers::query::{HybridQueryParams, QueryConfig, QuerySize, QueryType},
        net::http_serde::query::QueryConfigQueryParams,
    };

    fn cfg(a: &[&str]) -> QueryConfig {
        let field_type = match a[1] {
            "Fp31" => FieldType::Fp31,
            "Fp32BitPrime" => FieldType::Fp32BitPrime,
            f => panic!("harness: unknown field type {f}"),
        };
        let size = QuerySize::try_from(a[2].parse::<u32>().unwrap()).expect("harness: invalid size");
        let query_type = match a[0] {
            "test-multiply" => QueryType::TestMultiply,
            "test-add" => QueryType::TestAddInPrimeField,
            "test-sharded-shuffle" => QueryType::TestShardedShuffle,
            "malicious-hybrid" => QueryType::MaliciousHybrid(HybridQueryParams {
                max_breakdown_key: a[3].parse().unwrap(),
                with_dp: a[4].parse().unwrap(),
                epsilon: a[5].parse().unwrap(),
                plaintext_match_keys: a[6] == "true",
            }),
            q => panic!("harness: unknown query type {q}"),
        };
        QueryConfig { size, field_type, query_type }
    }

    fn show(c: &QueryConfig) -> String {
        let base = format!("{} {:?} {}", c.query_type.as_ref(), c.field_type, c.size);
        match c.query_type {
            QueryType::MaliciousHybrid(p) => {
                format!("{base} {} {} {} {}", p.max_breakdown_key, p.with_dp, p.epsilon, p.plaintext_match_keys)
            }
            _ => base,
        }
    }

    fn parse(query: &str) -> String {
        let req = hyper::Request::get(format!("http://localhost/query?{query}")).body(()).unwrap();
        let (mut parts, ()) = req.into_parts();
        let r = block_on_timeout(10, async move { QueryConfigQueryParams::from_request_parts(&mut parts, &()).await });
        match r {
            Ok(Ok(c)) => format!("ok {}", show(&c.0)),
            Ok(Err(_)) => "err".into(),
            Err(t) => t,
        }
    }

    pub fn exec(a: &[&str]) -> String {
        match a[0] {
            "str" => QueryConfigQueryParams(cfg(&a[1..])).to_string(),
            "parse" => parse(a[1]),
            "rt" => parse(&QueryConfigQueryParams(cfg(&a[1..])).to_string()),
            "json" => {
                let c = cfg(&a[1..]);
                let text = serde_json::to_string(&c).unwrap();
                match serde_json::from_str::<QueryConfig>(&text) {
                    Ok(c2) if c2 == c => "rt-ok".into(),
                    Ok(_) => format!("rt-differs {text}"),
                    Err(e) => format!("rt-fail {}", canon(&e.to_string())),
                }
            }
            op => panic!("harness: unknown query op {op}"),
        }
    }

    pub fn generate(rng: &mut Rng, thorough: bool) -> Vec<String> {
        let mut out = vec![];
        let sizes: Vec<u64> = vec![1, 2, 255, 256, 65535, 65536, 999_999_999, 1_000_000_000];
        let eps: Vec<f64> = vec![5.0, 0.1, 1.151, 1e-9, 1e21, 3.0e-5, 0.0, 123456.789, f64::MIN_POSITIVE, f64::MAX];
        let mut cfgs: Vec<String> = vec![];
        for f in ["Fp31", "Fp32BitPrime"] {
            for qt in ["test-multiply", "test-add", "test-sharded-shuffle"] {
                for s in &sizes {
                    cfgs.push(format!("{qt} {f} {s}"));
                }
            }
            // every combination of the boundary values of the hybrid parameters
            for s in &sizes {
                for mbk in [0u32, 1, 5, 255, 256, u32::MAX] {
                    for dp in [0u32, 1, u32::MAX] {
                        for (i, e) in eps.iter().enumerate() {
                            for pm in [false, true] {
                                if !thorough && (i + (mbk as usize) + (dp as usize) + (*s as usize)) % 3 != 0 {
                                    continue;
                                }
                                cfgs.push(format!("malicious-hybrid {f} {s} {mbk} {dp} {e} {pm}"));
                            }
                        }
                    }
                }
            }
            for _ in 0..(if thorough { 2000 } else { 200 }) {
                let e = f64::from_bits(rng.next_u64());
                if !e.is_finite() {
                    continue;
                }
                cfgs.push(format!(
                    "malicious-hybrid {f} {} {} {} {e} {}",
                    1 + rng.below(1_000_000_000), rng.next_u64() as u32, rng.next_u64() as u32, rng.bool()
                ));
            }
        }
        for c in &cfgs {
            out.push(format!("c09.query rt {c}"));
            out.push(format!("c09.query str {c}"));
            out.push(format!("c09.query json {c}"));
        }
        // hand-written query strings: key order, missing / unknown / malformed keys, bad sizes
        let base = "query_type=malicious-hybrid&field_type=Fp32BitPrime&size=10";
        for q in [
            "size=10&query_type=test-add&field_type=Fp31".to_string(),
            "field_type=Fp31&size=10&query_type=test-multiply&unknown=1".to_string(),
            "query_type=test-add&field_type=Fp31&size=0".to_string(),
            "query_type=test-add&field_type=Fp31&size=1000000001".to_string(),
            "query_type=test-add&field_type=Fp31&size=4294967295".to_string(),
            "query_type=test-add&field_type=Fp31&size=4294967296".to_string(),
            "query_type=test-add&field_type=Fp31&size=-1".to_string(),
            "query_type=test-add&field_type=Fp31&size=abc".to_string(),
            "query_type=test-add&field_type=Fp31".to_string(),
            "query_type=test-add&size=10".to_string(),
            "field_type=Fp31&size=10".to_string(),
            "query_type=test-add&field_type=Fp61BitPrime&size=10".to_string(),
            "query_type=test-add&field_type=fp31&size=10".to_string(),
            "query_type=not-a-query&field_type=Fp31&size=10".to_string(),
            "query_type=TestMultiply&field_type=Fp31&size=10".to_string(),
            format!("{base}&max_breakdown_key=5&with_dp=1&epsilon=5"),
            format!("{base}&max_breakdown_key=5&with_dp=1&epsilon=5&plaintext_match_keys=true"),
            format!("{base}&max_breakdown_key=5&with_dp=1&epsilon=5&plaintext_match_keys=false"),
            format!("{base}&max_breakdown_key=5&with_dp=1&epsilon=5&plaintext_match_keys=1"),
            format!("{base}&max_breakdown_key=5&with_dp=1"),
            format!("{base}&max_breakdown_key=5&epsilon=5"),
            format!("{base}&with_dp=1&epsilon=5"),
            format!("{base}&max_breakdown_key=4294967296&with_dp=1&epsilon=5"),
            format!("{base}&max_breakdown_key=5&with_dp=-1&epsilon=5"),
            format!("epsilon=5&with_dp=1&max_breakdown_key=5&{base}"),
            "query_type=test-add&field_type=Fp31&size=10&max_breakdown_key=x".to_string(),
        ] {
            out.push(format!("c09.query parse {q}"));
        }
        out
    }
}

#[test]
fn verif_c09_query() {
    crate::ipa_verif::proto::run_suite("c09_query", c09_qs::generate, |req| {
        let t: Vec<&str> = req.split(' ').collect();
        c09_qs::exec(&t[1..])
    });
}

