// Suites that need access to items private to this module (feature ipa-verif, test builds only).
//
// ---------------------------------------------------------------------------------------------
// C20 — h2h / s2s endpoints refuse unauthenticated callers. `include!`d as
// `crate::net::server::ipa_verif_hook`: sees `IpaHttpServer.router`, `ClientIdentity`,
// `SetClientIdentityFromHeader`, `SetClientIdentityFromCertificate`.
//
// Request grammar
//   c20.req <mpc|shard> <group> <METHOD> <path?query> <none|helper|shard|both> <body:-|json|junk>
//        one request through the REAL router of a real `IpaHttpServer` (`TestServer`), with the
//        given `ClientIdentity` extension(s) attached; `group` (top|query|h2h|s2s) is the router
//        function the translator found the route in (used by the oracle only).
//        -> 401 | 404 | 405 | pass          (pass = the handler or its extractors answered)
//   c20.ident <helper|shard> <tls|plain> <cert:none|0|1|2> <header:none|bad|<id string>>
//        the identity layers the corresponding `start_on` arm installs, around a probe service
//        -> ext:none | ext:<index> | rejected
// ---------------------------------------------------------------------------------------------
pub mod c20 {
    use std::{convert::Infallible, sync::Arc};

    use axum::{body::Body, response::IntoResponse};
    use hyper::{Request, StatusCode};
    use tower::{Service, ServiceExt};

    use super::super::{ClientIdentity, SetClientIdentityFromCertificate, SetClientIdentityFromHeader};
    use crate::{
        helpers::{HelperIdentity, HelperResponse, RequestHandler, TransportIdentity, make_owned_handler},
        ipa_verif::proto::*,
        net::{ConnectionFlavor, Helper, Shard, test::{TestServer, TestServerBuilder}},
        sharding::ShardIndex,
    };

    fn class(s: StatusCode) -> String {
        match s.as_u16() {
            401 => "401".into(),
            404 => "404".into(),
            405 => "405".into(),
            _ => "pass".into(),
        }
    }

    pub(super) fn ok_handler<I: TransportIdentity>() -> Arc<dyn RequestHandler<I>> {
        make_owned_handler(|req, _body| {
            use crate::helpers::routing::RouteId;
            let resp = match req.route {
                RouteId::ReceiveQuery => HelperResponse::from(crate::helpers::query::PrepareQuery {
                    query_id: crate::protocol::QueryId,
                    config: crate::helpers::query::QueryConfig::new(
                        crate::helpers::query::QueryType::TestMultiply,
                        crate::ff::FieldType::Fp31,
                        1,
                    )
                    .unwrap(),
                    roles: crate::helpers::RoleAssignment::new(HelperIdentity::make_three()),
                }),
                RouteId::QueryStatus => HelperResponse::from(crate::query::QueryStatus::Running),
                RouteId::KillQuery => HelperResponse::from(crate::query::QueryKilled(crate::protocol::QueryId)),
                _ => HelperResponse::ok(),
            };
            futures::future::ready(Ok(resp))
        })
    }

    pub(super) fn body_of(kind: &str) -> (Body, Option<&'static str>) {
        match kind {
            "-" => (Body::empty(), None),
            "json" => (
                Body::from(r#"{"roles":["A","B","C"]}"#),
                Some("application/json"),
            ),
            "junk" => (Body::from(vec![0xffu8; 37]), Some("application/octet-stream")),
            // a well-formed `prepare` body (HelperIdentity deserialises from 1..=3); c20_live only
            "roles" => (Body::from(r#"{"roles":[1,2,3]}"#), Some("application/json")),
            _ => panic!("harness: unknown body kind {kind}"),
        }
    }

    fn build_req(method: &str, path: &str, ident: &str, body: &str) -> Request<Body> {
        let (b, ct) = body_of(body);
        let mut rb = Request::builder().method(method).uri(path);
        if let Some(ct) = ct {
            rb = rb.header("content-type", ct);
        }
        if ident == "helper" || ident == "both" {
            rb = rb.extension(ClientIdentity(HelperIdentity::TWO));
        }
        if ident == "shard" || ident == "both" {
            rb = rb.extension(ClientIdentity(ShardIndex::from(1u32)));
        }
        rb.body(b).unwrap()
    }

    async fn req_on(server: &str, method: &str, path: &str, ident: &str, body: &str) -> String {
        let req = build_req(method, path, ident, body);
        let resp = match server {
            "mpc" => {
                let ts = TestServerBuilder::<Helper>::default()
                    .with_request_handler(ok_handler())
                    .build()
                    .await;
                ts.server.router.clone().oneshot(req).await.unwrap()
            }
            "shard" => {
                let ts = TestServerBuilder::<Shard>::default()
                    .with_request_handler(ok_handler())
                    .build()
                    .await;
                ts.server.router.clone().oneshot(req).await.unwrap()
            }
            _ => panic!("harness: unknown server {server}"),
        };
        class(resp.status())
    }

    async fn ident_probe<F: ConnectionFlavor>(tls: bool, cert: &str, header: &str, ids: &[F::Identity]) -> String
    where
        F::Identity: PartialEq,
    {
        let probe = tower::service_fn(|req: Request<Body>| async move {
            let r = match req.extensions().get::<ClientIdentity<F::Identity>>() {
                None => "ext:none".to_string(),
                Some(ClientIdentity(id)) => format!("ext:{}", id.as_index()),
            };
            Ok::<_, Infallible>((StatusCode::OK, r).into_response())
        });
        let mut rb = Request::builder().method("GET").uri("/probe");
        match header {
            "none" => {}
            "bad" => rb = rb.header(F::identity_header(), "not-an-identity"),
            // x<hex>: raw header bytes (opaque octets: `HeaderValue::to_str` fails)
            v if v.len() > 1 && v.starts_with('x') && v[1..].bytes().all(|b| b.is_ascii_hexdigit()) && v.len() % 2 == 1 => {
                rb = rb.header(F::identity_header(), hyper::header::HeaderValue::from_bytes(&unhex(&v[1..])).expect("harness: header bytes"))
            }
            v => rb = rb.header(F::identity_header(), v),
        }
        let req = rb.body(Body::empty()).unwrap();
        let resp = if tls {
            // the (false, _) arms of start_on: ClientCertRecognizingAcceptor wraps the service of every
            // accepted connection in SetClientIdentityFromCertificate; no header layer
            let id = match cert {
                "none" => None,
                k => Some(ClientIdentity(ids[k.parse::<usize>().unwrap()])),
            };
            let mut svc = SetClientIdentityFromCertificate::<_, F> { inner: probe, id };
            svc.call(req).await.unwrap()
        } else {
            // the (true, _) arms: plain TCP (no certificate exists), header layer installed
            let mut svc = SetClientIdentityFromHeader::<_, F>::new(probe);
            svc.call(req).await.unwrap()
        };
        if resp.status() != StatusCode::OK {
            return "rejected".into();
        }
        let bytes = axum::body::to_bytes(resp.into_body(), 1 << 16).await.unwrap();
        String::from_utf8_lossy(&bytes).to_string()
    }

    pub fn exec(req: &str) -> String {
        let t: Vec<String> = req.split(' ').map(str::to_string).collect();
        let r = match t[0].as_str() {
            "c20.req" => block_on_timeout(30, async move { req_on(&t[1], &t[3], &t[4], &t[5], &t[6]).await }),
            "c20.ident" => block_on_timeout(30, async move {
                let tls = t[2] == "tls";
                match t[1].as_str() {
                    "helper" => ident_probe::<Helper>(tls, &t[3], &t[4], &HelperIdentity::make_three()).await,
                    "shard" => {
                        let ids = [ShardIndex::from(0u32), ShardIndex::from(1u32), ShardIndex::from(2u32)];
                        ident_probe::<Shard>(tls, &t[3], &t[4], &ids).await
                    }
                    f => panic!("harness: unknown flavor {f}"),
                }
            }),
            _ => panic!("harness: unknown request {req}"),
        };
        r.unwrap_or_else(|e| e)
    }

    /// (server, group, method, path template) — read from the translator's output of THIS run, so
    /// that every extracted route is exercised; falls back to the list at the time of writing.
    pub(super) fn route_table() -> Vec<(String, String, String, String)> {
        let fallback = || -> Vec<(String, String, String, String)> {
            [
                ("mpc", "top", "GET", "/echo"), ("mpc", "top", "GET", "/metrics"),
                ("mpc", "query", "POST", "/query"), ("mpc", "query", "POST", "/query/:query_id/input"),
                ("mpc", "query", "GET", "/query/:query_id"), ("mpc", "query", "POST", "/query/:query_id/kill"),
                ("mpc", "query", "GET", "/query/:query_id/complete"),
                ("mpc", "h2h", "POST", "/query/:query_id/step/*step"), ("mpc", "h2h", "POST", "/query/:query_id"),
                ("shard", "top", "GET", "/echo"),
                ("shard", "s2s", "POST", "/query/:query_id/step/*step"), ("shard", "s2s", "POST", "/query/:query_id"),
                ("shard", "s2s", "GET", "/query/:query_id/complete"), ("shard", "s2s", "GET", "/query/:query_id/status-match"),
            ]
            .iter()
            .map(|(a, b, c, d)| (a.to_string(), b.to_string(), c.to_string(), d.to_string()))
            .collect()
        };
        let Ok(out) = std::env::var("VERIF_OUT") else { return fallback() };
        let path = std::path::Path::new(&out).parent().map(|p| p.join("extract.json"));
        let Some(text) = path.and_then(|p| std::fs::read_to_string(p).ok()) else { return fallback() };
        let Ok(v) = serde_json::from_str::<serde_json::Value>(&text) else { return fallback() };
        let Some(rows) = v["items"]["routes.table"]["value"].as_array() else { return fallback() };
        rows.iter()
            .map(|r| {
                let g = |k: &str| r[k].as_str().unwrap_or("").to_string();
                (g("server"), g("group"), g("method"), g("path"))
            })
            .collect()
    }

    pub(super) const QS: &str = "?size=1&field_type=fp31&query_type=test-multiply";

    pub fn generate(_rng: &mut Rng, _thorough: bool) -> Vec<String> {
        let mut v = Vec::new();
        for (server, group, method, tpl) in route_table() {
            let mut paths: Vec<String> = Vec::new();
            let fill = |qid: &str, step: &str| tpl.replace(":query_id", qid).replace("*step", step);
            let base = fill("0", "protocol/alpha");
            paths.push(base.clone());
            paths.push(format!("{base}{QS}"));
            if tpl.contains("status-match") {
                paths.push(format!("{base}?status=running"));
                paths.push(format!("{base}?status=bogus"));
            }
            if tpl.contains(":query_id") {
                paths.push(fill("7", "protocol/alpha"));
                paths.push(fill("%00", "x"));
                paths.push(format!("{}{QS}", fill("00", "a/b/c/d")));
            }
            if tpl.contains("*step") {
                paths.push(fill("0", "x"));
            }
            paths.dedup();
            for p in &paths {
                for ident in ["none", "helper", "shard", "both"] {
                    for body in ["-", "json", "junk"] {
                        v.push(format!("c20.req {server} {group} {method} {p} {ident} {body}"));
                    }
                }
            }
        }
        // paths that match no route, and unregistered methods on open routes
        for server in ["mpc", "shard"] {
            for (m, p) in [("GET", "/"), ("GET", "/query/0/unknown"), ("POST", "/query/0/step"), ("GET", "/query/0/step/a/b"),
                           ("POST", "/echo"), ("GET", "/nothing/here"), ("POST", "/query/0/complete/extra")] {
                for ident in ["none", "both"] {
                    v.push(format!("c20.req {server} none {m} {p} {ident} -"));
                }
            }
        }
        // identity derivation
        for flavor in ["helper", "shard"] {
            let good: [&str; 3] = if flavor == "helper" { ["A", "B", "C"] } else { ["0", "1", "2"] };
            let mut headers = vec!["none", "bad", "", "H1", "-1", "a", "4294967296", "4294967295", "+1", "007", "+", "1_0", "0x1", "x41ff", "xc3a9", "x31e9"];
            headers.extend(good);
            for arm in ["tls", "plain"] {
                for cert in ["none", "0", "1", "2"] {
                    if arm == "plain" && cert != "none" {
                        continue; // no certificate exists on a plain TCP connection
                    }
                    for h in &headers {
                        if h.is_empty() {
                            continue;
                        }
                        v.push(format!("c20.ident {flavor} {arm} {cert} {h}"));
                    }
                }
            }
        }
        v
    }
}

#[test]
fn verif_c20_http() {
    crate::ipa_verif::proto::run_suite("c20_http", c20::generate, c20::exec);
}


// ------------------------------------------------------------------------------------------------
// C09 — query string suite (c09_query): c09.query str|parse|rt|json …  (needs net::http_serde, private to net)

pub mod c09_qs {
    use axum::extract::FromRequestParts;

    use crate::ipa_verif::proto::*;
    use crate::{
        ff::FieldType,
        helpers::query::{HybridQueryParams, QueryConfig, QuerySize, QueryType},
        net::http_serde::query::QueryConfigQueryParams,
    };

    fn cfg(a: &[&str]) -> QueryConfig {
        let field_type = match a[1] {
            "Fp31" => FieldType::Fp31,
            "Fp32BitPrime" => FieldType::Fp32BitPrime,
            f => panic!("harness: unknown field type {f}"),
        };
        let size = QuerySize::try_from(a[2].parse::<u32>().unwrap()).expect("harness: invalid size");
        let query_type = match a[0] {
            "test-multiply" => QueryType::TestMultiply,
            "test-add" => QueryType::TestAddInPrimeField,
            "test-sharded-shuffle" => QueryType::TestShardedShuffle,
            "malicious-hybrid" => QueryType::MaliciousHybrid(HybridQueryParams {
                max_breakdown_key: a[3].parse().unwrap(),
                with_dp: a[4].parse().unwrap(),
                epsilon: a[5].parse().unwrap(),
                plaintext_match_keys: a[6] == "true",
            }),
            q => panic!("harness: unknown query type {q}"),
        };
        QueryConfig { size, field_type, query_type }
    }

    fn show(c: &QueryConfig) -> String {
        let base = format!("{} {:?} {}", c.query_type.as_ref(), c.field_type, c.size);
        match c.query_type {
            QueryType::MaliciousHybrid(p) => {
                format!("{base} {} {} {} {}", p.max_breakdown_key, p.with_dp, p.epsilon, p.plaintext_match_keys)
            }
            _ => base,
        }
    }

    fn parse(query: &str) -> String {
        let req = hyper::Request::get(format!("http://localhost/query?{query}")).body(()).unwrap();
        let (mut parts, ()) = req.into_parts();
        let r = block_on_timeout(10, async move { QueryConfigQueryParams::from_request_parts(&mut parts, &()).await });
        match r {
            Ok(Ok(c)) => format!("ok {}", show(&c.0)),
            Ok(Err(_)) => "err".into(),
            Err(t) => t,
        }
    }

    pub fn exec(a: &[&str]) -> String {
        match a[0] {
            "str" => QueryConfigQueryParams(cfg(&a[1..])).to_string(),
            "parse" => parse(a[1]),
            "rt" => parse(&QueryConfigQueryParams(cfg(&a[1..])).to_string()),
            // the JSON body of `prepare_query` (leader -> follower helpers and shards): decode only
            "jparse" => match serde_json::from_str::<QueryConfig>(a[1]) {
                Ok(c) => format!("ok {}", show(&c)),
                Err(_) => "err".into(),
            },
            "json" => {
                let c = cfg(&a[1..]);
                let text = serde_json::to_string(&c).unwrap();
                match serde_json::from_str::<QueryConfig>(&text) {
                    Ok(c2) if c2 == c => "rt-ok".into(),
                    Ok(_) => format!("rt-differs {text}"),
                    Err(e) => format!("rt-fail {}", canon(&e.to_string())),
                }
            }
            op => panic!("harness: unknown query op {op}"),
        }
    }

    pub fn generate(rng: &mut Rng, thorough: bool) -> Vec<String> {
        let mut out = vec![];
        let sizes: Vec<u64> = vec![1, 2, 255, 256, 65535, 65536, 999_999_999, 1_000_000_000];
        let eps: Vec<f64> = vec![5.0, 0.1, 1.151, 1e-9, 1e21, 3.0e-5, 0.0, 123456.789, f64::MIN_POSITIVE, f64::MAX];
        let mut cfgs: Vec<String> = vec![];
        for f in ["Fp31", "Fp32BitPrime"] {
            for qt in ["test-multiply", "test-add", "test-sharded-shuffle"] {
                for s in &sizes {
                    cfgs.push(format!("{qt} {f} {s}"));
                }
            }
            // every combination of the boundary values of the hybrid parameters
            for s in &sizes {
                for mbk in [0u32, 1, 5, 255, 256, u32::MAX] {
                    for dp in [0u32, 1, u32::MAX] {
                        for (i, e) in eps.iter().enumerate() {
                            for pm in [false, true] {
                                if !thorough && (i + (mbk as usize) + (dp as usize) + (*s as usize)) % 3 != 0 {
                                    continue;
                                }
                                cfgs.push(format!("malicious-hybrid {f} {s} {mbk} {dp} {e} {pm}"));
                            }
                        }
                    }
                }
            }
            for _ in 0..(if thorough { 2000 } else { 200 }) {
                let e = f64::from_bits(rng.next_u64());
                if !e.is_finite() {
                    continue;
                }
                cfgs.push(format!(
                    "malicious-hybrid {f} {} {} {} {e} {}",
                    1 + rng.below(1_000_000_000), rng.next_u64() as u32, rng.next_u64() as u32, rng.bool()
                ));
            }
        }
        // C09-JSON-F64 (fixed: serde_json/float_roundtrip): epsilons whose printed form serde_json's default float
        // parser returned one ULP off (12% of uniformly drawn epsilons in (0, 20) were affected)
        for e in [
            15.220688432552539f64, 10.369643678843481, 0.9295340685764947, 18.618809553141574, 0.41753436935513477,
            0.030709448081447266, 0.46591316715205955, -9301983688401.117, -8.911419754316819e-13,
        ] {
            cfgs.push(format!("malicious-hybrid Fp32BitPrime 1000 5 1 {e} false"));
        }
        for i in 0..(if thorough { 2000 } else { 200 }) {
            // realistic range: uniform in (0, 20) / (0, 1), full 53-bit mantissas
            let u = (rng.next_u64() >> 11) as f64 / (1u64 << 53) as f64;
            let e = if i % 2 == 0 { u * 20.0 } else { u };
            cfgs.push(format!("malicious-hybrid Fp32BitPrime {} 255 1 {e} {}", 1 + rng.below(1_000_000_000), rng.bool()));
        }
        for c in &cfgs {
            out.push(format!("c09.query rt {c}"));
            out.push(format!("c09.query str {c}"));
            out.push(format!("c09.query json {c}"));
        }
        // hand-written query strings: key order, missing / unknown / malformed keys, bad sizes
        let base = "query_type=malicious-hybrid&field_type=Fp32BitPrime&size=10";
        for q in [
            "size=10&query_type=test-add&field_type=Fp31".to_string(),
            "field_type=Fp31&size=10&query_type=test-multiply&unknown=1".to_string(),
            "query_type=test-add&field_type=Fp31&size=0".to_string(),
            "query_type=test-add&field_type=Fp31&size=1000000001".to_string(),
            "query_type=test-add&field_type=Fp31&size=4294967295".to_string(),
            "query_type=test-add&field_type=Fp31&size=4294967296".to_string(),
            "query_type=test-add&field_type=Fp31&size=-1".to_string(),
            "query_type=test-add&field_type=Fp31&size=abc".to_string(),
            "query_type=test-add&field_type=Fp31".to_string(),
            "query_type=test-add&size=10".to_string(),
            "field_type=Fp31&size=10".to_string(),
            "query_type=test-add&field_type=Fp61BitPrime&size=10".to_string(),
            "query_type=test-add&field_type=fp31&size=10".to_string(),
            "query_type=not-a-query&field_type=Fp31&size=10".to_string(),
            "query_type=TestMultiply&field_type=Fp31&size=10".to_string(),
            format!("{base}&max_breakdown_key=5&with_dp=1&epsilon=5"),
            format!("{base}&max_breakdown_key=5&with_dp=1&epsilon=5&plaintext_match_keys=true"),
            format!("{base}&max_breakdown_key=5&with_dp=1&epsilon=5&plaintext_match_keys=false"),
            format!("{base}&max_breakdown_key=5&with_dp=1&epsilon=5&plaintext_match_keys=1"),
            format!("{base}&max_breakdown_key=5&with_dp=1"),
            format!("{base}&max_breakdown_key=5&epsilon=5"),
            format!("{base}&with_dp=1&epsilon=5"),
            format!("{base}&max_breakdown_key=4294967296&with_dp=1&epsilon=5"),
            format!("{base}&max_breakdown_key=5&with_dp=-1&epsilon=5"),
            format!("epsilon=5&with_dp=1&max_breakdown_key=5&{base}"),
            "query_type=test-add&field_type=Fp31&size=10&max_breakdown_key=x".to_string(),
        ] {
            out.push(format!("c09.query parse {q}"));
        }
        // sizes around the bounds of QuerySize on both wire paths (query string of `create`, JSON body of `prepare_query`)
        let jbase = serde_json::to_string(&cfg(&["test-add", "Fp31", "10"])).unwrap();
        let jhyb = serde_json::to_string(&cfg(&["malicious-hybrid", "Fp32BitPrime", "10", "5", "1", "5", "false"])).unwrap();
        assert!(jbase.contains("\"size\":10") && jhyb.contains("\"size\":10") && !jbase.contains(' ') && !jhyb.contains(' '));
        for sz in [
            "0", "1", "2", "999999999", "1000000000", "1000000001", "1000000002", "2000000000", "2147483647", "2147483648",
            "4294967295", "4294967296", "18446744073709551615", "-1", "1.5", "\"7\"", "null",
        ] {
            out.push(format!("c09.query jparse {}", jbase.replace("\"size\":10", &format!("\"size\":{sz}"))));
            out.push(format!("c09.query jparse {}", jhyb.replace("\"size\":10", &format!("\"size\":{sz}"))));
            if !sz.contains('"') {
                out.push(format!("c09.query parse query_type=test-multiply&field_type=Fp32BitPrime&size={sz}"));
                out.push(format!("c09.query parse {base}&max_breakdown_key=5&with_dp=1&epsilon=5&size={sz}").replace("&size=10&", "&"));
            }
        }
        for _ in 0..(if thorough { 400 } else { 40 }) {
            let sz = 1_000_000_001u64 + rng.below(3_294_967_295);
            out.push(format!("c09.query jparse {}", jbase.replace("\"size\":10", &format!("\"size\":{sz}"))));
            out.push(format!("c09.query parse query_type=test-add&field_type=Fp31&size={sz}"));
        }
        out
    }
}

#[test]
fn verif_c09_query() {
    crate::ipa_verif::proto::run_suite("c09_query", c09_qs::generate, |req| {
        let t: Vec<&str> = req.split(' ').collect();
        c09_qs::exec(&t[1..])
    });
}


// ---------------------------------------------------------------------------------------------
// C20 — live suite (c20_live): REAL servers started through `IpaHttpServer::start_on`, one per
// case, for each of the four `(disable_https, listener)` arms, and real HTTP/HTTPS requests
// over a socket (rustls handshake with / without a client certificate).
//
// Request grammar
//   c20.live <mpc|shard> <tls|plain> <pre|self> <group> <METHOD> <path?query> <cert> <hdr> <body>
//     tls|plain  `ServerConfig::disable_https` = false|true; the client speaks the same protocol
//     pre|self   start_on(listener = Some(pre-bound 127.0.0.1:0)) | start_on(listener = None) with
//                `port: None` (the server binds itself; the bound address is read back)
//     cert       none | 0 | 1 = certificate (and key) of peer 0 / 1 of the server's network |
//                x = a valid test certificate that is NOT a peer of the server's network
//     hdr        none | h=<v> (x-unverified-helper-identity: v) | s=<v> (x-unverified-shard-index: v)
//     body       - | json | junk (as in c20.req) | roles (a well-formed prepare body)
//   -> 401 | ok (2xx) | other:<status> | conn-err (the request failed below HTTP)
// Network of the server: mpc = helpers A, B with certificates 0, 1, helper C without certificate;
// shard = shards 0, 1 with certificates 0, 1. The server's own certificate is certificate 0.
//
//   c20.chain <mpc|shard> <tls|plain> <pre|self> <group> <METHOD> <path?query> <key> <chain> <hdr> <body>
//     a client built directly on rustls that puts a CHAIN of certificates into its Certificate
//     message and signs CertificateVerify with the given key (no consistency check on the client
//     side: the server has to refuse a certificate presented without its key)
//     key        - (no client authentication) | k0 | k1 | k2 = private key of test certificate i
//     chain      - | comma-separated, end-entity FIRST: 0|1|2 = test certificate i byte for byte (0, 1 are
//                on file for peers 0, 1; 2 is on file for nobody) | r0|r1|r2 = a certificate freshly
//                re-issued for the key of test certificate i (same subject and key, other bytes: chains
//                to the trust anchor i, is on file for nobody) | l0|l1|l2 = a leaf certificate for a FRESH
//                key (subject CN=leaf), issued with the key and subject of test certificate i; its key is
//                the key token kl<i>
//     plain      key and chain must be `-`; the identity can only come from the header
//   -> conn-err | 401 | other:<status> | ok | ok from=<i>|none   on the step route: the peer whose
//      inbound record stream (`HttpTransport::receive(peer, (query, gate))`) got the request body
// ---------------------------------------------------------------------------------------------
pub mod c20_live {
    use std::net::TcpListener;

    use axum::body::Body;
    use hyper::Request;
    use hyper_rustls::HttpsConnectorBuilder;
    use hyper_util::{
        client::legacy::{Client, connect::HttpConnector},
        rt::{TokioExecutor, TokioTimer},
    };
    use rustls::RootCertStore;
    use rustls_pki_types::{CertificateDer, PrivateKeyDer};

    use super::super::IpaHttpServer;
    use crate::{
        config::{NetworkConfig, PeerConfig, ServerConfig},
        executor::IpaRuntime,
        helpers::{HelperIdentity, TransportIdentity},
        ipa_verif::proto::*,
        net::{
            CRYPTO_PROVIDER, ConnectionFlavor, Helper, HttpTransport, Shard, parse_certificate_and_private_key_bytes,
            test::{TestServerBuilder, get_test_certificate_and_key},
        },
        protocol::{Gate, QueryId},
        sharding::{ShardIndex, ShardedHelperIdentity},
        sync::Arc,
    };

    /// test certificate i (0..3) with its key, DER
    fn cert_key(i: usize) -> (Vec<CertificateDer<'static>>, PrivateKeyDer<'static>) {
        let id = ShardedHelperIdentity::new(HelperIdentity::make_three()[i], ShardIndex::FIRST);
        let (mut c, mut k) = get_test_certificate_and_key(id);
        parse_certificate_and_private_key_bytes(&mut c, &mut k).unwrap()
    }

    fn with_cert(p: &PeerConfig, i: Option<usize>) -> PeerConfig {
        let mut p = p.clone();
        p.certificate = i.map(|i| cert_key(i).0.remove(0));
        p
    }

    fn client(tls: bool, cert: &str) -> Client<hyper_rustls::HttpsConnector<HttpConnector>, Body> {
        let mut http = HttpConnector::new();
        http.enforce_http(false);
        let connector = if tls {
            let mut roots = RootCertStore::empty();
            roots.add(cert_key(0).0.remove(0)).unwrap();
            let b = rustls::ClientConfig::builder_with_provider(Arc::clone(&CRYPTO_PROVIDER))
                .with_safe_default_protocol_versions()
                .unwrap()
                .with_root_certificates(roots);
            let cfg = match cert {
                "none" => b.with_no_client_auth(),
                "x" => {
                    let (c, k) = cert_key(2);
                    b.with_client_auth_cert(c, k).unwrap()
                }
                i => {
                    let (c, k) = cert_key(i.parse().expect("harness: cert token"));
                    b.with_client_auth_cert(c, k).unwrap()
                }
            };
            HttpsConnectorBuilder::new().with_tls_config(cfg).https_only().enable_http1().enable_http2().wrap_connector(http)
        } else {
            assert!(cert == "none", "harness: a plain-HTTP client cannot present a certificate");
            HttpsConnectorBuilder::new()
                .with_provider_and_native_roots(CRYPTO_PROVIDER.as_ref().clone())
                .unwrap()
                .https_or_http()
                .enable_http1()
                .wrap_connector(http)
        };
        Client::builder(TokioExecutor::new()).pool_timer(TokioTimer::new()).build(connector)
    }

    async fn serve_and_ask<F: ConnectionFlavor>(
        base: IpaHttpServer<F>,
        network_config: NetworkConfig<F>,
        t: &[String],
    ) -> String {
        let tls = t[2] == "tls";
        assert_eq!(base.config.disable_https, !tls);
        let server = IpaHttpServer::<F> {
            config: ServerConfig { port: None, ..base.config.clone() },
            network_config,
            router: base.router.clone(),
        };
        let listener = match t[3].as_str() {
            "pre" => Some(TcpListener::bind("127.0.0.1:0").unwrap()),
            "self" => None,
            b => panic!("harness: unknown bind mode {b}"),
        };
        let (addr, handle) = server.start_on(&IpaRuntime::current(), listener, ()).await;
        let uri = if tls {
            format!("https://localhost:{}{}", addr.port(), t[6])
        } else {
            format!("http://127.0.0.1:{}{}", addr.port(), t[6])
        };
        let (b, ct) = super::c20::body_of(&t[9]);
        let mut rb = Request::builder().method(t[5].as_str()).uri(uri);
        if let Some(ct) = ct {
            rb = rb.header("content-type", ct);
        }
        match t[8].split_once('=') {
            None => assert!(t[8] == "none", "harness: header token"),
            Some(("h", v)) => rb = rb.header(Helper::identity_header(), v),
            Some(("s", v)) => rb = rb.header(Shard::identity_header(), v),
            Some(_) => panic!("harness: header token"),
        }
        let r = client(tls, &t[7]).request(rb.body(b).unwrap()).await;
        handle.abort();
        match r {
            Err(_) => "conn-err".into(),
            Ok(resp) => match resp.status().as_u16() {
                401 => "401".into(),
                200..=299 => "ok".into(),
                s => format!("other:{s}"),
            },
        }
    }

    async fn run(t: Vec<String>) -> String {
        let tls = t[2] == "tls";
        match t[1].as_str() {
            "mpc" => {
                let mut b = TestServerBuilder::<Helper>::default().with_request_handler(super::c20::ok_handler());
                if !tls {
                    b = b.disable_https();
                }
                let ts = b.build().await;
                let nc = &ts.server.network_config;
                let certs: [Option<usize>; 3] = if tls { [Some(0), Some(1), None] } else { [None; 3] };
                let peers = nc.peers.iter().zip(certs).map(|(p, c)| with_cert(p, c)).collect();
                let network = NetworkConfig::<Helper>::new_mpc(peers, nc.client.clone());
                serve_and_ask(ts.server, network, &t).await
            }
            "shard" => {
                let mut b = TestServerBuilder::<Shard>::default().with_request_handler(super::c20::ok_handler());
                if !tls {
                    b = b.disable_https();
                }
                let ts = b.build().await;
                let nc = &ts.server.network_config;
                let p0 = &nc.peers[0];
                let peers = (0..2).map(|i| with_cert(p0, tls.then_some(i))).collect();
                let network = NetworkConfig::<Shard>::new_shards(peers, nc.client.clone());
                serve_and_ask(ts.server, network, &t).await
            }
            s => panic!("harness: unknown server {s}"),
        }
    }

    // ------------------------------------------------------------------ c20.chain

    /// a fresh self-signed certificate for the key of test certificate i: same subject (CN=localhost),
    /// same key, other serial number / validity / signature, hence other bytes
    fn reissued(i: usize) -> CertificateDer<'static> {
        let id = ShardedHelperIdentity::new(HelperIdentity::make_three()[i], ShardIndex::FIRST);
        let (_, key_pem) = get_test_certificate_and_key(id);
        let key = rcgen::KeyPair::from_pem(std::str::from_utf8(key_pem).unwrap()).expect("harness: test key");
        let mut params = rcgen::CertificateParams::default();
        let mut name = rcgen::DistinguishedName::new();
        name.push(rcgen::DnType::CommonName, "localhost");
        params.distinguished_name = name;
        params.self_signed(&key).expect("harness: re-issue").der().clone()
    }

    /// leaf certificates for fresh keys, one per issuer i, minted with the key (and subject) of test
    /// certificate i: (certificate, PKCS#8 key)
    struct Leaves([Option<(CertificateDer<'static>, Vec<u8>)>; 3]);

    impl Leaves {
        fn get(&mut self, i: usize) -> &(CertificateDer<'static>, Vec<u8>) {
            self.0[i].get_or_insert_with(|| {
                let id = ShardedHelperIdentity::new(HelperIdentity::make_three()[i], ShardIndex::FIRST);
                let (_, key_pem) = get_test_certificate_and_key(id);
                let issuer_key = rcgen::KeyPair::from_pem(std::str::from_utf8(key_pem).unwrap()).expect("harness: test key");
                let mut ip = rcgen::CertificateParams::default();
                let mut name = rcgen::DistinguishedName::new();
                name.push(rcgen::DnType::CommonName, "localhost");
                ip.distinguished_name = name;
                let issuer = ip.self_signed(&issuer_key).expect("harness: issuer");
                let leaf_key = rcgen::KeyPair::generate().expect("harness: fresh key");
                let mut lp = rcgen::CertificateParams::default();
                let mut name = rcgen::DistinguishedName::new();
                name.push(rcgen::DnType::CommonName, "leaf");
                lp.distinguished_name = name;
                let cert = lp.signed_by(&leaf_key, &issuer, &issuer_key).expect("harness: mint leaf");
                (cert.der().clone(), leaf_key.serialize_der())
            })
        }
    }

    fn chain_of(tok: &str, leaves: &mut Leaves) -> Vec<CertificateDer<'static>> {
        if tok == "-" {
            return Vec::new();
        }
        tok.split(',')
            .map(|c| {
                if let Some(i) = c.strip_prefix('r') {
                    reissued(i.parse().expect("harness: chain token"))
                } else if let Some(i) = c.strip_prefix('l') {
                    leaves.get(i.parse().expect("harness: chain token")).0.clone()
                } else {
                    cert_key(c.parse().expect("harness: chain token")).0.remove(0)
                }
            })
            .collect()
    }

    /// HTTPS client presenting `chain` and signing with test key `key`; unlike
    /// `ClientConfig::with_client_auth_cert` nothing checks that the key belongs to the first certificate
    fn chain_client(key: &str, chain: &str) -> Client<hyper_rustls::HttpsConnector<HttpConnector>, Body> {
        let mut http = HttpConnector::new();
        http.enforce_http(false);
        let mut roots = RootCertStore::empty();
        roots.add(cert_key(0).0.remove(0)).unwrap();
        let b = rustls::ClientConfig::builder_with_provider(Arc::clone(&CRYPTO_PROVIDER))
            .with_safe_default_protocol_versions()
            .unwrap()
            .with_root_certificates(roots);
        let cfg = match key.strip_prefix('k') {
            None => {
                assert!(key == "-" && chain == "-", "harness: a chain needs a key");
                b.with_no_client_auth()
            }
            Some(k) => {
                let mut leaves = Leaves([None, None, None]);
                let der = match k.strip_prefix('l') {
                    Some(i) => PrivateKeyDer::Pkcs8(leaves.get(i.parse().expect("harness: key token")).1.clone().into()),
                    None => cert_key(k.parse().expect("harness: key token")).1,
                };
                let signing = CRYPTO_PROVIDER.key_provider.load_private_key(der).expect("harness: load key");
                let ck = rustls::sign::CertifiedKey::new(chain_of(chain, &mut leaves), signing);
                b.with_client_cert_resolver(std::sync::Arc::new(rustls::sign::SingleCertAndKey::from(ck)))
            }
        };
        let connector = HttpsConnectorBuilder::new().with_tls_config(cfg).https_only().enable_http1().enable_http2().wrap_connector(http);
        Client::builder(TokioExecutor::new()).pool_timer(TokioTimer::new()).build(connector)
    }

    /// which peer's inbound record stream for (query, gate) yields the request body
    async fn attributed_to<F: ConnectionFlavor>(transport: &HttpTransport<F>, ids: &[F::Identity], gate: &Gate, want: &[u8]) -> String {
        use futures::{StreamExt, stream::poll_immediate};
        let mut streams: Vec<_> = ids.iter().map(|id| Box::pin(transport.receive(*id, &(QueryId, gate.clone())))).collect();
        for _ in 0..2500 {
            let mut got = Vec::new();
            for (id, st) in ids.iter().zip(streams.iter_mut()) {
                if let Some(std::task::Poll::Ready(item)) = poll_immediate(st).next().await {
                    let ok = item.ok().is_some_and(|b| { let b: Vec<u8> = b.into(); want.starts_with(&b) && !b.is_empty() });
                    got.push(format!("{}{}", id.as_index(), if ok { "" } else { "?" }));
                }
            }
            if !got.is_empty() {
                return got.join("+");
            }
            tokio::time::sleep(std::time::Duration::from_millis(2)).await;
        }
        "none".into()
    }

    async fn chain_ask<F: ConnectionFlavor>(
        base: IpaHttpServer<F>,
        network_config: NetworkConfig<F>,
        transport: Arc<HttpTransport<F>>,
        ids: &[F::Identity],
        t: &[String],
    ) -> String {
        let tls = t[2] == "tls";
        assert_eq!(base.config.disable_https, !tls);
        let server = IpaHttpServer::<F> {
            config: ServerConfig { port: None, ..base.config.clone() },
            network_config,
            router: base.router.clone(),
        };
        let listener = match t[3].as_str() {
            "pre" => Some(TcpListener::bind("127.0.0.1:0").unwrap()),
            "self" => None,
            b => panic!("harness: unknown bind mode {b}"),
        };
        let (addr, handle) = server.start_on(&IpaRuntime::current(), listener, ()).await;
        let uri = if tls {
            format!("https://localhost:{}{}", addr.port(), t[6])
        } else {
            format!("http://127.0.0.1:{}{}", addr.port(), t[6])
        };
        let (b, ct) = super::c20::body_of(&t[10]);
        let mut rb = Request::builder().method(t[5].as_str()).uri(uri);
        if let Some(ct) = ct {
            rb = rb.header("content-type", ct);
        }
        match t[9].split_once('=') {
            None => assert!(t[9] == "none", "harness: header token"),
            Some(("h", v)) => rb = rb.header(Helper::identity_header(), v),
            Some(("s", v)) => rb = rb.header(Shard::identity_header(), v),
            Some(_) => panic!("harness: header token"),
        }
        // the client is kept alive until the identity has been observed (the body may still be in flight)
        let cl = if tls {
            chain_client(&t[7], &t[8])
        } else {
            assert!(t[7] == "-" && t[8] == "-", "harness: a plain-HTTP client cannot present a certificate");
            client(false, "none")
        };
        let r = cl.request(rb.body(b).unwrap()).await;
        let out = match r {
            Err(_) => "conn-err".into(),
            Ok(resp) => match resp.status().as_u16() {
                401 => "401".into(),
                200..=299 => {
                    let path = t[6].split('?').next().unwrap();
                    match path.split_once("/step/") {
                        Some((_, step)) if t[5] == "POST" => {
                            assert!(t[10] == "junk", "harness: the step route is asked with body `junk`");
                            let who = attributed_to(&transport, ids, &Gate::from(step), &[0xffu8; 37]).await;
                            format!("ok from={who}")
                        }
                        _ => "ok".into(),
                    }
                }
                s => format!("other:{s}"),
            },
        };
        drop(cl);
        handle.abort();
        out
    }

    async fn run_chain(t: Vec<String>) -> String {
        let tls = t[2] == "tls";
        match t[1].as_str() {
            "mpc" => {
                let mut b = TestServerBuilder::<Helper>::default().with_request_handler(super::c20::ok_handler());
                if !tls {
                    b = b.disable_https();
                }
                let ts = b.build().await;
                let nc = &ts.server.network_config;
                let certs: [Option<usize>; 3] = if tls { [Some(0), Some(1), None] } else { [None; 3] };
                let peers = nc.peers.iter().zip(certs).map(|(p, c)| with_cert(p, c)).collect();
                let network = NetworkConfig::<Helper>::new_mpc(peers, nc.client.clone());
                chain_ask(ts.server, network, ts.transport, &HelperIdentity::make_three(), &t).await
            }
            "shard" => {
                let mut b = TestServerBuilder::<Shard>::default().with_request_handler(super::c20::ok_handler());
                if !tls {
                    b = b.disable_https();
                }
                let ts = b.build().await;
                let nc = &ts.server.network_config;
                let p0 = &nc.peers[0];
                let peers = (0..2).map(|i| with_cert(p0, tls.then_some(i))).collect();
                let network = NetworkConfig::<Shard>::new_shards(peers, nc.client.clone());
                let ids = [ShardIndex::from(0u32), ShardIndex::from(1u32), ShardIndex::from(2u32)];
                chain_ask(ts.server, network, ts.transport, &ids, &t).await
            }
            s => panic!("harness: unknown server {s}"),
        }
    }

    // ------------------------------------------------------------------ c20.ctor
    //   c20.ctor <mpc|shard> <dh:0|1> <tls:none|some> <pre|self> <hdr>
    //     a server built by the REAL constructor (`IpaHttpServer::new_mpc` / `new_shards`, never the struct
    //     literal) from `ServerConfig { disable_https: dh, tls, .. }` -- all four combinations, including the
    //     two no launcher produces: (0, none) asks for HTTPS without key material, (1, some) carries key
    //     material it must not use -- and started through `start_on`.
    //   -> no-start (start_on panicked) | plain=<r> tls=<r> cert=<r>: the step route of the server's flavor asked
    //      by a plain-HTTP client with <hdr> / a TLS client without certificate with <hdr> / a TLS client with
    //      the certificate of peer 1 and no header; <r> = ok | 401 | other:<s> | conn-err
    async fn probe(uri: String, tls: bool, cert: &str, hdr: &str) -> String {
        let (b, ct) = super::c20::body_of("junk");
        let mut rb = Request::builder().method("POST").uri(uri);
        if let Some(ct) = ct {
            rb = rb.header("content-type", ct);
        }
        match hdr.split_once('=') {
            None => assert!(hdr == "none", "harness: header token"),
            Some(("h", v)) => rb = rb.header(Helper::identity_header(), v),
            Some(("s", v)) => rb = rb.header(Shard::identity_header(), v),
            Some(_) => panic!("harness: header token"),
        }
        let r = tokio::time::timeout(std::time::Duration::from_secs(5), client(tls, cert).request(rb.body(b).unwrap())).await;
        match r {
            Err(_) | Ok(Err(_)) => "conn-err".into(),
            Ok(Ok(resp)) => match resp.status().as_u16() {
                401 => "401".into(),
                200..=299 => "ok".into(),
                s => format!("other:{s}"),
            },
        }
    }

    async fn ctor_ask<F: ConnectionFlavor>(server: IpaHttpServer<F>, t: &[String]) -> String {
        use futures::FutureExt;
        let listener = match t[4].as_str() {
            "pre" => Some(TcpListener::bind("127.0.0.1:0").unwrap()),
            "self" => None,
            b => panic!("harness: unknown bind mode {b}"),
        };
        let rt = IpaRuntime::current();
        let started = std::panic::AssertUnwindSafe(server.start_on(&rt, listener, ())).catch_unwind().await;
        let Ok((addr, handle)) = started else {
            return "no-start".into();
        };
        let path = "/query/0/step/a";
        let plain = probe(format!("http://127.0.0.1:{}{path}", addr.port()), false, "none", &t[5]).await;
        let tls = probe(format!("https://localhost:{}{path}", addr.port()), true, "none", &t[5]).await;
        let cert = probe(format!("https://localhost:{}{path}", addr.port()), true, "1", "none").await;
        handle.abort();
        format!("plain={plain} tls={tls} cert={cert}")
    }

    async fn run_ctor(t: Vec<String>) -> String {
        let dh = match t[2].as_str() { "1" => true, "0" => false, d => panic!("harness: dh token {d}") };
        let with_tls = match t[3].as_str() { "some" => true, "none" => false, d => panic!("harness: tls token {d}") };
        // the configuration under test; key material and hpke keys are those of the https test server
        let cfg = |base: &ServerConfig| ServerConfig {
            port: None,
            disable_https: dh,
            tls: if with_tls { Some(base.tls.clone().expect("harness: the https test server has key material")) } else { None },
            hpke_config: base.hpke_config.clone(),
        };
        match t[1].as_str() {
            "mpc" => {
                let ts = TestServerBuilder::<Helper>::default().with_request_handler(super::c20::ok_handler()).build().await;
                let nc = &ts.server.network_config;
                let peers = nc.peers.iter().zip([Some(0), Some(1), None]).map(|(p, c)| with_cert(p, c)).collect();
                let network = NetworkConfig::<Helper>::new_mpc(peers, nc.client.clone());
                let server = IpaHttpServer::<Helper>::new_mpc(Arc::clone(&ts.transport), cfg(&ts.server.config), network);
                ctor_ask(server, &t).await
            }
            "shard" => {
                let ts = TestServerBuilder::<Shard>::default().with_request_handler(super::c20::ok_handler()).build().await;
                let nc = &ts.server.network_config;
                let p0 = &nc.peers[0];
                let peers = (0..2).map(|i| with_cert(p0, Some(i))).collect();
                let network = NetworkConfig::<Shard>::new_shards(peers, nc.client.clone());
                let server = IpaHttpServer::<Shard>::new_shards(Arc::clone(&ts.transport), cfg(&ts.server.config), network);
                ctor_ask(server, &t).await
            }
            s => panic!("harness: unknown server {s}"),
        }
    }


    pub fn exec(req: &str) -> String {
        let t: Vec<String> = req.split(' ').map(str::to_string).collect();
        if t[0] == "c20.ctor" {
            assert!(t.len() == 6, "harness: malformed request {req}");
            return block_on_timeout(60, run_ctor(t)).unwrap_or_else(|e| e);
        }
        if t[0] == "c20.chain" {
            assert!(t.len() == 11, "harness: malformed request {req}");
            return block_on_timeout(30, run_chain(t)).unwrap_or_else(|e| e);
        }
        assert!(t[0] == "c20.live" && t.len() == 10, "harness: unknown request {req}");
        block_on_timeout(30, run(t)).unwrap_or_else(|e| e)
    }

    /// one well-formed request per extracted route: (server, group, method, path?query, body)
    fn requests() -> Vec<(String, String, String, String, &'static str)> {
        super::c20::route_table()
            .into_iter()
            .map(|(server, group, method, tpl)| {
                let mut p = tpl.replace(":query_id", "0").replace("*step", "a");
                let mut body = "-";
                if tpl.ends_with("/status-match") {
                    p.push_str("?status=Running");
                } else if tpl == "/echo" {
                    p.push_str("?foo=1");
                } else if method == "POST" && (tpl == "/query" || tpl == "/query/:query_id") {
                    p.push_str("?size=1&field_type=Fp31&query_type=test-multiply");
                    if tpl == "/query/:query_id" {
                        body = "roles";
                    }
                } else if method == "POST" && (tpl.contains("/step/") || tpl.ends_with("/input")) {
                    body = "junk";
                }
                (server, group, method, p, body)
            })
            .collect()
    }

    /// a header value that parses neither as HelperIdentity nor as ShardIndex
    const BAD: &str = "not-a-valid-identity";

    /// (key, chain): what a client puts into its Certificate message, end-entity first
    const CHAINS: &[(&str, &str)] = &[
        // controls: one certificate, as every ordinary client sends
        ("k1", "1"), ("k0", "0"), ("-", "-"),
        // passes the handshake (chains to the anchor of its key) but is on file for nobody
        ("k1", "r1"), ("k0", "r0"),
        // ... followed by the PUBLIC certificate of the peer to impersonate / of itself / of several peers
        ("k1", "r1,0"), ("k0", "r0,1"), ("k1", "r1,1"), ("k1", "r1,0,1"), ("k0", "r0,r1,2,r2,1,0"),
        // own certificate first, another peer's after it: identified as the first
        ("k0", "0,1"), ("k1", "1,0"), ("k1", "1,1"), ("k1", "1,r1"), ("k1", "1,2,r0,0"),
        // a peer's certificate without its key, alone / before the caller's own certificate
        ("k0", "1"), ("k1", "0"), ("k0", "1,0"), ("k1", "0,1"), ("k1", "r0,0"),
        // a key that no trust anchor vouches for
        ("k2", "2"), ("k2", "r2"), ("k2", "r2,0"), ("k2", "2,1,0"),
        // a leaf for a fresh key minted by the holder of key 1 / 0 / 2: handshake-valid iff the issuer is a
        // pinned peer, on file for nobody; followed by its issuer's / another peer's public certificate
        ("kl1", "l1"), ("kl1", "l1,1"), ("kl1", "l1,0"), ("kl0", "l0,1,0"), ("kl2", "l2,0"), ("k1", "l1,1"), ("kl1", "1"),
    ];

    fn chain_cases(rng: &mut Rng, thorough: bool, v: &mut Vec<String>) {
        let reqs = requests();
        for server in ["mpc", "shard"] {
            let (own, other) = if server == "mpc" { ("h", "s") } else { ("s", "h") };
            let val = |f: &str, k: usize| if f == "h" { ["A", "B", "C"][k] } else { ["0", "1", "2"][k] };
            let step = reqs.iter().find(|r| r.0 == server && r.3.contains("/step/")).expect("harness: step route").clone();
            let (_, sgroup, smethod, spath, sbody) = step;
            // every chain on the step route (the identity the data is attributed to is observable there)
            for bind in ["self", "pre"] {
                for (i, (key, chain)) in CHAINS.iter().enumerate() {
                    if !thorough && bind == "pre" && i % 3 != 2 {
                        continue;
                    }
                    v.push(format!("c20.chain {server} tls {bind} {sgroup} {smethod} {spath} {key} {chain} none {sbody}"));
                }
                // certificate AND identity header under TLS: the certificate decides, also WHO it is
                for (key, chain) in [("k1", "1"), ("k1", "1,0"), ("k1", "r1,0"), ("k0", "0"), ("-", "-")] {
                    for h in [format!("{own}={}", val(own, 0)), format!("{own}={}", val(own, 2)), format!("{own}=not-a-valid-identity"), format!("{other}={}", val(other, 0))] {
                        if !thorough && bind == "pre" && chain != "1" {
                            continue;
                        }
                        v.push(format!("c20.chain {server} tls {bind} {sgroup} {smethod} {spath} {key} {chain} {h} {sbody}"));
                    }
                }
                // without TLS the header decides who it is
                for h in ["none".to_string(), format!("{own}={}", val(own, 0)), format!("{own}={}", val(own, 1)), format!("{own}={}", val(own, 2)),
                          format!("{own}=not-a-valid-identity"), format!("{other}={}", val(other, 1))] {
                    v.push(format!("c20.chain {server} plain {bind} {sgroup} {smethod} {spath} - - {h} {sbody}"));
                }
            }
            // the telling chains on every other route of the server
            for (_, group, method, path, body) in reqs.iter().filter(|r| r.0 == server && !r.3.contains("/step/")) {
                let protected = group == "h2h" || group == "s2s";
                for (key, chain) in [("k1", "r1,0"), ("k0", "0,1"), ("k0", "1"), ("k1", "r1")] {
                    if !thorough && !protected && chain != "r1,0" {
                        continue;
                    }
                    v.push(format!("c20.chain {server} tls self {group} {method} {path} {key} {chain} none {body}"));
                }
            }
            // random chains
            for _ in 0..(if thorough { 150 } else { 12 }) {
                let toks = ["0", "1", "2", "r0", "r1", "r2", "l0", "l1", "l2"];
                let n = 1 + rng.below(5) as usize;
                let chain: Vec<&str> = (0..n).map(|_| toks[rng.below(9) as usize]).collect();
                // mostly the key of the first certificate (otherwise the handshake fails)
                let k = if rng.below(4) == 0 { rng.below(3).to_string() } else { chain[0].trim_start_matches('r').to_string() };
                let bind = if rng.bool() { "self" } else { "pre" };
                v.push(format!("c20.chain {server} tls {bind} {sgroup} {smethod} {spath} k{k} {} none {sbody}", chain.join(",")));
            }
        }
    }

    /// the whole configuration matrix through the real constructors
    fn ctor_cases(v: &mut Vec<String>) {
        for server in ["mpc", "shard"] {
            let (own, other) = if server == "mpc" { ("h", "s") } else { ("s", "h") };
            let val = |f: &str, k: usize| if f == "h" { ["A", "B", "C"][k] } else { ["0", "1", "2"][k] };
            // the configuration no launcher produces first: HTTPS requested, no key material
            for (dh, tls) in [("0", "none"), ("1", "none"), ("0", "some"), ("1", "some")] {
                for bind in ["pre", "self"] {
                    for h in [format!("{own}={}", val(own, 1)), "none".to_string(), format!("{own}={BAD}"), format!("{other}={}", val(other, 1))] {
                        v.push(format!("c20.ctor {server} {dh} {tls} {bind} {h}"));
                    }
                }
            }
        }
    }

    pub fn generate(rng: &mut Rng, thorough: bool) -> Vec<String> {
        let mut v = Vec::new();
        ctor_cases(&mut v);
        chain_cases(rng, thorough, &mut v);
        for (server, group, method, path, body) in requests() {
            let protected = group == "h2h" || group == "s2s";
            // identity headers: own flavor (valid peer 0 / peer 1 / malformed), other flavor
            let (own, other) = if server == "mpc" { ("h", "s") } else { ("s", "h") };
            let val = |f: &str, k: usize| if f == "h" { ["A", "B", "C"][k] } else { ["0", "1", "2"][k] };
            let mut hdrs = vec!["none".to_string(), format!("{own}={}", val(own, 1)), format!("{own}={}", val(own, 0)), format!("{own}={BAD}")];
            hdrs.push(format!("{other}={}", val(other, 1)));
            if thorough {
                hdrs.push(format!("{own}={}", val(own, 2)));
                hdrs.push(format!("{other}={BAD}"));
                // what the identity parsers accept / refuse at the edges (u32::from_str, "A"|"B"|"C")
                for e in ["", "+1", "007", "4294967295", "4294967296", "-1", "a", "H1", "+"] {
                    hdrs.push(format!("{own}={e}"));
                }
            }
            for bind in ["self", "pre"] {
                for cert in ["none", "1", "0", "x"] {
                    for h in &hdrs {
                        // quick tier: the full cert x header grid on the protected routes; on the open
                        // routes the corners only
                        if !thorough && !protected && !(cert == "none" || (cert == "1" && (h == "none" || h.ends_with(BAD)))) {
                            continue;
                        }
                        v.push(format!("c20.live {server} tls {bind} {group} {method} {path} {cert} {h} {body}"));
                    }
                }
                for h in &hdrs {
                    v.push(format!("c20.live {server} plain {bind} {group} {method} {path} none {h} {body}"));
                }
            }
        }
        v
    }
}

#[test]
fn verif_c20_live() {
    crate::ipa_verif::proto::run_suite("c20_live", c20_live::generate, c20_live::exec);
}
