// Suites that need access to items private to this module (feature ipa-verif, test builds only).
//
// ---------------------------------------------------------------------------------------------
// C11 — duplicate detection through the real sharded input path: `reshard_aad` (private module
// `reshard_tag`) with the picker used by `Query::execute`, then `UniqueTagValidator` on what each
// shard owns.  `include!`d as `crate::query::runner::ipa_verif_hook`.
//
//   c11.path <n> <tags of shard 0>/<tags of shard 1>/…     (decimal u128 tags, `-` = none)
//        -> per shard `ok` | `dup:<counter>`, `/`-separated (identical on the three helpers,
//           otherwise `mixed`)
// ---------------------------------------------------------------------------------------------
pub mod c11_path {
    use std::sync::Arc;

    use futures::stream;

    use super::super::reshard_tag::reshard_aad;
    use crate::{
        error::Error,
        ff::boolean_array::BA8,
        ipa_verif::{c11::tag_of, proto::*},
        protocol::context::ShardedContext,
        report::hybrid::{UniqueTag, UniqueTagValidator},
        secret_sharing::replicated::semi_honest::AdditiveShare as Replicated,
        sharding::ShardConfiguration,
        test_fixture::{Runner, TestWorld, TestWorldConfig, WithShards},
    };

    async fn run_n<const N: usize>(tags: Vec<Vec<u128>>) -> String {
        let world: TestWorld<WithShards<N>> = TestWorld::with_shards(TestWorldConfig::default());
        let tags = Arc::new(tags);
        let r: Vec<[String; 3]> = world
            .semi_honest(Vec::<BA8>::new().into_iter(), |ctx, _input: Vec<Replicated<BA8>>| {
                let tags = Arc::clone(&tags);
                async move {
                    let me = usize::from(ctx.shard_id());
                    let mine: Vec<Result<(u32, UniqueTag), Error>> = tags[me]
                        .iter()
                        .enumerate()
                        .map(|(i, t)| Ok((u32::try_from(i).unwrap(), tag_of(*t))))
                        .collect();
                    let n_mine = mine.len();
                    // exactly the call made by query/runner/hybrid.rs: Query::execute
                    let res = reshard_aad(ctx, stream::iter(mine), |ctx, _, tag: &UniqueTag| {
                        tag.shard_picker(ctx.shard_count())
                    })
                    .await;
                    match res {
                        Err(e) => format!("err:{}", canon(&format!("{e:?}"))),
                        Ok((data, resharded_tags)) => {
                            // the reports themselves stay where they were submitted
                            assert_eq!(data, (0..u32::try_from(n_mine).unwrap()).collect::<Vec<_>>());
                            let mut v = UniqueTagValidator::new(resharded_tags.len());
                            match v.check_duplicates(&resharded_tags) {
                                Ok(()) => "ok".to_string(),
                                Err(Error::DuplicateBytes(k)) => format!("dup:{k}"),
                                Err(e) => format!("err:{}", canon(&format!("{e:?}"))),
                            }
                        }
                    }
                }
            })
            .await;
        r.into_iter()
            .map(|[a, b, c]| if a == b && b == c { a } else { "mixed".to_string() })
            .collect::<Vec<_>>()
            .join("/")
    }

    pub fn exec(req: &str) -> String {
        let t: Vec<&str> = req.split(' ').collect();
        assert_eq!(t[0], "c11.path");
        let n: usize = t[1].parse().unwrap();
        let tags: Vec<Vec<u128>> = t[2].split('/').map(|l| parse_nat_list::<u128>(l)).collect();
        assert_eq!(tags.len(), n);
        block_on_timeout(20, async move {
            match n {
                1 => run_n::<1>(tags).await,
                2 => run_n::<2>(tags).await,
                3 => run_n::<3>(tags).await,
                4 => run_n::<4>(tags).await,
                5 => run_n::<5>(tags).await,
                _ => panic!("harness: unsupported shard count {n}"),
            }
        })
        .unwrap_or_else(|e| e)
    }

    fn show(tags: &[Vec<u128>]) -> String {
        tags.iter().map(|l| nat_list(l)).collect::<Vec<_>>().join("/")
    }

    pub fn generate(rng: &mut Rng, thorough: bool) -> Vec<String> {
        let mut v = Vec::new();
        for n in 1..=5usize {
            // no reports at all; one report; the same report twice on one shard; on two shards
            v.push(format!("c11.path {n} {}", show(&vec![vec![]; n])));
            let mut one = vec![vec![]; n];
            one[n - 1].push(u128::MAX);
            v.push(format!("c11.path {n} {}", show(&one)));
            // a duplicate pair at every (source shard a, source shard b) with distinct filler around it
            for a in 0..n {
                for b in a..n {
                    for dup_tag in [0u128, (n as u128) - 1, n as u128, u128::MAX, (1u128 << 64) + 3] {
                        let mut t: Vec<Vec<u128>> = (0..n).map(|s| (0..3 + s as u128).map(|k| 1000 + 100 * s as u128 + k).collect()).collect();
                        let pa = rng.usize_below(t[a].len() + 1);
                        t[a].insert(pa, dup_tag);
                        let pb = rng.usize_below(t[b].len() + 1);
                        t[b].insert(pb, dup_tag);
                        v.push(format!("c11.path {n} {}", show(&t)));
                    }
                }
            }
            // uneven sharding (b17): the shard that owns the duplicated tag (tag mod n = p) holds 0 / 1 tags of its own;
            // both copies on other shards (the same / two different ones), or one copy is its only tag; and the
            // pairwise distinct control of the same shape
            if n >= 2 {
                for p in 0..n {
                    let q = (p + 1) % n;
                    let r = (p + 2) % n;
                    let dup_tag = (p + 7 * n) as u128;
                    for own in 0..=1usize {
                        for (a, b) in [(Some(q), Some(q)), (Some(q), Some(r)), (Some(p), Some(q)), (None, None)] {
                            if (a == Some(p) && own == 0) || (n == 2 && a == Some(q) && b == Some(r)) {
                                continue;
                            }
                            // fillers: distinct tags owned by arbitrary shards (never the duplicated one)
                            let mut t: Vec<Vec<u128>> = (0..n).map(|s| if s == p { vec![] } else { (0..3u128).map(|k| 2000 + 10 * s as u128 + k).collect() }).collect();
                            if own == 1 && a != Some(p) {
                                t[p].push(3000 + p as u128);
                            }
                            for c in [a, b].into_iter().flatten() {
                                let pos = t[c].len().min(1);
                                t[c].insert(pos, dup_tag);
                            }
                            v.push(format!("c11.path {n} {}", show(&t)));
                        }
                    }
                }
            }
            // pairwise distinct inputs of various sizes, including tags that differ only in high bits
            for size in [1usize, 4, 9] {
                let t: Vec<Vec<u128>> = (0..n).map(|s| (0..size).map(|k| ((k as u128) << 64) + (s as u128) * 7919 + (k as u128)).collect()).collect();
                v.push(format!("c11.path {n} {}", show(&t)));
            }
        }
        for _ in 0..(if thorough { 1500 } else { 150 }) {
            let n = 1 + rng.usize_below(5);
            let dom = 1 + rng.below(60);
            let wide = rng.bool();
            let t: Vec<Vec<u128>> = (0..n)
                .map(|_| {
                    let len = if rng.below(5) == 0 { 0 } else { rng.usize_below(13) };
                    (0..len)
                        .map(|_| if wide && rng.below(4) != 0 { rng.next_u128() } else { u128::from(rng.below(dom)) })
                        .collect()
                })
                .collect();
            v.push(format!("c11.path {n} {}", show(&t)));
        }
        v
    }
}

#[test]
fn verif_c11_path() {
    crate::ipa_verif::proto::run_suite("c11_path", c11_path::generate, c11_path::exec);
}

// ---------------------------------------------------------------------------------------------
// C11 end to end: the real `Query::execute` (HPKE decryption, reshard_aad, validator, and — for
// accepted inputs — the whole attribution protocol) under TestWorld with shards.
//
//   c11.e2e <n> <report indices of shard 0>/<… shard 1>/…
//        report i is one encrypted hybrid report (the same ciphertext wherever index i occurs, so a
//        repeated index is the same encrypted report submitted twice). Every shard gets >= 8 reports
//        (finding F8: an empty shard makes the protocol wait forever).
//        -> `accepted` (every shard of every helper returned Ok)
//         | `rejected:<routing>`: some shard returned DuplicateBytes; routing = `on-picker-shard` if on
//           every helper exactly the shards `shard_picker(tag of a repeated report)` failed
//         | other text for anything else (timeouts, other errors)
//   c11.big <count> <i> <j>
//        ONE shard receives `count` encrypted reports, pairwise distinct except that the report at position j
//        is a byte-identical copy of the one at position i (count > 4096 with i, j in different 4096-chunks:
//        a per-chunk validator never compares them). Expected: DuplicateBytes before the protocol starts, so
//        the case is fast on a correct tree; anything else within 75 s (`accepted`, `timeout:…`) is the failing
//        outcome accepted-or-not-rejected.
//        -> `<verdict as c11.e2e> sent=<records sent> prss=<PRSS values drawn>`: everything the three helpers sent /
//        drew (all gates) between the call of `Query::execute` and the rejection; with one shard the resharding
//        step sends nothing, so "fails the query BEFORE attribution starts" = `rejected:on-picker-shard sent=0 prss=0`
//   c11.uneven <n> <p> <own> <copies> <fill>          (suite c11_uneven, b17)
//        UNEVEN sharding: the shard that OWNS the duplicated tag holds almost nothing of its own. n shards; one
//        encrypted report D is chosen whose tag is routed to shard p on all three helpers (`shard_picker(tag) = p`,
//        found by searching a deterministic pool of encrypted reports); shard p is handed `own` reports as its own
//        input (own = 0: an empty input body), every other shard `fill` distinct filler reports; `copies` = `a,b`:
//        D is submitted on shard a and on shard b (a = p or b = p: D is one of p's `own` reports, so own >= 1;
//        a = b != p: both copies on the same other shard), or `-`: D is not submitted at all (pairwise distinct
//        control of the same shape, full protocol run). The number of reports a shard holds as its own input is
//        unrelated to the number of tags routed to it, so shard p must reject whatever `own` is.
//        -> as c11.e2e (`rejected:on-picker-shard` = on every helper exactly shard p failed with DuplicateBytes)
// ---------------------------------------------------------------------------------------------
pub mod c11_e2e {
    use std::{collections::BTreeSet, sync::Arc, time::Duration};

    use bytes::Bytes;
    use futures::{StreamExt, stream::FuturesUnordered};
    use rand::{SeedableRng, rngs::StdRng};

    use super::super::hybrid::Query as HybridQuery;
    use crate::{
        error::Error,
        ff::boolean_array::{BA3, BA8, BA32},
        helpers::{BodyStream, query::{HybridQueryParams, QuerySize}},
        hpke::{KeyPair, KeyRegistry},
        ipa_verif::proto::*,
        report::hybrid::{DEFAULT_KEY_ID, EncryptedHybridReport, HybridReport, UniqueTag},
        secret_sharing::IntoShares,
        sharding::ShardIndex,
        test_fixture::{TestWorld, TestWorldConfig, WithShards, hybrid::TestHybridRecord},
    };

    fn records(count: usize) -> Vec<TestHybridRecord> {
        records_range(0, count)
    }

    fn records_range(from: usize, to: usize) -> Vec<TestHybridRecord> {
        (from..to)
            .map(|i| {
                if i % 3 == 2 {
                    TestHybridRecord::TestConversion {
                        match_key: 5000 + (i as u64) / 3,
                        value: 1 + (i as u32) % 7,
                        key_id: DEFAULT_KEY_ID,
                        conversion_site_domain: "meta.com".to_string(),
                        timestamp: 100 + i as u64,
                        epsilon: 0.0,
                        sensitivity: 0.0,
                    }
                } else {
                    TestHybridRecord::TestImpression {
                        match_key: 5000 + (i as u64) / 3 + if i % 3 == 1 { 100_000 } else { 0 },
                        breakdown_key: (i as u32) % 8,
                        key_id: DEFAULT_KEY_ID,
                    }
                }
            })
            .collect()
    }

    /// one encrypted segment (length prefix + ciphertext) per report per helper, and where its tag is routed
    struct Encrypted {
        key_registry: Arc<KeyRegistry<KeyPair>>,
        segs: [Vec<Vec<u8>>; 3],
        picks: [Vec<u32>; 3],
    }

    /// encrypts the shares of `recs` for the three helpers and appends them to `e`
    fn encrypt_more<R: rand::Rng + rand::CryptoRng>(e: &mut Encrypted, recs: Vec<TestHybridRecord>, shards: u32, rng: &mut R, deterministic: bool) {
        let shares: [Vec<HybridReport<BA8, BA3>>; 3] = if deterministic { recs.into_iter().share_with(rng) } else { recs.into_iter().share() };
        for (h, hs) in shares.into_iter().enumerate() {
            for share in hs {
                let mut buf = Vec::new();
                share.delimited_encrypt_to(DEFAULT_KEY_ID, e.key_registry.as_ref(), rng, &mut buf).unwrap();
                let enc = EncryptedHybridReport::<BA8, BA3>::from_bytes(Bytes::copy_from_slice(&buf[2..])).unwrap();
                let tag = UniqueTag::from_unique_bytes(&enc);
                e.picks[h].push(u32::from(tag.shard_picker(ShardIndex::from(shards))));
                e.segs[h].push(buf);
            }
        }
    }

    async fn run_n<const N: usize>(lists: Vec<Vec<usize>>, reject_deadline_s: u64) -> String {
        let count = lists.iter().flatten().max().map_or(0, |m| m + 1);
        let mut rng = StdRng::seed_from_u64(4242);
        let key_registry = Arc::new(KeyRegistry::<KeyPair>::random(1, &mut rng));
        let mut e = Encrypted { key_registry, segs: Default::default(), picks: Default::default() };
        encrypt_more(&mut e, records(count), N as u32, &mut rng, false);
        drive::<N>(e, lists, reject_deadline_s).await
    }

    /// Runs `Query::execute` on every shard of every helper: shard `s` is handed the encrypted reports `lists[s]`
    /// (declared query size = their number; an EMPTY list is an empty input body with declared size 1 — a
    /// `QuerySize` of 0 does not exist, and `take(sz)` of an empty stream is empty: the shard has no report
    /// of its own).
    async fn drive<const N: usize>(e: Encrypted, lists: Vec<Vec<usize>>, reject_deadline_s: u64) -> String {
        let Encrypted { key_registry, segs, picks } = e;
        // which report indices are submitted more than once, and where their tags are routed
        let mut seen = BTreeSet::new();
        let mut repeated = BTreeSet::new();
        for i in lists.iter().flatten() {
            if !seen.insert(*i) {
                repeated.insert(*i);
            }
        }
        let world = TestWorld::<WithShards<N>>::with_shards(TestWorldConfig::default());
        let contexts = world.malicious_contexts();
        let mut futs = FuturesUnordered::new();
        for (h, ctxs) in contexts.into_iter().enumerate() {
            for (s, ctx) in ctxs.into_iter().enumerate() {
                let buffer: Vec<u8> = lists[s].iter().flat_map(|i| segs[h][*i].iter().copied()).collect();
                let size = QuerySize::try_from(lists[s].len().max(1)).unwrap();
                let kr = Arc::clone(&key_registry);
                futs.push(async move {
                    let params = HybridQueryParams { with_dp: 0, ..Default::default() };
                    let r = HybridQuery::<_, BA32, KeyRegistry<KeyPair>>::new(params, kr)
                        .execute(ctx, size, BodyStream::from(buffer))
                        .await;
                    (h, s, r.map(|v| v.len()))
                });
            }
        }
        let want: [BTreeSet<u32>; 3] = std::array::from_fn(|h| repeated.iter().map(|i| picks[h][*i]).collect());
        let expect_reject = !repeated.is_empty();
        let mut dup: [BTreeSet<u32>; 3] = Default::default();
        let mut oks = 0usize;
        let mut other: Vec<String> = Vec::new();
        // generous: the machine may be heavily loaded; nothing below depends on speed
        let mut deadline = tokio::time::Instant::now() + Duration::from_secs(if expect_reject { reject_deadline_s } else { 400 });
        let total = 3 * N;
        let mut done = 0usize;
        let mut grace = false;
        while done < total {
            match tokio::time::timeout_at(deadline, futs.next()).await {
                Ok(Some((h, s, r))) => {
                    done += 1;
                    match r {
                        Ok(_) => oks += 1,
                        Err(Error::DuplicateBytes(_)) => {
                            dup[h].insert(s as u32);
                        }
                        Err(e) => other.push(format!("h{h}s{s}:{}", canon(&format!("{e:?}")))),
                    }
                    // the peers of an erring shard never finish (they wait in the protocol): once
                    // every shard that must fail has failed, allow a short grace period for
                    // anything unexpected and stop
                    if expect_reject && !grace && (0..3).all(|h| want[h].is_subset(&dup[h])) {
                        grace = true;
                        deadline = tokio::time::Instant::now() + Duration::from_secs(2);
                    }
                }
                Ok(None) => break,
                Err(_) => break,
            }
        }
        if !other.is_empty() {
            return format!("error:{}", other.join(";"));
        }
        if dup.iter().all(BTreeSet::is_empty) {
            return if oks == total { "accepted".into() } else { format!("timeout:{oks}-of-{total}-finished") };
        }
        let routing_ok = (0..3).all(|h| dup[h] == want[h]);
        format!("rejected:{}", if routing_ok { "on-picker-shard" } else { "elsewhere" })
    }

    /// (records sent, PRSS values drawn — indexed and sequential) recorded on THIS thread so far, all gates
    fn protocol_traffic() -> (u64, u64) {
        use crate::telemetry::metrics::{INDEXED_PRSS_GENERATED, RECORDS_SENT, SEQUENTIAL_PRSS_GENERATED};
        ipa_metrics::MetricsCurrentThreadContext::store(|store| {
            let sum = |name: &'static str| -> u64 { store.counters().filter(|(n, _)| n.key == name).map(|(_, v)| v).sum() };
            (sum(RECORDS_SENT), sum(INDEXED_PRSS_GENERATED) + sum(SEQUENTIAL_PRSS_GENERATED))
        })
    }

    pub fn exec(req: &str) -> String {
        let t: Vec<&str> = req.split(' ').collect();
        if t[0] == "c11.big" {
            let count: usize = t[1].parse().unwrap();
            let i: usize = t[2].parse().unwrap();
            let j: usize = t[3].parse().unwrap();
            assert!(i < j && j < count);
            let list: Vec<usize> = (0..count).map(|k| if k == j { i } else { k }).collect();
            // report `j` itself is never submitted, but `run_n` creates reports 0..=max index.
            // "Before attribution starts" is OBSERVED: the three helpers run on ONE dedicated thread (current-thread
            // runtime), so the thread-local metric store sees every record any of them sends and every PRSS value any
            // of them draws between the call of `Query::execute` and its rejection. With one shard per helper the
            // resharding step sends nothing, so on a correct tree both counts are exactly zero.
            let h = std::thread::spawn(move || {
                let rt = tokio::runtime::Builder::new_current_thread().enable_all().build().unwrap();
                rt.block_on(async move {
                    let before = protocol_traffic();
                    let r = tokio::time::timeout(Duration::from_secs(300), run_n::<1>(vec![list], 75)).await.unwrap_or_else(|_| "timeout".to_string());
                    let after = protocol_traffic();
                    format!("{r} sent={} prss={}", after.0 - before.0, after.1 - before.1)
                })
            });
            return h.join().unwrap_or_else(|e| {
                format!("panic:{}", e.downcast_ref::<String>().cloned().or_else(|| e.downcast_ref::<&str>().map(|s| (*s).to_string())).unwrap_or_default())
            });
        }
        assert_eq!(t[0], "c11.e2e");
        let n: usize = t[1].parse().unwrap();
        let lists: Vec<Vec<usize>> = t[2].split('/').map(|l| parse_nat_list::<usize>(l)).collect();
        assert_eq!(lists.len(), n);
        block_on_timeout(420, async move {
            match n {
                1 => run_n::<1>(lists, 150).await,
                2 => run_n::<2>(lists, 150).await,
                3 => run_n::<3>(lists, 150).await,
                4 => run_n::<4>(lists, 150).await,
                5 => run_n::<5>(lists, 150).await,
                _ => panic!("harness: unsupported shard count {n}"),
            }
        })
        .unwrap_or_else(|e| e)
    }

    /// `c11.uneven`: see the grammar above.
    async fn run_uneven<const N: usize>(p: usize, own: usize, copies: Option<(usize, usize)>, fill: usize) -> String {
        assert!(p < N && copies.is_none_or(|(a, b)| a < N && b < N), "harness: shard index out of range");
        let on_p = copies.map_or(0, |(a, b)| usize::from(a == p) + usize::from(b == p));
        assert!(on_p <= 1 && on_p <= own, "harness: a copy submitted on shard p is one of its `own` reports (at most one)");
        let mut rng = StdRng::seed_from_u64(0xC11D + N as u64);
        let key_registry = Arc::new(KeyRegistry::<KeyPair>::random(1, &mut rng));
        let mut e = Encrypted { key_registry, segs: Default::default(), picks: Default::default() };
        // D: the first report of the pool whose tag is routed to shard p by all three helpers (the three helpers
        // hold different ciphertexts of the same report, hence different tags)
        let needed = 1 + own + fill * (N - 1);
        let mut d = None;
        while d.is_none() || e.segs[0].len() < needed {
            let have = e.segs[0].len();
            assert!(have < 8192, "harness: no report routed to shard {p} by all helpers among {have}");
            encrypt_more(&mut e, records_range(have, have + 32), N as u32, &mut rng, true);
            d = (0..e.segs[0].len()).find(|i| (0..3).all(|h| e.picks[h][*i] as usize == p));
        }
        let d = d.unwrap();
        let mut fillers = (0..e.segs[0].len()).filter(|i| *i != d);
        let mut lists: Vec<Vec<usize>> = Vec::new();
        for s in 0..N {
            let mut l: Vec<usize> = fillers.by_ref().take(if s == p { own - on_p } else { fill }).collect();
            if let Some((a, b)) = copies {
                // not adjacent, not at the same position on two shards
                if a == s {
                    l.insert(l.len().min(1), d);
                }
                if b == s {
                    l.push(d);
                }
            }
            lists.push(l);
        }
        assert_eq!(lists[p].len(), own);
        // a correct tree rejects before the protocol starts (well under a second); 60 s leave room for a loaded machine
        drive::<N>(e, lists, 60).await
    }

    pub fn exec_uneven(req: &str) -> String {
        let t: Vec<&str> = req.split(' ').collect();
        assert_eq!(t[0], "c11.uneven");
        let n: usize = t[1].parse().unwrap();
        let p: usize = t[2].parse().unwrap();
        let own: usize = t[3].parse().unwrap();
        let copies = if t[4] == "-" {
            None
        } else {
            let c = parse_nat_list::<usize>(t[4]);
            assert_eq!(c.len(), 2);
            Some((c[0], c[1]))
        };
        let fill: usize = t[5].parse().unwrap();
        block_on_timeout(420, async move {
            match n {
                2 => run_uneven::<2>(p, own, copies, fill).await,
                3 => run_uneven::<3>(p, own, copies, fill).await,
                4 => run_uneven::<4>(p, own, copies, fill).await,
                5 => run_uneven::<5>(p, own, copies, fill).await,
                _ => panic!("harness: unsupported shard count {n}"),
            }
        })
        .unwrap_or_else(|e| e)
    }

    pub fn generate_uneven(_rng: &mut Rng, thorough: bool) -> Vec<String> {
        let mut v = Vec::new();
        // the picker shard of the duplicated tag holds 0 / exactly 1 report of its own; the copies are (i) both on
        // other shards (the same one / two different ones), (ii) one of them is the picker shard's only report
        let shapes = |n: usize, p: usize, owns: &[usize]| -> Vec<String> {
            let q = (p + 1) % n;
            let r = (p + 2) % n;
            let mut out = Vec::new();
            for &own in owns {
                out.push(format!("c11.uneven {n} {p} {own} {q},{q} 3"));
                if n > 2 {
                    out.push(format!("c11.uneven {n} {p} {own} {},{} 3", q.min(r), q.max(r)));
                }
                if own >= 1 {
                    out.push(format!("c11.uneven {n} {p} {own} {},{} 3", p.min(q), p.max(q)));
                }
            }
            out
        };
        for p in 0..2 {
            v.extend(shapes(2, p, &[0, 1]));
        }
        v.extend(shapes(3, 2, &[0, 1]));
        if thorough {
            v.extend(shapes(3, 0, &[0, 1]));
            v.extend(shapes(3, 1, &[0, 1]));
            // at and above the "two reports" threshold, larger fill, more shards
            v.extend(shapes(2, 1, &[2, 3]));
            v.extend(shapes(3, 1, &[2]));
            v.extend(shapes(4, 3, &[0, 1]));
            v.extend(shapes(5, 2, &[0, 1]));
            v.push("c11.uneven 2 0 0 1,1 9".to_string());
            v.push("c11.uneven 3 1 1 0,1 9".to_string());
        }
        v
    }

    /// pairwise distinct inputs of the same shapes are accepted (full protocol run on a handful of reports: ~75 s
    /// each in a debug build, hence a suite of its own that runs next to the others)
    pub fn generate_uneven_ok(_rng: &mut Rng, thorough: bool) -> Vec<String> {
        let mut v = vec!["c11.uneven 2 1 0 - 3".to_string()];
        if thorough {
            v.push("c11.uneven 2 0 1 - 3".to_string());
            v.push("c11.uneven 3 2 0 - 3".to_string());
            v.push("c11.uneven 3 0 1 - 3".to_string());
            v.push("c11.uneven 2 1 2 - 3".to_string());
        }
        v
    }

    pub fn generate(rng: &mut Rng, thorough: bool) -> Vec<String> {
        let mut v = Vec::new();
        let show = |l: &Vec<Vec<usize>>| l.iter().map(|x| nat_list(x)).collect::<Vec<_>>().join("/");
        let base = |n: usize, per: usize| -> Vec<Vec<usize>> { (0..n).map(|s| (s * per..(s + 1) * per).collect()).collect() };
        // distinct reports are accepted (full protocol run: slow, thorough tier only)
        if thorough {
            v.push(format!("c11.e2e 2 {}", show(&base(2, 8))));
        }
        // the same report twice: on one shard, on two different shards
        let cases: Vec<(usize, usize, usize)> = if thorough {
            (1..=5).flat_map(|n| (0..n).flat_map(move |a| (a..n).map(move |b| (n, a, b)))).collect()
        } else {
            vec![(1, 0, 0), (2, 0, 1), (3, 2, 2), (3, 0, 2)]
        };
        for (n, a, b) in cases {
            let mut l = base(n, 8);
            let victim = l[a][rng.usize_below(8)];
            let pos = rng.usize_below(l[b].len() + 1);
            l[b].insert(pos, victim);
            v.push(format!("c11.e2e {n} {}", show(&l)));
        }
        if thorough {
            v.push(format!("c11.e2e 1 {}", show(&base(1, 9))));
        }
        // more reports on one shard than any bounded validation batch: the first and the last report are
        // byte-identical (4097 reports: positions 0 and 4096)
        v.push("c11.big 4097 0 4096".to_string());
        // both copies beyond the first 4096 tags
        v.push("c11.big 4099 4097 4098".to_string());
        // just above a smaller power of two: the later copy at tag position 1024 / the earlier one there as well
        v.push("c11.big 1030 0 1024".to_string());
        v.push("c11.big 1100 1024 1099".to_string());
        if thorough {
            // adjacent across the 4096 boundary, far apart across two boundaries, both inside the second chunk
            v.push("c11.big 4098 4095 4096".to_string());
            v.push("c11.big 8200 100 8199".to_string());
            v.push("c11.big 4200 4100 4199".to_string());
            // both copies inside the first 1024 tags of a longer input; other powers of two
            v.push("c11.big 1100 3 1000".to_string());
            v.push("c11.big 2050 1023 2048".to_string());
            v.push("c11.big 520 0 512".to_string());
        }
        v
    }
}

#[test]
fn verif_c11_e2e() {
    crate::ipa_verif::proto::run_suite("c11_e2e", c11_e2e::generate, c11_e2e::exec);
}

// own test function: runs concurrently with c11_e2e (whose two 4 097-report cases dominate the wall time)
#[test]
fn verif_c11_uneven() {
    crate::ipa_verif::proto::run_suite("c11_uneven", c11_e2e::generate_uneven, c11_e2e::exec_uneven);
}

#[test]
fn verif_c11_distinct_uneven() {
    crate::ipa_verif::proto::run_suite("c11_distinct_uneven", c11_e2e::generate_uneven_ok, c11_e2e::exec_uneven);
}

// ---------------------------------------------------------------------------------------------
// C01 on the production entry point: the real `Query::execute` of query/runner/hybrid.rs (HPKE
// decryption, reshard by unique tag, duplicate check, `hybrid_protocol::<_, BA8, BA3, BA32, 3, 256>`
// with `PaddingParameters::default()`) under `TestWorld<WithShards<N>>` with malicious contexts.
//
//   c01.query <shards> <assign> <records>
//        assign  : comma list, index of the shard that RECEIVES the i-th encrypted report
//        records : as in c01.e2e (`i:<mk>:<bk>` | `c:<mk>:<v>`)
//        -> reconstructed histogram of the leader shard `h0,…,h255`
//         | `err:<Kind>` (first error of any helper/shard, kind only) | `timeout`
//         | `follower-nonempty:<shard>` | `length-mismatch`
// Besides queries with >= 30 match keys per shard there are tiny ones (2-3 reports on 2-3 shards) in
// which a shard is left without rows after resharding by tag (finding F8, repaired).
// ---------------------------------------------------------------------------------------------
pub mod c01_query {
    use std::sync::Arc;

    use rand::{SeedableRng, rngs::StdRng};

    use super::super::hybrid::Query as HybridQuery;
    use crate::{
        error::Error,
        ff::{U128Conversions, boolean_array::{BA3, BA8, BA32}},
        helpers::{BodyStream, query::{HybridQueryParams, QuerySize}},
        hpke::{KeyPair, KeyRegistry},
        ipa_verif::{c01::{gen_records, parse_records, rec_str}, proto::*},
        report::hybrid::{DEFAULT_KEY_ID, HybridReport},
        secret_sharing::{IntoShares, replicated::semi_honest::AdditiveShare as Replicated},
        test_fixture::{Reconstruct, TestWorld, TestWorldConfig, WithShards, flatten3v},
    };

    fn err_kind(e: &Error) -> String {
        let d = format!("{e:?}");
        let k: String = d.chars().take_while(|c| c.is_alphanumeric() || *c == '_').collect();
        format!("err:{k}")
    }

    fn seed_of(req: &str) -> u64 {
        req.bytes().fold(0xcbf2_9ce4_8422_2325u64, |h, b| (h ^ u64::from(b)).wrapping_mul(0x0000_0100_0000_01B3))
    }

    async fn run_n<const N: usize>(seed: u64, assign: Vec<usize>, records: Vec<crate::test_fixture::hybrid::TestHybridRecord>) -> String {
        let mut rng = StdRng::seed_from_u64(seed);
        let key_registry = Arc::new(KeyRegistry::<KeyPair>::random(1, &mut rng));
        let shares: [Vec<HybridReport<BA8, BA3>>; 3] = records.into_iter().share_with(&mut rng);
        // buffers[helper][shard]: length-delimited encrypted reports
        let mut buffers: [Vec<Vec<u8>>; 3] = std::array::from_fn(|_| vec![Vec::new(); N]);
        let mut sizes = vec![0usize; N];
        for (h, hs) in shares.into_iter().enumerate() {
            for (i, share) in hs.into_iter().enumerate() {
                let s = assign[i] % N;
                share.delimited_encrypt_to(DEFAULT_KEY_ID, key_registry.as_ref(), &mut rng, &mut buffers[h][s]).unwrap();
                if h == 0 {
                    sizes[s] += 1;
                }
            }
        }
        let Ok(query_sizes) = sizes.iter().map(|s| QuerySize::try_from(*s)).collect::<Result<Vec<_>, _>>() else {
            return "err:QuerySize".to_string();
        };
        let mut config = TestWorldConfig::default().with_timeout_secs(600);
        config.seed = seed;
        let world = TestWorld::<WithShards<N>>::with_shards(config);
        let contexts = world.malicious_contexts();
        #[allow(clippy::large_futures)]
        let results: Vec<Result<Vec<Replicated<BA32>>, Error>> = flatten3v(buffers.into_iter().zip(contexts).map(|(helper_buffers, helper_ctxs)| {
            helper_buffers.into_iter().zip(helper_ctxs).zip(query_sizes.clone()).map(|((buffer, ctx), query_size)| {
                let params = HybridQueryParams { with_dp: 0, ..Default::default() };
                HybridQuery::<_, BA32, KeyRegistry<KeyPair>>::new(params, Arc::clone(&key_registry))
                    .execute(ctx, query_size, BodyStream::from(buffer))
            })
        }))
        .await;
        // flatten3v order: shard-major (shard 0: helpers 0,1,2; shard 1: …)
        if results.len() != 3 * N {
            return "length-mismatch".to_string();
        }
        if let Some(e) = results.iter().find_map(|r| r.as_ref().err()) {
            return err_kind(e);
        }
        let get = |h: usize, s: usize| results[s * 3 + h].as_ref().unwrap().clone();
        for s in 1..N {
            for h in 0..3 {
                if !get(h, s).is_empty() {
                    return format!("follower-nonempty:{s}");
                }
            }
        }
        let hist: Vec<BA32> = [get(0, 0), get(1, 0), get(2, 0)].reconstruct();
        nat_list(&hist.iter().map(|x| x.as_u128()).collect::<Vec<_>>())
    }

    pub fn exec(req: &str) -> String {
        let t: Vec<&str> = req.split(' ').collect();
        assert_eq!(t[0], "c01.query");
        let n: usize = t[1].parse().unwrap();
        let assign: Vec<usize> = parse_nat_list(t[2]);
        let records = parse_records(t[3]);
        assert_eq!(assign.len(), records.len(), "harness: one shard index per record");
        let seed = seed_of(req);
        block_on_timeout(900, async move {
            match n {
                1 => run_n::<1>(seed, assign, records).await,
                2 => run_n::<2>(seed, assign, records).await,
                3 => run_n::<3>(seed, assign, records).await,
                _ => panic!("harness: unsupported shard count {n}"),
            }
        })
        .unwrap_or_else(|e| e)
    }

    pub fn generate(rng: &mut Rng, thorough: bool) -> Vec<String> {
        let mut v = Vec::new();
        let mut case = |rng: &mut Rng, shards: usize, n_keys: usize, style: u64| {
            let recs = gen_records(rng, n_keys, 256, 8);
            let a: Vec<usize> = (0..recs.len())
                .map(|i| match style {
                    0 => i % shards,
                    1 => rng.usize_below(shards),
                    _ => shards - 1 - (i % shards),
                })
                .collect();
            format!("c01.query {shards} {} {}", nat_list(&a), rec_str(&recs))
        };
        // quick: one single-shard query with 32 match keys (the two-shard 64-key query runs in the thorough tier;
        // the tiny multi-shard queries below keep the sharded path in the quick tier)
        v.push(case(rng, 1, 32, 0));
        if thorough {
            v.push(case(rng, 2, 64, 0));
        }
        // tiny multi-shard queries: every shard submits at least one report (a query size of zero is
        // rejected before the protocol), the unique tags decide where they are processed
        v.push("c01.query 2 0,1 i:1:2,c:1:3".to_string());
        if thorough {
            v.push("c01.query 3 0,1,2 i:7:5,c:7:6,c:8:1".to_string());
            for i in 0..6u64 {
                let shards = 1 + (i as usize % 2);
                let n_keys = 30 * shards + rng.usize_below(40);
                v.push(case(rng, shards, n_keys, 1 + i % 2));
            }
            v.push(case(rng, 3, 100, 1));
        }
        v
    }
}

#[test]
fn verif_c01_query() {
    crate::ipa_verif::proto::run_suite("c01_query", c01_query::generate, c01_query::exec);
}

// ---------------------------------------------------------------------------------------------
// C10 on the production entry point: malformed / short / long encrypted input bodies handed to the
// real `Query::execute` of query/runner/hybrid.rs (LengthDelimitedStream, try_from, decrypt,
// take(query_size), reshard_aad, and — for accepted inputs — the whole protocol) under
// `TestWorld<WithShards<1>>` with malicious contexts. Request grammar, labels and the rule about which
// helpers are awaited: see harness/c10.rs (`c10.query`).
// ---------------------------------------------------------------------------------------------
pub mod c10_query {
    use std::{sync::Arc, time::Duration};

    use bytes::Bytes;
    use futures::{StreamExt, stream::FuturesUnordered};

    use super::super::hybrid::Query as HybridQuery;
    use crate::{
        error::BoxError,
        ff::{U128Conversions, boolean_array::BA32},
        helpers::{BodyStream, query::{HybridQueryParams, QuerySize}},
        ipa_verif::{c10::{QueryReq, Reg, parse_query_req, query_err_class}, proto::*},
        secret_sharing::replicated::semi_honest::AdditiveShare as Replicated,
        test_fixture::{Reconstruct, TestWorld, TestWorldConfig, WithShards},
    };

    /// seconds granted to helpers that must fail on their input / to a complete protocol run
    const T_ERR: u64 = 60;
    const T_RUN: u64 = 600;

    async fn run(req: QueryReq) -> String {
        let QueryReq { sz, reg, labels, chunks, seed } = req;
        let Ok(size) = QuerySize::try_from(sz) else {
            return "err:QuerySize".to_string();
        };
        let mut config = TestWorldConfig::default().with_timeout_secs(T_RUN);
        config.seed = seed;
        let world = TestWorld::<WithShards<1>>::with_shards(config);
        let contexts = world.malicious_contexts();
        let reg = Arc::new(reg);
        let mut futs = FuturesUnordered::new();
        for (h, (ctxs, chunks)) in contexts.into_iter().zip(chunks).enumerate() {
            let ctx = ctxs.into_iter().next().unwrap();
            let kr = Arc::clone(&reg);
            futs.push(async move {
                let body = BodyStream::from_bytes_stream(futures::stream::iter(
                    chunks.into_iter().map(|c| Ok::<Bytes, BoxError>(Bytes::from(c))),
                ));
                let params = HybridQueryParams { with_dp: 0, ..Default::default() };
                let r = HybridQuery::<_, BA32, Reg>::new(params, kr).execute(ctx, size, body).await;
                (h, r)
            });
        }
        let mut results: [Option<Vec<Replicated<BA32>>>; 3] = Default::default();
        let some_malformed = labels.contains(&b'm');
        let awaited: Vec<bool> = labels.iter().map(|l| !some_malformed || *l == b'm').collect();
        let deadline = tokio::time::Instant::now() + Duration::from_secs(if some_malformed { T_ERR } else { T_RUN });
        let mut outcome: [Option<String>; 3] = Default::default();
        while (0..3).any(|h| awaited[h] && outcome[h].is_none()) {
            match tokio::time::timeout_at(deadline, futs.next()).await {
                Ok(Some((h, r))) => {
                    outcome[h] = Some(match r {
                        Ok(v) if v.len() == 256 => {
                            results[h] = Some(v);
                            "ok".to_string()
                        }
                        Ok(v) => format!("ok-but-{}-buckets", v.len()),
                        Err(e) => query_err_class(&e),
                    });
                }
                Ok(None) | Err(_) => break,
            }
        }
        let mut resp = (0..3)
            .map(|h| {
                let o = if !awaited[h] { "peer".to_string() } else { outcome[h].clone().unwrap_or_else(|| "timeout".to_string()) };
                format!("H{}={o}", h + 1)
            })
            .collect::<Vec<_>>()
            .join(" ");
        if let [Some(a), Some(b), Some(c)] = results {
            // all three completed: the reconstructed histogram, non-zero buckets only
            let hist: Vec<BA32> = [a, b, c].reconstruct();
            let nz: Vec<String> = hist.iter().enumerate().filter(|(_, x)| x.as_u128() != 0).map(|(i, x)| format!("{i}:{}", x.as_u128())).collect();
            resp.push_str(" hist=");
            resp.push_str(&if nz.is_empty() { "-".to_string() } else { nz.join(",") });
        }
        resp
    }

    pub fn exec(req: &str) -> String {
        let r = parse_query_req(req);
        block_on_timeout(T_RUN + 30, run(r)).unwrap_or_else(|e| e)
    }
}

#[test]
fn verif_c10_query() {
    crate::ipa_verif::proto::run_suite("c10_query", crate::ipa_verif::c10::gen_query, c10_query::exec);
}

#[test]
fn verif_c10_query_long() {
    crate::ipa_verif::proto::run_suite("c10_query_long", crate::ipa_verif::c10::gen_query_long, c10_query::exec);
}

#[test]
fn verif_c10_query_short() {
    crate::ipa_verif::proto::run_suite("c10_query_short", crate::ipa_verif::c10::gen_query_short, c10_query::exec);
}

// ---------------------------------------------------------------------------------------------
// C19 — resharding of input streams that are NOT always ready: the real `reshard_aad` (private module
// `reshard_tag`; its `StreamSplitter` sits between the input stream and `reshard_try_stream`), and
// `reshard_try_stream` / `reshard_stream` called directly, on input streams that answer `Poll::Pending`
// at scripted positions ("whatever the timing").
//
//   c19.stall <aad|try|stream> <sh|mal> <n> <dests> <hints> <errs> <stalls>
//     n, dests, hints, errs   as in `c19.reshard` (hints / errs must be `-` for `stream`)
//     stalls  one list per shard, `/`-separated; list = `-` or comma separated entries `<pos>[d][@<h>]`:
//             the input stream of that shard answers `Pending` once more before it yields its item
//             number <pos> (items are counted from 0, an `Err` item counts; <pos> = number of items:
//             before the end of the stream). An entry may be repeated: that many `Pending` answers in a
//             row. Plain entry: the stream wakes its task at once (`wake_by_ref`); `d`: the wake-up comes
//             ~1 ms later from another task; `@<h>`: only on helper <h> (0, 1, 2) — the three helpers'
//             inputs then differ in timing.
//   Record k of shard s: data record = the share of s*1000+k (BA64); for `aad` its tag is the plain
//   value 500000+s*1000+k, the same on the three helpers, and the picker looks the destination up by
//   the TAG it is handed (`dests[tag's shard][tag's position]`; a tag that arrives with a record id other
//   than its position in the stream is sent to the NEXT shard instead); for `try`/`stream` the record itself is
//   resharded and the picker uses (shard, record id) as in `c19.reshard`.
//   Response, per shard `/`-separated:
//     aad          `<kept data records>;<tags received>` (reconstructed / plain; `-` = empty)
//     try, stream  `<records received>`
//     `!` all three helpers returned Err, `~` all three still waiting when the window closed (3 s when
//     the request injects a failure, 15 s otherwise), `mixed` helpers disagree.
// ---------------------------------------------------------------------------------------------
pub mod c19_aad {
    use std::{
        pin::Pin,
        sync::Arc,
        task::{Context as TaskContext, Poll},
        time::Duration,
    };

    use futures::{Stream, stream};

    use super::super::reshard_tag::reshard_aad;
    use crate::{
        error::Error,
        ff::{U128Conversions, boolean_array::BA64},
        helpers::Role,
        ipa_verif::{
            c19::{BySizes, Hinted, gen_dests, parse_lists, run_isolated, set_sizes, show_lists},
            proto::*,
        },
        protocol::{
            RecordId,
            context::{Context, ShardedContext, reshard_stream, reshard_try_stream},
        },
        secret_sharing::replicated::semi_honest::AdditiveShare as Replicated,
        sharding::{ShardConfiguration, ShardIndex},
        test_fixture::{Reconstruct, Runner, TestWorld, TestWorldConfig, WithShards},
    };

    pub const TAG_BASE: u128 = 500_000;

    #[derive(Clone, Copy, Debug)]
    pub struct Stall {
        pos: usize,
        delayed: bool,
        helper: Option<usize>,
    }

    /// Yields the items of `inner`, answering `Pending` at the scripted positions first.
    struct Stalled<S> {
        inner: Pin<Box<S>>,
        yielded: usize,
        /// sorted by position
        stalls: Vec<Stall>,
        next: usize,
    }

    impl<S: Stream> Stream for Stalled<S> {
        type Item = S::Item;

        fn poll_next(mut self: Pin<&mut Self>, cx: &mut TaskContext<'_>) -> Poll<Option<Self::Item>> {
            let this = &mut *self;
            if let Some(st) = this.stalls.get(this.next).copied() {
                if st.pos == this.yielded {
                    this.next += 1;
                    if st.delayed {
                        let w = cx.waker().clone();
                        tokio::spawn(async move {
                            tokio::time::sleep(Duration::from_millis(1)).await;
                            w.wake();
                        });
                    } else {
                        cx.waker().wake_by_ref();
                    }
                    return Poll::Pending;
                }
            }
            let r = this.inner.as_mut().poll_next(cx);
            if let Poll::Ready(Some(_)) = r {
                this.yielded += 1;
            }
            r
        }

        fn size_hint(&self) -> (usize, Option<usize>) {
            self.inner.size_hint()
        }
    }

    fn parse_stalls(s: &str) -> Vec<Vec<Stall>> {
        s.split('/')
            .map(|l| {
                if l == "-" {
                    return vec![];
                }
                let mut v: Vec<Stall> = l
                    .split(',')
                    .map(|e| {
                        let (e, helper) = match e.split_once('@') {
                            Some((a, h)) => (a, Some(h.parse().unwrap())),
                            None => (e, None),
                        };
                        let (e, delayed) = match e.strip_suffix('d') {
                            Some(a) => (a, true),
                            None => (e, false),
                        };
                        Stall { pos: e.parse().unwrap(), delayed, helper }
                    })
                    .collect();
                v.sort_by_key(|s| s.pos);
                v
            })
            .collect()
    }

    pub struct Case {
        func: String,
        dests: Vec<Vec<u32>>,
        hints: Vec<i64>,
        errs: Vec<Option<usize>>,
        stalls: Vec<Vec<Stall>>,
    }

    type Out = Result<(Vec<Replicated<BA64>>, Vec<BA64>), String>;

    fn role_index(r: Role) -> usize {
        match r {
            Role::H1 => 0,
            Role::H2 => 1,
            Role::H3 => 2,
        }
    }

    /// what one helper does on one shard
    async fn shard_call<C: ShardedContext>(ctx: C, shard_input: Vec<Replicated<BA64>>, case: Arc<Case>, window: Duration) -> Out {
        let me = usize::from(ctx.shard_id());
        let helper = role_index(ctx.role());
        assert_eq!(shard_input.len(), case.dests[me].len(), "harness: input distribution");
        let len = shard_input.len();
        let stalls: Vec<Stall> = case.stalls.get(me).cloned().unwrap_or_default().into_iter().filter(|s| s.helper.is_none_or(|h| h == helper)).collect();
        let extra = case.hints.get(me).copied().unwrap_or(0);
        let hint = usize::try_from((len as i64 + extra).max(0)).unwrap();
        let err_at = case.errs.get(me).copied().flatten();
        let table = case.dests.clone();
        let func = case.func.clone();
        let res = tokio::time::timeout(window, async move {
            match func.as_str() {
                "aad" => {
                    let mut items: Vec<Result<(Replicated<BA64>, BA64), Error>> = shard_input
                        .into_iter()
                        .enumerate()
                        .map(|(k, v)| Ok((v, BA64::truncate_from(TAG_BASE + (me * 1000 + k) as u128))))
                        .collect();
                    if let Some(pos) = err_at {
                        items.insert(pos.min(len), Err(Error::InconsistentShares));
                    }
                    let input = Hinted { inner: Box::pin(Stalled { inner: Box::pin(stream::iter(items)), yielded: 0, stalls, next: 0 }), hint };
                    let shards = table.len();
                    let picker = move |_: C, rid: RecordId, tag: &BA64| {
                        let t = usize::try_from(tag.as_u128() - TAG_BASE).unwrap();
                        let d = table[t / 1000][t % 1000] as usize;
                        // the record id handed to the picker is the position of the record in the input stream (stalls
                        // consume no ids): otherwise the tag is deliberately misrouted, which the oracle reports
                        let d = if usize::from(rid) == t % 1000 { d } else { (d + 1) % shards };
                        ShardIndex::from(d as u32)
                    };
                    reshard_aad(ctx, input, picker).await.map_err(|e| format!("{e:?}"))
                }
                "try" => {
                    let mut items: Vec<Result<Replicated<BA64>, Error>> = shard_input.into_iter().map(Ok).collect();
                    if let Some(pos) = err_at {
                        items.insert(pos.min(len), Err(Error::InconsistentShares));
                    }
                    let input = Hinted { inner: Box::pin(Stalled { inner: Box::pin(stream::iter(items)), yielded: 0, stalls, next: 0 }), hint };
                    let picker = move |c: C, rid: RecordId, _: &Replicated<BA64>| ShardIndex::from(table[usize::from(c.shard_id())][usize::from(rid)]);
                    reshard_try_stream(ctx, input, picker).await.map(|v| (v, vec![])).map_err(|e| format!("{e:?}"))
                }
                "stream" => {
                    // `reshard_stream` wants an `ExactSizeStream`: the wrapper the code base itself uses for streams of known length
                    let input = crate::helpers::stream::FixedLength::new(Stalled { inner: Box::pin(stream::iter(shard_input)), yielded: 0, stalls, next: 0 }, len);
                    let picker = move |c: C, rid: RecordId, _: &Replicated<BA64>| ShardIndex::from(table[usize::from(c.shard_id())][usize::from(rid)]);
                    reshard_stream(ctx, input, picker).await.map(|v| (v, vec![])).map_err(|e| format!("{e:?}"))
                }
                f => panic!("harness: unknown function {f}"),
            }
        })
        .await;
        match res {
            Ok(r) => r,
            Err(_) => Err("~".to_string()),
        }
    }

    fn show_vals(v: Vec<BA64>) -> String {
        nat_list(&v.into_iter().map(|x| x.as_u128()).collect::<Vec<_>>())
    }

    async fn run_n<const N: usize>(mode: String, case: Case) -> String {
        let input: Vec<BA64> = case
            .dests
            .iter()
            .enumerate()
            .flat_map(|(s, l)| (0..l.len()).map(move |k| BA64::truncate_from((s * 1000 + k) as u128)))
            .collect();
        set_sizes(case.dests.iter().map(Vec::len).collect());
        let faulty = case.errs.iter().any(Option::is_some) || case.hints.iter().any(|h| *h < 0);
        let window = Duration::from_secs(if faulty { 3 } else { 15 });
        let world: TestWorld<WithShards<N, BySizes>> = TestWorld::with_shards(TestWorldConfig::default().with_timeout_secs(60));
        let aad = case.func == "aad";
        let case = Arc::new(case);
        let r: Vec<[Out; 3]> = if mode == "mal" {
            world.malicious(input.into_iter(), |ctx, shard_input: Vec<Replicated<BA64>>| shard_call(ctx, shard_input, Arc::clone(&case), window)).await
        } else {
            world.semi_honest(input.into_iter(), |ctx, shard_input: Vec<Replicated<BA64>>| shard_call(ctx, shard_input, Arc::clone(&case), window)).await
        };
        let mut out = Vec::new();
        for shard in r {
            let oks = shard.iter().filter(|x| x.is_ok()).count();
            if oks == 3 {
                let [a, b, c] = shard.map(Result::unwrap);
                if a.0.len() != b.0.len() || b.0.len() != c.0.len() || a.1 != b.1 || b.1 != c.1 {
                    out.push("mixed".to_string());
                    continue;
                }
                let tags = a.1.clone();
                let kept: Vec<BA64> = [a.0, b.0, c.0].reconstruct();
                out.push(if aad { format!("{};{}", show_vals(kept), show_vals(tags)) } else { show_vals(kept) });
            } else if oks == 0 {
                let waiting = shard.iter().filter(|x| matches!(x, Err(e) if e == "~")).count();
                out.push(match waiting { 0 => "!", 3 => "~", _ => "mixed" }.into());
            } else {
                out.push("mixed".into());
            }
        }
        out.join("/")
    }

    pub fn exec(req: &str) -> String {
        let t: Vec<&str> = req.split(' ').collect();
        assert_eq!(t[0], "c19.stall");
        let func = t[1].to_string();
        let mode = t[2].to_string();
        let n: usize = t[3].parse().unwrap();
        let dests = parse_lists(t[4]);
        assert_eq!(dests.len(), n);
        let hints: Vec<i64> = if t[5] == "-" { vec![] } else { t[5].split(',').map(|x| x.parse().unwrap()).collect() };
        let errs: Vec<Option<usize>> = if t[6] == "-" { vec![] } else { t[6].split(',').map(|x| x.parse().ok()).collect() };
        let stalls = parse_stalls(t[7]);
        assert!(stalls.len() == n || t[7] == "-", "harness: one stall list per shard");
        let case = Case { func, dests, hints, errs, stalls };
        run_isolated(move || async move {
            match n {
                1 => run_n::<1>(mode, case).await,
                2 => run_n::<2>(mode, case).await,
                3 => run_n::<3>(mode, case).await,
                4 => run_n::<4>(mode, case).await,
                5 => run_n::<5>(mode, case).await,
                _ => panic!("harness: unsupported shard count {n}"),
            }
        })
    }

    fn show_stalls(st: &[Vec<String>]) -> String {
        st.iter().map(|l| if l.is_empty() { "-".to_string() } else { l.join(",") }).collect::<Vec<_>>().join("/")
    }

    /// a stall pattern for streams of the given item counts
    fn gen_stalls(rng: &mut Rng, items: &[usize], kind: &str) -> Vec<Vec<String>> {
        items
            .iter()
            .enumerate()
            .map(|(s, &len)| match kind {
                "none" => vec![],
                "start" => vec!["0".to_string()],
                "mid" => vec![(len / 2).to_string()],
                "last" => vec![len.saturating_sub(1).to_string()],
                "end" => vec![len.to_string()],
                "every" => (0..=len).map(|i| i.to_string()).collect(),
                "burst" => vec![(len / 2).to_string(); 3],
                "one-shard" => if s == 0 { vec![(len / 2).to_string()] } else { vec![] },
                "one-helper" => vec![format!("{}@{}", len / 2, s % 3)],
                "delayed" => vec![format!("{}d", len / 2), format!("{len}d")],
                _ => {
                    let mut l = vec![];
                    for i in 0..=len {
                        if rng.below(3) == 0 {
                            l.push(match rng.below(6) { 0 => format!("{i}d"), 1 => format!("{i}@{}", rng.below(3)), _ => i.to_string() });
                        }
                    }
                    l
                }
            })
            .collect()
    }

    pub fn generate(rng: &mut Rng, thorough: bool) -> Vec<String> {
        let mut v = Vec::new();
        let funcs = ["aad", "try", "stream"];
        let kinds = ["start", "mid", "last", "end", "every", "burst", "one-shard", "one-helper", "delayed", "rand", "none"];
        // the independent seed's witness shape first: two shards, six records each, one stall midway / at the start / before the end
        for st in ["3/3", "0/0", "6/6", "3/-", "-/3@1"] {
            v.push(format!("c19.stall aad sh 2 0,1,0,1,0,1/0,1,0,1,0,1 - - {st}"));
        }
        // every stall shape x function, small shard counts, all pickers
        let mut i = 0usize;
        for n in 1..=(if thorough { 5usize } else { 3 }) {
            for kind in kinds {
                for func in funcs {
                    if !thorough && func != "aad" && (i % 2 == 1) {
                        i += 1;
                        continue;
                    }
                    let picker = ["rr", "rand", "leave", "one", "stay", "val"][i % 6];
                    let sizes: Vec<usize> = (0..n).map(|s| if (i + s) % 7 == 0 { 0 } else { 1 + rng.usize_below(9) }).collect();
                    let d = gen_dests(rng, n, &sizes, picker, (i % n) as u32);
                    let st = gen_stalls(rng, &sizes, kind);
                    let mode = if i % 4 == 3 { "mal" } else { "sh" };
                    let hints = if func != "stream" && i % 5 == 0 { (0..n).map(|_| rng.below(4).to_string()).collect::<Vec<_>>().join(",") } else { "-".into() };
                    v.push(format!("c19.stall {func} {mode} {n} {} {hints} - {}", show_lists(&d), show_stalls(&st)));
                    i += 1;
                }
            }
        }
        // random: up to 5 shards, up to 40 records
        for i in 0..(if thorough { 1500 } else { 60 }) {
            let n = 1 + rng.usize_below(5);
            let sizes: Vec<usize> = (0..n).map(|_| if rng.below(6) == 0 { 0 } else { rng.usize_below(41) }).collect();
            let picker = *rng.pick(&["one", "rr", "stay", "leave", "rand", "rand", "val"]);
            let target = rng.below(n as u64) as u32;
            let d = gen_dests(rng, n, &sizes, picker, target);
            let st = gen_stalls(rng, &sizes, "rand");
            let func = funcs[if i % 2 == 0 { 0 } else { 1 + (i / 2) % 2 }];
            let mode = if rng.below(4) == 0 { "mal" } else { "sh" };
            v.push(format!("c19.stall {func} {mode} {n} {} - - {}", show_lists(&d), show_stalls(&st)));
        }
        // errors in a stalling stream: on every shard (nobody waits), positions before / between / after the stalls
        for i in 0..(if thorough { 120 } else { 16 }) {
            let n = 1 + rng.usize_below(4);
            let sizes: Vec<usize> = (0..n).map(|_| 1 + rng.usize_below(8)).collect();
            let d = gen_dests(rng, n, &sizes, "rand", 0);
            let func = if i % 3 == 2 { "try" } else { "aad" };
            let errs: Vec<usize> = (0..n).map(|s| rng.usize_below(sizes[s] + 1)).collect();
            // the stream has one more item (the Err) than records
            let items: Vec<usize> = sizes.iter().map(|l| l + 1).collect();
            let st = gen_stalls(rng, &items, ["rand", "every", "start", "mid"][i % 4]);
            if i % 4 == 3 {
                // a stream longer than its hint instead of an Err item
                let hints = (0..n).map(|s| format!("-{}", 1 + rng.usize_below(sizes[s]))).collect::<Vec<_>>().join(",");
                let st = gen_stalls(rng, &sizes, "rand");
                v.push(format!("c19.stall {func} sh {n} {} {hints} - {}", show_lists(&d), show_stalls(&st)));
            } else {
                let errs = errs.iter().map(|e| e.to_string()).collect::<Vec<_>>().join(",");
                v.push(format!("c19.stall {func} sh {n} {} - {errs} {}", show_lists(&d), show_stalls(&st)));
            }
        }
        // an error on ONE shard only, right after a stall (the peers wait: 3 s each)
        for (i, n) in (if thorough { vec![2usize, 3, 3, 4, 5, 2] } else { vec![2usize, 3] }).into_iter().enumerate() {
            let sizes: Vec<usize> = (0..n).map(|_| 2 + rng.usize_below(6)).collect();
            let d = gen_dests(rng, n, &sizes, ["rand", "rr"][i % 2], 0);
            let f = rng.usize_below(n);
            let pos = [sizes[f] / 2, sizes[f]][i % 2];
            let errs = (0..n).map(|s| if s == f { pos.to_string() } else { "x".to_string() }).collect::<Vec<_>>().join(",");
            let st: Vec<Vec<String>> = (0..n).map(|s| if s == f { vec![pos.to_string()] } else { vec![(sizes[s] / 2).to_string()] }).collect();
            v.push(format!("c19.stall {} sh {n} {} - {errs} {}", ["aad", "try"][i % 2], show_lists(&d), show_stalls(&st)));
        }
        v
    }
}

#[test]
fn verif_c19_aad() {
    crate::ipa_verif::proto::run_suite("c19_aad", c19_aad::generate, c19_aad::exec);
}
