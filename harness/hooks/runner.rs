// Suites that need access to items private to this module (feature ipa-verif, test builds only).
//
// ---------------------------------------------------------------------------------------------
// C11 — duplicate detection through the real sharded input path: `reshard_aad` (private module
// `reshard_tag`) with the picker used by `Query::execute`, then `UniqueTagValidator` on what each
// shard owns.  `include!`d as `crate::query::runner::ipa_verif_hook`.
//
//   c11.path <n> <tags of shard 0>/<tags of shard 1>/…     (decimal u128 tags, `-` = none)
//        -> per shard `ok` | `dup:<counter>`, `/`-separated (identical on the three helpers,
//           otherwise `mixed`)
// ---------------------------------------------------------------------------------------------
pub mod c11_path {
    use std::sync::Arc;

    use futures::stream;

    use super::super::reshard_tag::reshard_aad;
    use crate::{
        error::Error,
        ff::boolean_array::BA8,
        ipa_verif::{c11::tag_of, proto::*},
        protocol::context::ShardedContext,
        report::hybrid::{UniqueTag, UniqueTagValidator},
        secret_sharing::replicated::semi_honest::AdditiveShare as Replicated,
        sharding::ShardConfiguration,
        test_fixture::{Runner, TestWorld, TestWorldConfig, WithShards},
    };

    async fn run_n<const N: usize>(tags: Vec<Vec<u128>>) -> String {
        let world: TestWorld<WithShards<N>> = TestWorld::with_shards(TestWorldConfig::default());
        let tags = Arc::new(tags);
        let r: Vec<[String; 3]> = world
            .semi_honest(Vec::<BA8>::new().into_iter(), |ctx, _input: Vec<Replicated<BA8>>| {
                let tags = Arc::clone(&tags);
                async move {
                    let me = usize::from(ctx.shard_id());
                    let mine: Vec<Result<(u32, UniqueTag), Error>> = tags[me]
                        .iter()
                        .enumerate()
                        .map(|(i, t)| Ok((u32::try_from(i).unwrap(), tag_of(*t))))
                        .collect();
                    let n_mine = mine.len();
                    // exactly the call made by query/runner/hybrid.rs: Query::execute
                    let res = reshard_aad(ctx, stream::iter(mine), |ctx, _, tag: &UniqueTag| {
                        tag.shard_picker(ctx.shard_count())
                    })
                    .await;
                    match res {
                        Err(e) => format!("err:{}", canon(&format!("{e:?}"))),
                        Ok((data, resharded_tags)) => {
                            // the reports themselves stay where they were submitted
                            assert_eq!(data, (0..u32::try_from(n_mine).unwrap()).collect::<Vec<_>>());
                            let mut v = UniqueTagValidator::new(resharded_tags.len());
                            match v.check_duplicates(&resharded_tags) {
                                Ok(()) => "ok".to_string(),
                                Err(Error::DuplicateBytes(k)) => format!("dup:{k}"),
                                Err(e) => format!("err:{}", canon(&format!("{e:?}"))),
                            }
                        }
                    }
                }
            })
            .await;
        r.into_iter()
            .map(|[a, b, c]| if a == b && b == c { a } else { "mixed".to_string() })
            .collect::<Vec<_>>()
            .join("/")
    }

    pub fn exec(req: &str) -> String {
        let t: Vec<&str> = req.split(' ').collect();
        assert_eq!(t[0], "c11.path");
        let n: usize = t[1].parse().unwrap();
        let tags: Vec<Vec<u128>> = t[2].split('/').map(|l| parse_nat_list::<u128>(l)).collect();
        assert_eq!(tags.len(), n);
        block_on_timeout(20, async move {
            match n {
                1 => run_n::<1>(tags).await,
                2 => run_n::<2>(tags).await,
                3 => run_n::<3>(tags).await,
                4 => run_n::<4>(tags).await,
                5 => run_n::<5>(tags).await,
                _ => panic!("harness: unsupported shard count {n}"),
            }
        })
        .unwrap_or_else(|e| e)
    }

    fn show(tags: &[Vec<u128>]) -> String {
        tags.iter().map(|l| nat_list(l)).collect::<Vec<_>>().join("/")
    }

    pub fn generate(rng: &mut Rng, thorough: bool) -> Vec<String> {
        let mut v = Vec::new();
        for n in 1..=5usize {
            // no reports at all; one report; the same report twice on one shard; on two shards
            v.push(format!("c11.path {n} {}", show(&vec![vec![]; n])));
            let mut one = vec![vec![]; n];
            one[n - 1].push(u128::MAX);
            v.push(format!("c11.path {n} {}", show(&one)));
            // a duplicate pair at every (source shard a, source shard b) with distinct filler around it
            for a in 0..n {
                for b in a..n {
                    for dup_tag in [0u128, (n as u128) - 1, n as u128, u128::MAX, (1u128 << 64) + 3] {
                        let mut t: Vec<Vec<u128>> = (0..n).map(|s| (0..3 + s as u128).map(|k| 1000 + 100 * s as u128 + k).collect()).collect();
                        let pa = rng.usize_below(t[a].len() + 1);
                        t[a].insert(pa, dup_tag);
                        let pb = rng.usize_below(t[b].len() + 1);
                        t[b].insert(pb, dup_tag);
                        v.push(format!("c11.path {n} {}", show(&t)));
                    }
                }
            }
            // pairwise distinct inputs of various sizes, including tags that differ only in high bits
            for size in [1usize, 4, 9] {
                let t: Vec<Vec<u128>> = (0..n).map(|s| (0..size).map(|k| ((k as u128) << 64) + (s as u128) * 7919 + (k as u128)).collect()).collect();
                v.push(format!("c11.path {n} {}", show(&t)));
            }
        }
        for _ in 0..(if thorough { 1500 } else { 150 }) {
            let n = 1 + rng.usize_below(5);
            let dom = 1 + rng.below(60);
            let wide = rng.bool();
            let t: Vec<Vec<u128>> = (0..n)
                .map(|_| {
                    let len = if rng.below(5) == 0 { 0 } else { rng.usize_below(13) };
                    (0..len)
                        .map(|_| if wide && rng.below(4) != 0 { rng.next_u128() } else { u128::from(rng.below(dom)) })
                        .collect()
                })
                .collect();
            v.push(format!("c11.path {n} {}", show(&t)));
        }
        v
    }
}

#[test]
fn verif_c11_path() {
    crate::ipa_verif::proto::run_suite("c11_path", c11_path::generate, c11_path::exec);
}
