// Correspondence suites for property C20 live in harness/hooks/server.rs (they need the private
// router / identity-layer types and the private fields of `IpaHttpServer` in `crate::net::server`):
//   verif_c20_http  (module c20)       routers and identity layers in-process
//   verif_c20_live  (module c20_live)  real servers through IpaHttpServer::start_on, real TLS/HTTP
