// Correspondence suite for property C20 lives in harness/hooks/server.rs (it needs the private
// router / identity-layer types of `crate::net::server`): verif_c20_http.
