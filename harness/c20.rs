// Correspondence suites for property C20. Each suite is a #[test] fn named verif_c20_<suite>.
