#!/bin/bash
# usage: tools/merge_agent.sh <tag>   — merge branch agent-<tag> into main, resolving the shared files mechanically
set -e
cd /verif
t=$1
git add -A; git commit -qm "wip before merge" >/dev/null 2>&1 || true
git merge --no-commit --no-ff agent-$t >/dev/null 2>&1 || true
# union-resolve known_findings.jsonl
if git status --short | grep -q "^UU known_findings.jsonl\|^AA known_findings.jsonl"; then
  git show :2:known_findings.jsonl > /tmp/kf_ours; git show :3:known_findings.jsonl > /tmp/kf_theirs
  python3 - <<'P'
seen=set(); out=[]
for f in ('/tmp/kf_ours','/tmp/kf_theirs'):
    for l in open(f):
        if l.strip() and l not in seen:
            seen.add(l); out.append(l)
open('/verif/known_findings.jsonl','w').writelines(out)
P
  git add known_findings.jsonl
fi
if git status --short | grep -q "^UU DESIGN.md"; then python3 /verif/tools/keepboth.py DESIGN.md; git add DESIGN.md; fi
for f in MANIFEST.json props/not_applicable.json; do
  if git status --short | grep -q "^\(UU\|AA\) $f"; then git checkout --ours $f; git add $f; fi
done
for f in $(git status --short | grep "^\(UU\|AA\) \(evidence\|seeded\)/" | awk '{print $2}'); do git checkout --theirs $f; git add $f; done
git status --short | grep "^\(UU\|AA\|DU\|UD\)" && { echo "UNRESOLVED CONFLICTS (merge aborted)"; git merge --abort; exit 1; }
python3 tools/mkmanifest.py
git add -A
git commit -q -m "merge agent-$t"
echo merged $t
