#!/usr/bin/env python3
"""Regenerates MANIFEST.json from props/*.json (claimed properties) and props/not_applicable.json."""
import json, os, subprocess
V = os.path.dirname(os.path.dirname(os.path.abspath(__file__)))
checks = []
claimed = set()
for fn in sorted(os.listdir(os.path.join(V, "props"))):
    if not fn.startswith("C") or not fn.endswith(".json"):
        continue
    c = json.load(open(os.path.join(V, "props", fn)))
    if not c.get("claimed", True):
        continue
    pid = c["id"]
    claimed.add(pid)
    m = c.get("manifest", {})
    full = [t["name"].split(".")[-1] for t in c.get("theorems", []) if t.get("status", "full") == "full"]
    part = [t["name"].split(".")[-1] for t in c.get("theorems", []) if t.get("status") == "partial"]
    text = m.get("text", "") + f" Theorems registered: {len(full)} full" + (f", {len(part)} partial ({', '.join(part)})" if part else "") + f"; correspondence suites: {', '.join(c.get('suites', [])) or 'none'}."
    checks.append({
        "property_id": pid,
        "quick_cmd": f"./check {pid} --tier quick",
        "thorough_cmd": f"./check {pid} --tier thorough",
        "evidence_file": f"evidence/{pid}.json",
        "replay_cmd_template": f"./check {pid} --replay {{path}}",
        "engine": "lean4+translator+harness",
        "level_claimed": {"category": "proof", "text": text.strip(), "design_ref": m.get("design_ref", "DESIGN.md §5 " + pid)},
        "level_note": m.get("note", "") or "; ".join(c.get("assumptions", [])) or "see DESIGN.md §3",
        "technique": m.get("technique", "Lean 4 theorems about an executable model + source translator + differential correspondence with the real code"),
    })
na = json.load(open(os.path.join(V, "props", "not_applicable.json")))
na = [x for x in na if x["property_id"] not in claimed]
hooks_commits = subprocess.run(["git", "-C", "/repo", "log", "--format=%h %s"], capture_output=True, text=True).stdout.strip().split("\n")
hook_c = [l.split(" ")[0] for l in hooks_commits if "verif hooks" in l]
man = {
    "version": 1,
    "setup_cmd": "./check --setup",
    "hooks": {
        "guard": "cargo feature ipa-verif of ipa-core (test builds only)",
        "enable": "IPA_VERIF_DIR=/verif/harness cargo test -p ipa-core --lib --features ipa-verif  (done by ./check)",
        "baseline_off_cmd": "cd /repo && cargo nextest run --workspace --no-fail-fast --test-threads 8 --offline",
        "source_commits": hook_c,
        "add_only": True,
    },
    "engines": [
        {"name": "lean4", "path": "lean/", "serves_properties": sorted(claimed), "kind_free_text": "Lean 4.33 project: executable models (IpaVerif/Model), generated constants (IpaVerif/Generated), property theorems (IpaVerif/Props), line-protocol driver (Driver.lean)"},
        {"name": "translator", "path": "tools/extract.py", "serves_properties": sorted(claimed), "kind_free_text": "regenerates Lean constants/tables from /repo sources on every run"},
        {"name": "harness", "path": "harness/", "serves_properties": sorted(claimed), "kind_free_text": "Rust correspondence suites include!d into ipa-core's unit-test binary under feature ipa-verif"},
    ],
    "checks": checks,
    "not_applicable": na,
    "notes": "Every check is ./check Cxx: translator -> lake build of the property's theorems (+ #print axioms audit) -> harness run on /repo's working tree -> Lean driver diff + spec-side oracle -> evidence/Cxx.json. fix: commits in /repo are listed in known_findings.jsonl as fixed entries.",
}
json.dump(man, open(os.path.join(V, "MANIFEST.json"), "w"), indent=1)
print("claimed:", sorted(claimed), "not_applicable:", [x["property_id"] for x in na])
