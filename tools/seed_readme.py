#!/usr/bin/env python3
"""Regenerate seeded/README.md from seeded/*/meta.json (fields: property, summary, needs, detection{checked_with,verdict,how})."""
import json, glob, os, re
root = os.path.join(os.path.dirname(os.path.abspath(__file__)), "..", "seeded")
rows = []
for d in sorted(glob.glob(os.path.join(root, "*", "meta.json"))):
    name = os.path.basename(os.path.dirname(d)); m = json.load(open(d)); det = m.get("detection", {})
    cl = lambda s, n: re.sub(r"\s+", " ", str(s)).replace("|", "/")[:n]
    rows.append(f"| {name} | {m.get('property','')} | {cl(m.get('summary',''),160)} | {cl(m.get('needs',''),120)} | {cl(det.get('checked_with','-'),40)} | {cl(det.get('verdict','not tried yet'),80)}: {cl(det.get('how',''),260)} |")
old = open(os.path.join(root, "README.md")).read()
head = old.split("| seed |")[0]
tail = ""
m = re.search(r"\n(Rejected \(not kept\).*)", old, re.S)
if m: tail = "\n" + m.group(1)
missed = [r.split("|")[1].strip() for r in rows if "MISSED so far" in r]
with open(os.path.join(root, "README.md"), "w") as f:
    f.write(head + "| seed | property | change | needs to manifest | check run | result |\n|---|---|---|---|---|---|\n" + "\n".join(rows) + "\n" + tail)
print(len(rows), "seeds; currently missed:", missed)
