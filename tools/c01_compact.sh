#!/bin/bash
# C01 under the compact step table ("either implementation of step identifiers").
#
# Builds ipa-core's unit-test binary with
#   --no-default-features --features "compact-gate web-app in-memory-infra stall-detection ipa-verif"
# in a SEPARATE target directory (.cache/target-compact) with the C01-only harness root
# harness/c01_compact/ (other properties' suites use descriptive-gate-only step narrowing and do not
# compile under compact gates), runs the suites c01_stages and c01_e2e (real aggregate_reports,
# breakdown_reveal_aggregation and hybrid_protocol under TestWorld, world gate fixed to
# ProtocolStep::Hybrid) and compares every trace line with the Lean driver (model response and
# spec-side oracle), exactly as ./check does for the default (descriptive-gate) build.
#
# usage: VERIF_REPO=/repo tools/c01_compact.sh [quick|thorough]      exit 0 = all cases agree
set -u
VERIF="$(cd "$(dirname "$0")/.." && pwd)"
REPO="${VERIF_REPO:-/repo}"
TIER="${1:-quick}"
OUT="$VERIF/run/C01-compact"
DRIVER="$VERIF/lean/.lake/build/bin/driver"
rm -rf "$OUT"; mkdir -p "$OUT"
export CARGO_NET_OFFLINE=true CARGO_TARGET_DIR="$VERIF/.cache/target-compact" IPA_VERIF_DIR="$VERIF/harness/c01_compact" \
       CARGO_PROFILE_DEV_DEBUG=0 CARGO_PROFILE_TEST_DEBUG=0 CARGO_TERM_COLOR=never RUST_BACKTRACE=0 \
       VERIF_OUT="$OUT" VERIF_TIER="$TIER" VERIF_SEED="${VERIF_SEED:-1}"
( cd "$REPO" && cargo test --offline -p ipa-core --lib --no-default-features \
    --features "compact-gate web-app in-memory-infra stall-detection ipa-verif" verif_c01_ -- --test-threads 8 ) > "$OUT/cargo.log" 2>&1
rc=$?
if [ $rc -ne 0 ]; then echo "c01-compact: cargo test failed (rc=$rc), see $OUT/cargo.log"; tail -5 "$OUT/cargo.log"; exit 2; fi
[ -x "$DRIVER" ] || { echo "c01-compact: driver not built (run ./check --setup)"; exit 2; }
python3 - "$OUT" "$DRIVER" <<'PY'
import subprocess, sys, glob, os
out, driver = sys.argv[1], sys.argv[2]
cases = []
for f in sorted(glob.glob(os.path.join(out, "*.trace"))):
    for l in open(f).read().splitlines():
        if "\t" in l:
            req, impl = l.split("\t", 1)
            cases.append((os.path.basename(f)[:-6], req, impl))
if not cases:
    print("c01-compact: no trace produced"); sys.exit(2)
lines = []
for _, req, impl in cases:
    lines.append(req); lines.append("oracle " + req + "\t" + impl)
r = subprocess.run([driver], input="\n".join(lines) + "\n", stdout=subprocess.PIPE, text=True).stdout.split("\n")
bad = known = 0
for i, (suite, req, impl) in enumerate(cases):
    model, verdict = r[2 * i], r[2 * i + 1]
    hang = model == "hang" and (impl == "timeout" or impl.startswith("panic:timed out"))
    if hang:
        known += 1          # known finding F8 (same witness as in the descriptive-gate build)
    elif model != impl or verdict.startswith("fails"):
        bad += 1
        print(f"c01-compact: DISAGREE suite={suite} req={req[:160]} impl={impl[:80]} model={model[:80]} oracle={verdict[:80]}")
print(f"c01-compact: {len(cases)} cases, {bad} disagreement(s), {known} known-finding F8 case(s)")
sys.exit(1 if bad else 0)
PY
