#!/bin/bash
# usage: tools/try_seed.sh <seed name> <property> [tier]  — apply seeded/<name>/patch.diff to /repo, run ./check, undo.
name=$1; prop=$2; tier=${3:-quick}
cd /verif
git -C /repo diff --quiet || { echo "/repo working tree is dirty"; exit 2; }
git -C /repo apply /verif/seeded/$name/patch.diff || exit 2
./check $prop --tier $tier > /tmp/try_$name.log 2>&1; rc=$?
git -C /repo checkout -- .
git -C /repo status --short | head -3
grep -E "VIOLATION|failing input|no longer shown|KNOWN-FINDING|obligations" /tmp/try_$name.log | cut -c1-400
mkdir -p /verif/seeded/$name; cp /verif/run/$prop/replay-0.json /verif/seeded/$name/detected_replay.json 2>/dev/null
echo "check exit=$rc"
# restore evidence of the unchanged tree later by re-running ./check
