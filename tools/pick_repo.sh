#!/bin/bash
# usage: tools/pick_repo.sh <tag>  — cherry-pick new commits of /repo branch agent-<tag> onto /repo main,
# rewriting the commit hashes recorded in /verif/known_findings.jsonl
set -e
t=$1
cd /repo
base=$(git merge-base main agent-$t)
for c in $(git rev-list --reverse $base..agent-$t); do
  subj=$(git log -1 --format=%s $c)
  # skip commits whose patch is already on main (same subject)
  if git log main --format=%s | grep -qxF "$subj"; then echo "skip (already on main): $subj"; continue; fi
  git cherry-pick $c >/dev/null 2>&1 || { echo "CONFLICT cherry-picking $c ($subj)"; git status --short | head; exit 1; }
  new=$(git rev-parse --short HEAD); old=$(git rev-parse --short $c)
  sed -i "s/$old/$new/g" /verif/known_findings.jsonl
  echo "picked $old -> $new: $subj"
done
