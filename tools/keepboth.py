import sys
p=sys.argv[1]
out=[];state=None
for line in open(p).read().split('\n'):
    if line.startswith('<<<<<<< '): state='ours'; continue
    if line.startswith('=======') and state=='ours': state='theirs'; continue
    if line.startswith('>>>>>>> ') and state=='theirs': state=None; continue
    out.append(line)
open(p,'w').write('\n'.join(out))
