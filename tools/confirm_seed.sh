#!/bin/bash
# usage: tools/confirm_seed.sh <ID> [<name>]
# Confirms a seeded breaking change produced by an independent sub-agent in /tmp/mut/<ID>/out:
#   1. demo passes on the unchanged tree, 2. demo fails with the patch, 3. the workspace compiles and the existing
#   suite (ipa-core lib + other workspace crates) passes with the patch (demo excluded).
# On success copies patch.diff, demo.diff, meta.json (+ confirm log) to /verif/seeded/<name>/.
set -u
id=$1; name=${2:-$1}
src=${3:-/tmp/mut}/$id/out
wt=/tmp/confirm/$name/repo
export CARGO_TARGET_DIR=/tmp/confirm/target CARGO_NET_OFFLINE=true CARGO_PROFILE_DEV_DEBUG=0 CARGO_PROFILE_TEST_DEBUG=0
mkdir -p /tmp/confirm/$name
log=/tmp/confirm/$name/confirm.log; : > $log
git -C /repo worktree remove --force $wt >/dev/null 2>&1
git -C /repo worktree add -q --detach $wt main || exit 2
cd $wt
demo_cmd=$(python3 -c "import json;print(json.load(open('$src/meta.json'))['demo_cmd'])")
# normalise the demo command: run it in this worktree with our target dir
demo_cmd=$(echo "$demo_cmd" | sed -E "s#CARGO_TARGET_DIR=[^ ]+ ##g; s#cd [^ ;&]+ *(&&|;) *##g; s#  +\\(.*\$##")
echo "demo_cmd: $demo_cmd" | tee -a $log
git apply $src/demo.diff || { echo "demo.diff does not apply" | tee -a $log; exit 2; }
echo "== 1. demo on unchanged tree" | tee -a $log
( eval "$demo_cmd" ) >> $log 2>&1; r1=$?
echo "   exit=$r1 (expected 0)" | tee -a $log
git apply $src/patch.diff || { echo "patch.diff does not apply" | tee -a $log; exit 2; }
echo "== 2. demo with the change" | tee -a $log
( eval "$demo_cmd" ) >> $log 2>&1; r2=$?
echo "   exit=$r2 (expected != 0)" | tee -a $log
echo "== 3. existing suite with the change (demo removed)" | tee -a $log
git apply -R $src/demo.diff
cargo test --workspace --no-fail-fast --offline > /tmp/confirm/$name/suite.log 2>&1; r3=$?
grep -E "^test result|FAILED|failed|error(\[|:)" /tmp/confirm/$name/suite.log | sort | uniq -c >> $log
echo "   suite exit=$r3 (expected 0)" | tee -a $log
tail -15 $log
ok=0
if [ $r1 -eq 0 ] && [ $r2 -ne 0 ] && [ $r3 -eq 0 ]; then ok=1; fi
echo "confirmed=$ok" | tee -a $log
if [ $ok -eq 1 ]; then
  mkdir -p /verif/seeded/$name
  cp $src/patch.diff $src/demo.diff /verif/seeded/$name/
  python3 - <<P
import json
m=json.load(open('$src/meta.json'))
m['confirmed']={'demo_passes_unchanged':True,'demo_fails_with_change':True,'existing_suite_passes_with_change':True,'confirm_log_tail':open('$log').read()[-1500:]}
json.dump(m,open('/verif/seeded/$name/meta.json','w'),indent=1)
P
fi
cd /; git -C /repo worktree remove --force $wt
exit $((1-ok))
