#!/bin/bash
# Frees disk: in every agent/main cargo target dir keep only the newest ipa_core test binary and drop stale incremental sessions.
for d in /work/*/verif/.cache/target /verif/.cache/target /tmp/mut/*/target; do
  [ -d "$d/debug/deps" ] || continue
  ls -t $d/debug/deps/ipa_core-* 2>/dev/null | grep -v '\.d$\|\.rmeta$\|\.rlib$' | tail -n +2 | xargs -r rm -f
  for inc in $d/debug/incremental/ipa_core-*; do
    [ -d "$inc" ] || continue
    ls -td $inc/s-* 2>/dev/null | tail -n +2 | xargs -r rm -rf
  done
  ls -td $d/debug/incremental/ipa_core-* 2>/dev/null | tail -n +3 | xargs -r rm -rf
done
df -h / | tail -1
