#!/usr/bin/env python3
"""Translator: re-reads constants and finite tables from /repo's *current* sources and regenerates
lean/IpaVerif/Generated/*.lean.  Every item records file, line, raw text and parsed value in
run/extract.json.  A missing or ambiguous item is reported as a broken obligation
`translator:<item>` (exit status 3 and an "errors" list in extract.json).

Generated files are rewritten only when their content changes, so `lake build` re-checks the
theorems that depend on a constant exactly when the constant changed.
"""
import json, os, re, sys

REPO = os.environ.get("VERIF_REPO", "/repo")
VERIF = os.path.dirname(os.path.dirname(os.path.abspath(__file__)))
GEN = os.path.join(VERIF, "lean", "IpaVerif", "Generated")
SRC = os.path.join(REPO, "ipa-core", "src")

items = {}
errors = []


def read(rel):
    with open(os.path.join(SRC, rel)) as f:
        return f.read()


def lineno(text, pos):
    return text.count("\n", 0, pos) + 1


def record(name, rel, text, m, value):
    items[name] = {"file": "ipa-core/src/" + rel, "line": lineno(text, m.start()), "raw": m.group(0)[:300], "value": value}


def fail(name, why):
    errors.append({"item": name, "why": why})


def rust_int(s):
    s = s.strip().replace("_", "")
    s = re.sub(r"(u8|u16|u32|u64|u128|usize)$", "", s)
    if s.startswith("0b"):
        return int(s[2:], 2)
    if s.startswith("0x"):
        return int(s[2:], 16)
    return int(s)


UBITS = {"u8": 8, "u16": 16, "u32": 32, "u64": 64, "u128": 128}


def write_if_changed(path, content):
    old = None
    if os.path.exists(path):
        with open(path) as f:
            old = f.read()
    if old != content:
        with open(path, "w") as f:
            f.write(content)
        return True
    return False


def load_plugins():
    """Every tools/extractors/*.py defines extract() -> {generated file name: content}."""
    import importlib.util
    d = os.path.join(VERIF, "tools", "extractors")
    out = []
    for fn in sorted(os.listdir(d)):
        if fn.endswith(".py") and not fn.startswith("_"):
            spec = importlib.util.spec_from_file_location("extractors_" + fn[:-3], os.path.join(d, fn))
            mod = importlib.util.module_from_spec(spec)
            try:
                spec.loader.exec_module(mod)
                out.append((fn[:-3], mod.extract))
            except Exception as e:
                fail("plugin." + fn[:-3], f"{type(e).__name__}: {e}")
    return out




def main():
    os.makedirs(GEN, exist_ok=True)
    changed = []
    for name, ex in load_plugins():
        try:
            files = ex()
        except Exception as e:  # a source file vanished or no longer parses
            fail("plugin." + name, f"{type(e).__name__}: {e}")
            continue
        for fn, content in files.items():
            if write_if_changed(os.path.join(GEN, fn), content):
                changed.append(fn)
    run = os.path.join(VERIF, "run")
    os.makedirs(run, exist_ok=True)
    with open(os.path.join(run, "extract.json"), "w") as f:
        json.dump({"items": items, "errors": errors, "changed": changed}, f, indent=1, sort_keys=True)
    for e in errors:
        print(f"translator: BROKEN item={e['item']}: {e['why']}")
    print(f"translator: {len(items)} items, {len(errors)} errors, rewrote {changed}")
    return 3 if errors else 0


if __name__ == "__main__":
    sys.modules["extract"] = sys.modules["__main__"]
    sys.exit(main())
