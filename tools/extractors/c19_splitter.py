"""Translator plugin (C19, b15): `reshard_aad` and its `StreamSplitter` (ipa-core/src/query/runner/reshard_tag.rs).

`Model/Reshard.lean: splitterPoll` transcribes `StreamSplitter::poll_next` arm by arm: the `Pending` answer of the
inner stream is handed on by `ready!` WITHOUT touching any state, `Ok((k, a))` pushes `k` and yields `a`, `Err` and
the end are handed on. The theorems `stalls_invisible` / `aad_exact` are about that function; the items below
make the check notice when the body, the state (struct fields) or the way `reshard_aad` wires the splitter
change (seed C19c added a `done` field that the `Pending` answer also set)."""
import re
from extract import read, record, fail

REL = "query/runner/reshard_tag.rs"


def norm(body):
    body = re.sub(r"//[^\n]*", "", body)
    return re.sub(r"\s+", " ", body).strip()


def block_after(text, m):
    i = text.index("{", m.end() - 1)
    depth, j = 0, i
    while j < len(text):
        if text[j] == "{":
            depth += 1
        elif text[j] == "}":
            depth -= 1
            if depth == 0:
                break
        j += 1
    return text[i + 1:j]


WANT = {
    "reshard.splitter.poll_next": (
        r"impl<S: Stream<Item = Result<\(K, A\), Error>>, K, A> Stream for StreamSplitter<'_, S, K, A> \{[^}]*?fn poll_next\(self: Pin<&mut Self>, cx: &mut Context<'_>\) -> Poll<Option<Self::Item>> \{",
        """let this = self.project();
        match ready!(this.inner.poll_next(cx)) {
            Some(Ok((k, a))) => { this.buf.push(k); Poll::Ready(Some(Ok(a))) }
            Some(Err(e)) => Poll::Ready(Some(Err(e))),
            None => Poll::Ready(None),
        }"""),
    "reshard.splitter.size_hint": (
        r"None => Poll::Ready\(None\),\s*\}\s*\}\s*fn size_hint\(&self\) -> \(usize, Option<usize>\) \{",
        "self.inner.size_hint()"),
    "reshard.splitter.state": (
        r"struct StreamSplitter<'a, S: Stream<Item = DataWithTag<K, A>>, K, A> \{",
        "#[pin] inner: S, buf: &'a mut Vec<K>,"),
    "reshard.aad.body": (
        r"pub async fn reshard_aad<L, K, A, C, S>\([^)]*\) -> Result<\(Vec<K>, Vec<A>\), crate::error::Error>\s*where[^{]*\{",
        """let mut k_buf = Vec::with_capacity(input.size_hint().1.unwrap_or(0));
        let splitter = StreamSplitter { inner: input, buf: &mut k_buf, };
        let a_buf = reshard_try_stream(ctx, splitter, shard_picker).await?;
        Ok((k_buf, a_buf))"""),
}


def extract():
    raw = read(REL)
    # only the code before the unit tests
    code = raw.split("#[cfg(all(test, unit_test))]")[0]
    for name, (sig, want) in WANT.items():
        m = re.search(sig, code, re.S)
        if not m:
            fail(name, f"item not found in {REL} (the Lean model `splitterPoll` / `aadOutcome` transcribes it)")
            continue
        got = norm(block_after(code, m))
        record(name, REL, raw, m, got[:200])
        if got != norm(want):
            fail(name, f"changed: now `{got[:300]}`; the Lean model mirrors `{norm(want)[:300]}`")
    # exactly one Stream impl with one poll_next in the file: nothing else sits between the input and the resharding
    n = len(re.findall(r"fn poll_next\(", code))
    m = re.search(r"fn poll_next\(", code)
    if n == 1:
        record("reshard.splitter.single_adapter", REL, raw, m, 1)
    else:
        fail("reshard.splitter.single_adapter", f"{n} poll_next implementations in {REL}; the model has exactly one adapter between input and resharding")
    return {}
