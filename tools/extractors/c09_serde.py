"""Translator plugin (C09): which bit-array / Galois-field instances exist, their bit sizes, storage
sizes and which arm (fallible / infallible) of impl_serializable_trait! they use; the checks each
deserializer performs; the widths StdArray is serializable at."""
import re
from extract import read, record, fail

TYPENUM = re.compile(r"U(\d+)$")


def extract():
    ba_rel, gf_rel = "ff/boolean_array.rs", "ff/galois_field.rs"
    ba, gf = read(ba_rel), read(gf_rel)
    types = []  # (name, bits, bytes, fallible)

    # storage aliases and Block sizes
    block = {}  # number of storage bytes -> Block::Size
    alias = {}
    for m in re.finditer(r"type (U8_\d+) = BitArr!\(for (\d+), in u8, Lsb0\);", gf):
        alias[m.group(1)] = (int(m.group(2)) + 7) // 8
    for m in re.finditer(r"impl Block for (U8_\d+) \{\s*type Size = U(\d+);\s*\}", gf):
        if m.group(1) in alias:
            block[alias[m.group(1)]] = int(m.group(2))
            record("serde.block." + m.group(1), gf_rel, gf, m, {"bytes": alias[m.group(1)], "size": int(m.group(2))})
    for m in re.finditer(r"^store_impl!\(U(\d+), (\d+)\);", ba, re.M):
        block[(int(m.group(2)) + 7) // 8] = int(m.group(1))
        record("serde.block.store_" + m.group(2), ba_rel, ba, m, {"bytes": (int(m.group(2)) + 7) // 8, "size": int(m.group(1))})
    if not re.search(r"type Store = BitArr!\(for \$bits, in u8, Lsb0\);", ba):
        fail("serde.bits.store", "boolean_array_impl!: `type Store = BitArr!(for $bits, in u8, Lsb0)` not found")

    def add(name, bits, nbytes, kind, rel, text, m):
        if kind not in ("fallible", "infallible"):
            fail("serde.bits." + name, f"unknown deserialization kind {kind}")
            return
        if block.get(nbytes) != nbytes:
            fail("serde.bits." + name, f"Block::Size of the {nbytes}-byte store is {block.get(nbytes)}")
        v = {"bits": bits, "bytes": nbytes, "fallible": kind == "fallible"}
        record("serde.bits." + name, rel, text, m, v)
        types.append((name, bits, nbytes, kind == "fallible"))

    for m in re.finditer(r"^boolean_array_impl_small!\(\s*\w+,\s*(\w+),\s*(\d+),\s*(\w+)\s*\);", ba, re.M):
        add(m.group(1), int(m.group(2)), (int(m.group(2)) + 7) // 8, m.group(3), ba_rel, ba, m)
    for m in re.finditer(r"^boolean_array_impl_large!\(\s*\w+,\s*(\w+),\s*(\d+),\s*(\w+),\s*U(\d+),\s*U\d+\s*\);", ba, re.M):
        nb = (int(m.group(2)) + 7) // 8
        if int(m.group(4)) != nb:
            fail("serde.bits." + m.group(1), "byte length typenum differs from ceil(bits/8)")
        add(m.group(1), int(m.group(2)), nb, m.group(3), ba_rel, ba, m)
    for m in re.finditer(r"^bit_array_impl!\(\s*\w+,\s*(\w+),\s*(U8_\d+),\s*(\d+),\s*bitarr!\([^)]*\),\s*(?://[^\n]*\n\s*)*[\w_]+,\s*(\w+),", gf, re.M):
        name, store, bits, kind = m.group(1), m.group(2), int(m.group(3)), m.group(4)
        if store not in alias:
            fail("serde.bits." + name, f"unknown store {store}")
            continue
        add(name, bits, alias[store], kind, gf_rel, gf, m)
    want = ["BA3", "BA4", "BA5", "BA6", "BA7", "BA8", "BA16", "BA20", "BA32", "BA64", "BA96", "BA112", "BA144", "BA256",
            "Gf2", "Gf3Bit", "Gf8Bit", "Gf9Bit", "Gf20Bit", "Gf32Bit", "Gf40Bit"]
    have = {t[0] for t in types}
    for w in want:
        if w not in have:
            fail("serde.bits." + w, "macro invocation not found")

    # the checks the decoders perform
    def need(item, rel, text, pat, flags=0):
        m = re.search(pat, text, flags)
        if m:
            record(item, rel, text, m, True)
        else:
            fail(item, "expected source pattern not found: " + pat[:80])

    need("serde.check.padding", ba_rel, ba,
         r"\(\$name: ident, \$bits: tt, \$store: ty, fallible\) => \{.*?let raw_val = <\$store>::new\(assert_copy\(\*buf\)\.into\(\)\);.*?if raw_val\[\$bits\.\.\]\.not_any\(\) \{\s*Ok\(Self\(raw_val\)\)\s*\} else \{\s*Err\(NonZeroPadding\(", re.S)
    need("serde.check.infallible", ba_rel, ba,
         r"\(\$name: ident, \$bits: tt, \$store: ty, infallible\) => \{.*?const_assert_eq!\(\s*\$bits % 8,\s*0,.*?Ok\(Self\(<\$store>::new\(assert_copy\(\*buf\)\.into\(\)\)\)\)", re.S)
    need("serde.check.raw_bytes", ba_rel, ba, r"buf\.copy_from_slice\(self\.0\.as_raw_slice\(\)\);")
    b_rel = "ff/boolean.rs"
    b = read(b_rel)
    need("serde.check.boolean", b_rel, b,
         r"buf\[0\] = u8::from\(self\.0\);.*?if buf\[0\] > 1 \{\s*return Err\(ParseBooleanError\(buf\[0\]\)\);\s*\}\s*Ok\(Boolean\(buf\[0\] != 0\)\)", re.S)
    p_rel = "ff/prime_field.rs"
    p = read(p_rel)
    need("serde.check.prime", p_rel, p,
         r"buf\.copy_from_slice\(&self\.0\.to_le_bytes\(\)\);.*?let v = <\$backend_store>::from_le_bytes\(\(\*buf\)\.into\(\)\);\s*if v < Self::PRIME \{\s*Ok\(Self\(v\)\)\s*\} else \{\s*Err\(GreaterThanPrimeError", re.S)
    e_rel = "ff/ec_prime_field.rs"
    e = read(e_rel)
    need("serde.check.fp25519_reduces", e_rel, e,
         r"\*buf\.as_mut\(\) = self\.0\.to_bytes\(\);.*?Ok\(Fp25519\(Scalar::from_bytes_mod_order\(\(\*buf\)\.into\(\)\)\)\)", re.S)
    c_rel = "ff/curve_points.rs"
    c = read(c_rel)
    need("serde.check.rp25519", c_rel, c,
         r"\*buf\.as_mut\(\) = self\.0\.as_point\(\)\.compress\(\)\.to_bytes\(\);.*?let point = CompressedRistretto\(\(\*buf\)\.into\(\)\);\s*let point = point\.decompress\(\)\.ok_or\(NonCanonicalEncoding\(point\)\)\?;", re.S)
    s_rel = "secret_sharing/replicated/semi_honest/additive_share.rs"
    s = read(s_rel)
    need("serde.layout.share", s_rel, s,
         r"let \(left, right\) = buf\.split_at_mut\(V::Size::USIZE\);\s*self\.left\(\)\.serialize\(GenericArray::from_mut_slice\(left\)\);\s*self\.right\(\)\.serialize\(GenericArray::from_mut_slice\(right\)\);.*?let left = V::deserialize\(GenericArray::from_slice\(&buf\[\.\.V::Size::USIZE\]\)\)\?;\s*let right = V::deserialize\(GenericArray::from_slice\(&buf\[V::Size::USIZE\.\.\]\)\)\?;", re.S)
    a_rel = "secret_sharing/vector/array.rs"
    a = read(a_rel)
    need("serde.layout.array", a_rel, a,
         r"for i in 0\.\.\$width \{\s*self\.0\[i\]\.serialize\(\s*GenericArray::try_from_mut_slice\(&mut buf\[sz \* i\.\.sz \* \(i \+ 1\)\]\)\.unwrap\(\),.*?for i in 0\.\.\$width \{\s*res\[i\] = V::deserialize\(GenericArray::from_slice\(&buf\[sz \* i\.\.sz \* \(i \+ 1\)\]\)\)\?;", re.S)
    widths = []
    if re.search(r"impl<V: SharedValue> Serializable for StdArray<V, 1>", a):
        widths.append(1)
    for m in re.finditer(r"^impl_serializable!\((\d+), U(\d+)\);", a, re.M):
        if m.group(1) != m.group(2):
            fail("serde.array_width." + m.group(1), "width and typenum differ")
        widths.append(int(m.group(1)))
        record("serde.array_width." + m.group(1), a_rel, a, m, int(m.group(1)))
    if not widths:
        fail("serde.array_width", "no StdArray Serializable impl found")

    lines = [
        "import IpaVerif.Model.Serde",
        "/-! GENERATED by tools/extract.py (plugin c09_serde) from ff/boolean_array.rs, ff/galois_field.rs,",
        "secret_sharing/vector/array.rs — do not edit. -/",
        "namespace IpaVerif.Generated",
        "open IpaVerif.Serde",
        "",
        "def bitTypes : List BitTy := [",
    ]
    lines.append(",\n".join(
        f'  {{ name := "{n}", bits := {b_}, bytes := {by}, fallible := {"true" if f else "false"} }}' for n, b_, by, f in types))
    lines.append("]")
    lines.append("")
    lines.append("def arrWidths : List Nat := [" + ", ".join(str(w) for w in widths) + "]")
    lines.append("")
    lines.append("end IpaVerif.Generated")
    return {"C09Serde.lean": "\n".join(lines) + "\n"}
