"""Translator plugin: binary-field parameters (C08) from ipa-core/src/ff/galois_field.rs.

For every `bit_array_impl!` invocation: name, BITS, ONE, POLYNOMIAL (checked against the `// x^k + …`
comment above it), store width and the (in)fallible deserialisation flavour.  For every extracted
polynomial the plugin additionally searches, in Python, either

  * a *generator-order certificate*: an element g with g^(2^k-1) = 1 and g^((2^k-1)/q) != 1 for every
    prime q | 2^k-1 (then the 2^k-1 powers of g are all the non-zero elements, so the ring is a field);
    the certificate is emitted into Generated/BinaryFields.lean and *checked by the Lean kernel*, or
  * if the polynomial is reducible: a non-trivial factorisation P = f*h, i.e. the zero divisor pair
    (f, h) — the replay witness; the item `gf.irreducible.<Name>` is reported broken.
"""
import re
from extract import read, record, fail, rust_int

NAMES = ("Gf2", "Gf3Bit", "Gf8Bit", "Gf9Bit", "Gf20Bit", "Gf32Bit", "Gf40Bit")
LNAME = {"Gf2": "gf2", "Gf3Bit": "gf3", "Gf8Bit": "gf8", "Gf9Bit": "gf9", "Gf20Bit": "gf20", "Gf32Bit": "gf32", "Gf40Bit": "gf40"}


# ------------------------------------------------------------------ GF(2)[x] arithmetic on Python ints
def pdeg(a):
    return a.bit_length() - 1


def pmul(a, b):
    r = 0
    while b:
        if b & 1:
            r ^= a
        a <<= 1
        b >>= 1
    return r


def pdivmod(a, m):
    q, dm = 0, pdeg(m)
    while a and pdeg(a) >= dm:
        s = pdeg(a) - dm
        q ^= 1 << s
        a ^= m << s
    return q, a


def pmod(a, m):
    return pdivmod(a, m)[1]


def pgcd(a, b):
    while b:
        a, b = b, pmod(a, b)
    return a


def mulmod(a, b, m):
    return pmod(pmul(a, b), m)


def powmod(a, e, m):
    r = 1
    while e:
        if e & 1:
            r = mulmod(r, a, m)
        a = mulmod(a, a, m)
        e >>= 1
    return r


def find_factor(p):
    """A non-trivial factor of the GF(2)[x] polynomial p, or None when p is irreducible."""
    k = pdeg(p)
    if k <= 1:
        return None
    # x^(2^i) - x collects all irreducibles of degree | i
    x2i = 2  # x
    for i in range(1, k // 2 + 1):
        x2i = mulmod(x2i, x2i, p)
        g = pgcd(p, x2i ^ 2)
        if g != 1:
            if g == p:
                # p is a product of irreducibles of degree | i: split by trial division (small degree)
                for f in range(2, 1 << (i + 1)):
                    if pdeg(f) >= 1 and pmod(p, f) == 0 and f != p:
                        return f
                return None
            return g
    return None


def prime_factors(n):
    """[(prime, exponent)] of n."""
    out, d = [], 2
    while d * d <= n:
        if n % d == 0:
            e = 0
            while n % d == 0:
                n //= d
                e += 1
            out.append((d, e))
        d += 1 if d == 2 else 2
    if n > 1:
        out.append((n, 1))
    return out


def find_generator(p, k, primes):
    n = (1 << k) - 1
    for g in range(1, min(1 << k, 4096)):
        if g == 1 and n != 1:
            continue
        if powmod(g, n, p) == 1 and all(powmod(g, n // q, p) != 1 for q, _ in primes):
            return g
    return None


def lean_pairs(ps):
    return "[" + ", ".join(f"({q}, {e})" for q, e in ps) + "]"


def parse_comment_poly(s):
    """`x^40 + x^5 + x^3 + x^2 + 1` -> integer bit pattern."""
    v = 0
    for term in s.split("+"):
        term = term.strip()
        if term == "1":
            v ^= 1
        elif term == "x":
            v ^= 2
        else:
            m = re.fullmatch(r"x\^(\d+)", term)
            if not m:
                return None
            v ^= 1 << int(m.group(1))
    return v


def extract():
    rel = "ff/galois_field.rs"
    t = read(rel)
    # store types: `type U8_3 = BitArr!(for 24, in u8, Lsb0);`
    stores = {}
    for m in re.finditer(r"type (U8_\d+) = BitArr!\(for (\d+), in u8, Lsb0\);", t):
        stores[m.group(1)] = (int(m.group(2)) + 7) // 8
        record("gf.store." + m.group(1), rel, t, m, stores[m.group(1)])
    fields = {}
    pat = re.compile(
        r"bit_array_impl!\(\s*(\w+),\s*(\w+),\s*(\w+),\s*(\d+),\s*bitarr!\(const u8, Lsb0;\s*([01, ]+)\),\s*"
        r"//\s*([^\n]*)\n\s*(0b[01_]+)_u128,\s*(fallible|infallible),")
    for m in pat.finditer(t):
        mod, name, store, bits, one, comment, poly, flavour = m.groups()
        bits = int(bits)
        poly_v = rust_int(poly)
        one_bits = [int(b) for b in one.replace(" ", "").split(",") if b != ""]
        one_v = sum(b << i for i, b in enumerate(one_bits))
        f = dict(bits=bits, poly=poly_v, one=one_v, store_bytes=stores.get(store), fallible=(flavour == "fallible"), comment=comment.strip())
        fields[name] = f
        record("gf." + name, rel, t, m, f)
        if f["store_bytes"] is None:
            fail("gf." + name, f"unknown store type {store}")
        if len(one_bits) != bits or one_v != 1:
            fail("gf." + name, f"ONE is not the {bits}-bit pattern 1")
        if pdeg(poly_v) != bits:
            fail("gf." + name, f"POLYNOMIAL has degree {pdeg(poly_v)}, expected {bits}")
        cv = parse_comment_poly(comment)
        if cv is not None and cv != poly_v:
            fail("gf." + name, f"POLYNOMIAL {bin(poly_v)} does not match its comment `{comment.strip()}`")
        if (bits % 8 == 0) != (flavour == "infallible"):
            fail("gf." + name, "deserialisation flavour does not match BITS % 8")
    for want in NAMES:
        if want not in fields:
            fail("gf." + want, "bit_array_impl! invocation not found")
    # the shape of Mul (the reduction loop) — the model transcribes exactly this text
    m = re.search(r"let mut product = clmul\(self, rhs\);\s*for i in \(0\.\.\(Self::BITS - 1\)\)\.into_iter\(\)\.rev\(\) \{\s*"
                  r"let b = product >> \(Self::BITS \+ i\);\s*product \^= \(<Self as GaloisField>::POLYNOMIAL \* b\) << i;\s*\}\s*"
                  r"Self::try_from\(product\)\.unwrap\(\)", t)
    if m:
        record("gf.mul_shape", rel, t, m, "clmul; for i in (0..BITS-1).rev() { b = product >> (BITS+i); product ^= (POLYNOMIAL*b) << i }; try_from(product).unwrap()")
    else:
        fail("gf.mul_shape", "the body of `Mul` in bit_array_impl! no longer has the modelled shape")
    m = re.search(r"for i in 0\.\.GF::BITS \{\s*let bit = u128::from\(\(b >> i\) & 1\);\s*product \^= bit \* \(a << i\);\s*\}", t)
    if m:
        record("gf.clmul_shape", rel, t, m, "for i in 0..BITS { product ^= ((b >> i) & 1) * (a << i) }")
    else:
        fail("gf.clmul_shape", "the portable clmul loop no longer has the modelled shape")

    lines = [
        "import IpaVerif.Model.Gf2k",
        "/-! GENERATED by tools/extract.py from ipa-core/src/ff/galois_field.rs — do not edit. -/",
        "namespace IpaVerif.Generated",
        "open IpaVerif.Gf2k",
        "",
    ]
    present = [n for n in NAMES if n in fields and fields[n]["store_bytes"] is not None]
    certs = []
    for name in present:
        f = fields[name]
        lines.append(
            f'def {LNAME[name]} : Params := {{ name := "{name}", bits := {f["bits"]}, poly := {f["poly"]}, '
            f'storeBytes := {f["store_bytes"]}, fallible := {"true" if f["fallible"] else "false"} }}')
    lines.append("")
    lines.append("def binaryFields : List Params := [" + ", ".join(LNAME[n] for n in present) + "]")
    lines.append("")
    for name in present:
        f = fields[name]
        k, p = f["bits"], f["poly"]
        if pdeg(p) != k:
            continue
        n = (1 << k) - 1
        primes = prime_factors(n) if n > 1 else []
        factor = find_factor(p)
        if factor is not None:
            q, r = pdivmod(p, factor)
            assert r == 0
            record_value = {"irreducible": False, "factor": factor, "cofactor": q}
            items_name = "gf.irreducible." + name
            # record without a regex match object: reuse the field's own location
            from extract import items
            items[items_name] = dict(items["gf." + name], value=record_value)
            fail(items_name, f"POLYNOMIAL of {name} is reducible: {bin(p)} = {bin(factor)} * {bin(q)}; "
                             f"zero divisor: {name}::truncate_from({factor}) * {name}::truncate_from({q}) = 0")
            lines.append(f"def {LNAME[name]}Cert : Cert := {{ field := {LNAME[name]}, gen := 0, orderFactors := {lean_pairs(primes)}, zeroDivisor := some ({factor}, {q}) }}")
        else:
            g = find_generator(p, k, primes)
            from extract import items
            items["gf.irreducible." + name] = dict(items["gf." + name], value={"irreducible": True, "generator": g, "order_factors": primes})
            if g is None:
                fail("gf.irreducible." + name, "no generator found among the first 4096 elements")
                g = 0
            lines.append(f"def {LNAME[name]}Cert : Cert := {{ field := {LNAME[name]}, gen := {g}, orderFactors := {lean_pairs(primes)}, zeroDivisor := none }}")
        certs.append(LNAME[name] + "Cert")
    lines.append("")
    lines.append("def binaryFieldCerts : List Cert := [" + ", ".join(certs) + "]")
    lines.append("")
    lines.append("end IpaVerif.Generated")
    return {"BinaryFields.lean": "\n".join(lines) + "\n"}
