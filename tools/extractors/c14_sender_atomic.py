"""Translator plugin for the atomic-level model of C14 (Model/OrderingSenderAtomic.lean).

Two kinds of items, all from ipa-core/src/helpers/buffers/ordering_sender.rs:

* generated definitions (Generated/SenderAtomic.lean): the right-hand side of the assignment
  `self.woken_at = …;` in `WaitingShard::wake` and the rejection condition `if … { Err(())?; }` of
  `WaitingShard::add` are *translated* (tiny expression grammar) into the Lean functions
  `wokenAtAfterWake` / `addRejects`.  The atomic model's `wake`/`add` use these functions and the
  theorems `woken_at_monotone`, `shard_wake_matches_source`, `shard_add_matches_source` are proved
  about them, so replacing `max(self.woken_at, i)` by `i` regenerates a function for which those
  proofs no longer go through;
* statement-sequence items `buffers.atomic.*`: the order of the shared-state accesses inside
  `OrderingSender::next_op`, `Send::poll`, `Close::poll`, `OrderingSender::take_next`,
  `Waiting::{shard,add,wake}` (the labelled transitions of the atomic model are transcribed from
  exactly this order), their memory orderings, and the number of call sites of `waiting.wake`,
  `next.fetch_add`, `next.load` in the non-test part of the file.
"""
import re
from extract import read, record, fail

REL = "helpers/buffers/ordering_sender.rs"


def norm(body):
    body = re.sub(r"//[^\n]*", "", body)
    return re.sub(r"\s+", " ", body).strip()


def fn_body(text, sig_regex, start=0):
    m = re.compile(sig_regex).search(text, start)
    if not m:
        return None, None
    i = text.index("{", m.end() - 1)
    depth, j = 0, i
    while j < len(text):
        if text[j] == "{":
            depth += 1
        elif text[j] == "}":
            depth -= 1
            if depth == 0:
                break
        j += 1
    return m, text[i + 1:j]


# ---- a tiny expression translator (Rust usize expression -> Lean Nat expression) ---------------
class Untranslatable(Exception):
    pass


def tokenize(s):
    toks = re.findall(r"std::cmp::max|std::cmp::min|cmp::max|cmp::min|self\.woken_at|[A-Za-z_][A-Za-z_0-9]*|\d+|<=|>=|==|!=|[()<>,+.\-*]", s)
    if "".join(toks) != re.sub(r"\s+", "", s):
        raise Untranslatable(f"unexpected characters in `{s}`")
    return toks


class P:
    def __init__(self, toks, names):
        self.t, self.i, self.names = toks, 0, names

    def peek(self):
        return self.t[self.i] if self.i < len(self.t) else None

    def eat(self, x=None):
        tok = self.peek()
        if tok is None or (x is not None and tok != x):
            raise Untranslatable(f"expected `{x}` at token {self.i} ({tok})")
        self.i += 1
        return tok

    def atom(self):
        tok = self.eat()
        if tok in ("std::cmp::max", "cmp::max", "std::cmp::min", "cmp::min"):
            f = "max" if tok.endswith("max") else "min"
            self.eat("(")
            a = self.sum()
            self.eat(",")
            b = self.sum()
            self.eat(")")
            e = f"({f} {a} {b})"
        elif tok == "(":
            e = self.sum()
            self.eat(")")
            e = f"({e})"
        elif tok in self.names:
            e = self.names[tok]
        elif tok.isdigit():
            e = tok
        else:
            raise Untranslatable(f"unknown operand `{tok}`")
        while self.peek() == ".":
            self.eat(".")
            meth = self.eat()
            if meth not in ("max", "min"):
                raise Untranslatable(f"unknown method `{meth}`")
            self.eat("(")
            b = self.sum()
            self.eat(")")
            e = f"({meth} {e} {b})"
        return e

    def sum(self):
        e = self.atom()
        while self.peek() in ("+", "-", "*"):
            op = self.eat()
            e = f"({e} {op} {self.atom()})"
        return e

    def cond(self):
        a = self.sum()
        op = self.eat()
        if op not in ("<", "<=", ">", ">=", "==", "!="):
            raise Untranslatable(f"unknown comparison `{op}`")
        b = self.sum()
        lean = {"<": "<", "<=": "≤", ">": ">", ">=": "≥", "==": "=", "!=": "≠"}[op]
        return f"{a} {lean} {b}"


def translate(expr, names, cond=False):
    p = P(tokenize(expr), names)
    e = p.cond() if cond else p.sum()
    if p.peek() is not None:
        raise Untranslatable(f"trailing tokens in `{expr}`")
    return e


def in_order(prefix, rel, body, marks):
    """Every regex of `marks` occurs in `body`, each after the previous one."""
    pos = 0
    ok = True
    for name, pat in marks:
        item = f"{prefix}.{name}"
        m = re.compile(pat, re.S).search(body, pos)
        if not m:
            if re.search(pat, body, re.S):
                fail(item, "statement is no longer at its modelled place in the sequence (re-ordered)")
            else:
                fail(item, f"statement not found: {pat[:100]}")
            ok = False
            continue
        record(item, rel, body, m, "present, in order")
        pos = m.end()
    return ok


WHOLE = {
    "next_op": (r"fn next_op<F>\(&self, i: usize, cx: &Context<'_>, f: F\) -> Poll<\(\)>\s*where\s*F: FnOnce\(&mut MutexGuard<'_, State>\) -> Poll<\(\)>,\s*\{",
                "loop { let curr = self.next.load(Acquire); match curr.cmp(&i) { Ordering::Greater => { panic!(\"attempt to write/close at index {i} twice\"); } Ordering::Equal => { let res = f(&mut self.state.lock().unwrap()); if res.is_ready() { let curr = self.next.fetch_add(1, AcqRel); debug_assert_eq!(i, curr, \"we just checked this\"); } break res; } Ordering::Less => { if self.waiting.add(curr, i, cx.waker()).is_ok() { break Poll::Pending; } } } }"),
    "take_next": (r"pub fn take_next\(&self, cx: &Context<'_>\) -> Poll<Option<Vec<u8>>> \{",
                  "let mut b = self.state.lock().unwrap(); if let Poll::Ready(v) = b.take(cx) { let next = self.next.load(Acquire); tracing::trace!( closed = b.is_closed(), next = next, len = v.len(), \"take_next ready\" ); self.waiting.wake(next); Poll::Ready(Some(v)) } else if b.is_closed() { Poll::Ready(None) } else { Poll::Pending }"),
    "waiting_shard": (r"fn shard\(&self, i: usize\) -> MutexGuard<'_, WaitingShard> \{",
                      "let idx = (i >> Self::CONTIGUOUS_BITS) % Self::SHARDS; self.shards[idx].lock().unwrap()"),
    "waiting_add": (r"fn add\(&self, current: usize, i: usize, w: &Waker\) -> Result<\(\), \(\)> \{",
                    "self.shard(i).add(current, i, w)"),
    "waiting_wake": (r"fn wake\(&self, i: usize\) \{(?=\s*self\.shard)", "self.shard(i).wake(i);"),
    "save_waker": (r"fn save_waker\(v: &mut Option<Waker>, cx: &Context<'_>\) \{",
                   "if let Some(waker) = v { waker.clone_from(cx.waker()); } else { v.replace(cx.waker().clone()); }"),
    "state_wake": (r"fn wake\(v: &mut Option<Waker>\) \{", "if let Some(w) = v.take() { w.wake(); }"),
}


def extract():
    t = read(REL)
    # the test module is not part of the model
    cut = re.search(r"#\[cfg\(all\(test, any\(unit_test, feature = \"shuttle\"\)\)\)\]\s*mod test \{", t)
    code = t[:cut.start()] if cut else t
    # the test-only single-access accessors added for the replay suite (repo commit "verif hooks: …
    # accessors on OrderingSender") are not part of the modelled code, but what each of them does
    # is pinned: the replay suite is only as good as "one accessor = one access"
    acc = re.search(r"#\[cfg\(all\(test, feature = \"ipa-verif\"\)\)\]\s*impl OrderingSender \{", code)
    if acc:
        _, acc_body = fn_body(code, r"#\[cfg\(all\(test, feature = \"ipa-verif\"\)\)\]\s*impl OrderingSender \{")
        end = code.index(acc_body, acc.end() - 1) + len(acc_body) + 1
        ab = norm(acc_body)
        want_acc = [
            ("next_load", "pub(super) fn verif_next_load(&self) -> usize { self.next.load(Acquire) }"),
            ("next_fetch_add", "pub(super) fn verif_next_fetch_add(&self) -> usize { self.next.fetch_add(1, AcqRel) }"),
            ("waiting_add", "pub(super) fn verif_waiting_add(&self, curr: usize, i: usize, w: &Waker) -> bool { self.waiting.add(curr, i, w).is_ok() }"),
            ("waiting_wake", "pub(super) fn verif_waiting_wake(&self, i: usize) { self.waiting.wake(i); }"),
            ("state_write", "pub(super) fn verif_state_write<M: Message>(&self, m: &M, cx: &Context<'_>) -> Poll<()> { let b = &mut self.state.lock().unwrap(); assert!(!b.is_closed(), \"writing on a closed stream\"); b.write(m, cx) }"),
            ("state_close", "pub(super) fn verif_state_close(&self) { self.state.lock().unwrap().close(); }"),
            ("state_take", "pub(super) fn verif_state_take(&self, cx: &Context<'_>) -> (Poll<Vec<u8>>, bool) { let mut b = self.state.lock().unwrap(); let r = b.take(cx); (r, b.is_closed()) }"),
        ]
        for nm, want in want_acc:
            item = "buffers.atomic.accessor." + nm
            if want in re.sub(r"///[^\n]*", "", ab) or want in ab:
                record(item, REL, code, acc, "one access, as modelled")
            else:
                fail(item, f"accessor verif_{nm} no longer performs exactly the modelled access: expected `{want}`")
        code = code[:acc.start()] + code[end:]
    else:
        fail("buffers.atomic.accessor", "the test-only accessor block `#[cfg(all(test, feature = \"ipa-verif\"))] impl OrderingSender` is missing (repo commit `verif hooks: … accessors on OrderingSender`)")
    code_nc = re.sub(r"//[^\n]*", "", code)

    # ---- generated: woken_at update and add rejection --------------------------------------------
    gen = {"wokenAtAfterWake": None, "addRejects": None}
    m, body = fn_body(code, r"fn wake\(&mut self, i: usize\) \{")
    if m is None:
        fail("buffers.atomic.gen.woken_at_update", "WaitingShard::wake not found")
    else:
        b = norm(body)
        asg = re.findall(r"self\.woken_at\s*=\s*([^;=][^;]*);", b)
        if len(asg) != 1 or not b.startswith("self.woken_at ="):
            fail("buffers.atomic.gen.woken_at_update", f"expected exactly one assignment `self.woken_at = …;` as the first statement of WaitingShard::wake, found {asg}")
        else:
            try:
                gen["wokenAtAfterWake"] = translate(asg[0], {"self.woken_at": "wokenAt", "i": "i"})
                record("buffers.atomic.gen.woken_at_update", REL, code, m, f"self.woken_at = {asg[0]}  =>  {gen['wokenAtAfterWake']}")
            except Untranslatable as e:
                fail("buffers.atomic.gen.woken_at_update", f"cannot translate `{asg[0]}`: {e}")
    m, body = fn_body(code, r"fn add\(&mut self, current: usize, i: usize, w: &Waker\) -> Result<\(\), \(\)> \{")
    if m is None:
        fail("buffers.atomic.gen.add_rejects", "WaitingShard::add not found")
    else:
        b = norm(body)
        mm = re.match(r"if (.*?) \{ Err\(\(\)\)\?; \}", b)
        if not mm or b.count("Err(") != 1:
            fail("buffers.atomic.gen.add_rejects", "WaitingShard::add no longer starts with `if <cond> { Err(())?; }` (or has another error exit)")
        else:
            try:
                gen["addRejects"] = translate(mm.group(1), {"self.woken_at": "wokenAt", "i": "i", "current": "current"}, cond=True)
                record("buffers.atomic.gen.add_rejects", REL, code, m, f"if {mm.group(1)}  =>  {gen['addRejects']}")
            except Untranslatable as e:
                fail("buffers.atomic.gen.add_rejects", f"cannot translate `{mm.group(1)}`: {e}")
        if re.search(r"self\.woken_at\s*=[^=]", b):
            fail("buffers.atomic.gen.add_rejects", "WaitingShard::add assigns woken_at (the model's add leaves it unchanged)")

    # ---- whole bodies the atomic transitions are transcribed from ----------------------------------
    for name, (sig, want) in WHOLE.items():
        item = f"buffers.atomic.body.{name}"
        m, body = fn_body(code, sig)
        if m is None:
            fail(item, f"function not found in {REL}")
            continue
        got = norm(body)
        record(item, REL, code, m, got[:200])
        if got != norm(want):
            fail(item, f"body changed: now `{got[:300]}`; the atomic model transcribes `{norm(want)[:300]}`")

    # ---- statement sequences (finer diagnosis: which access moved) ---------------------------------
    m, body = fn_body(code, r"fn next_op<F>\(&self, i: usize, cx: &Context<'_>, f: F\) -> Poll<\(\)>")
    if m is None:
        fail("buffers.atomic.next_op", "next_op not found")
    else:
        in_order("buffers.atomic.next_op", REL, re.sub(r"//[^\n]*", "", body), [
            ("1_loop", r"loop \{"),
            ("2_load_acquire", r"let curr = self\.next\.load\(Acquire\);"),
            ("3_compare", r"match curr\.cmp\(&i\) \{"),
            ("4_greater_panics", r"Ordering::Greater => \{\s*panic!\("),
            ("5_equal_critical_section", r"Ordering::Equal => \{\s*let res = f\(&mut self\.state\.lock\(\)\.unwrap\(\)\);"),
            ("6_ready_then_fetch_add", r"if res\.is_ready\(\) \{\s*let curr = self\.next\.fetch_add\(1, AcqRel\);"),
            ("7_debug_assert", r"debug_assert_eq!\(i, curr"),
            ("8_break_res", r"break res;"),
            ("9_less_add", r"Ordering::Less => \{\s*if self\.waiting\.add\(curr, i, cx\.waker\(\)\)\.is_ok\(\) \{\s*break Poll::Pending;"),
        ])
    m, body = fn_body(code, r"impl<'a, M: Message, B: Borrow<M> \+ 'a> Future for Send<'a, M, B> \{")
    if m is None:
        fail("buffers.atomic.send_poll", "impl Future for Send not found")
    else:
        b = re.sub(r"//[^\n]*", "", body)
        in_order("buffers.atomic.send_poll", REL, b, [
            ("1_next_op", r"let res = this\.sender\.next_op\(this\.i, cx, \|b\| \{"),
            ("2_assert_open", r"assert!\(!b\.is_closed\(\), \"writing on a closed stream\"\);"),
            ("3_write", r"b\.write\(this\.m\.borrow\(\), cx\)\s*\}\);"),
            ("4_ready_then_wake_next", r"if res\.is_ready\(\) \{\s*this\.sender\.waiting\.wake\(this\.i \+ 1\);\s*\}"),
            ("5_return", r"res\s*\}\s*$"),
        ])
    m, body = fn_body(code, r"impl Future for Close<'_> \{")
    if m is None:
        fail("buffers.atomic.close_poll", "impl Future for Close not found")
    else:
        in_order("buffers.atomic.close_poll", REL, re.sub(r"//[^\n]*", "", body), [
            ("1_next_op_close_ready", r"this\.sender\.next_op\(this\.i, cx, \|b\| \{\s*b\.close\(\);\s*Poll::Ready\(\(\)\)\s*\}\)\s*\}\s*$"),
        ])
        if "waiting.wake" in body:
            fail("buffers.atomic.close_poll.no_wake", "Close::poll now wakes a waiter (the model has no such step)")
        else:
            record("buffers.atomic.close_poll.no_wake", REL, code, m, "Close::poll performs no waiting.wake")
    m, body = fn_body(code, r"pub fn take_next\(&self, cx: &Context<'_>\) -> Poll<Option<Vec<u8>>> \{")
    if m is None:
        fail("buffers.atomic.take_next", "take_next not found")
    else:
        in_order("buffers.atomic.take_next", REL, re.sub(r"//[^\n]*", "", body), [
            ("1_lock_state", r"let mut b = self\.state\.lock\(\)\.unwrap\(\);"),
            ("2_take", r"if let Poll::Ready\(v\) = b\.take\(cx\) \{"),
            ("3_load_acquire", r"let next = self\.next\.load\(Acquire\);"),
            ("4_wake_next", r"self\.waiting\.wake\(next\);"),
            ("5_ready_some", r"Poll::Ready\(Some\(v\)\)"),
            ("6_closed_none", r"\} else if b\.is_closed\(\) \{\s*Poll::Ready\(None\)"),
            ("7_pending", r"\} else \{\s*Poll::Pending\s*\}"),
        ])
    # ---- call-site counts and memory orderings ------------------------------------------------------
    for name, pat, want in (
        ("count.waiting_wake_sites", r"\.waiting\.wake\(", 2),
        ("count.waiting_add_sites", r"\.waiting\.add\(", 1),
        ("count.fetch_add_sites", r"self\.next\.fetch_add\(1, AcqRel\)", 1),
        ("count.next_load_acquire_sites", r"self\.next\.load\(Acquire\)", 2),
        ("count.next_store_sites", r"self\.next\.(store|swap|compare_exchange|fetch_sub|fetch_max)\(", 0),
        ("count.woken_at_assignments", r"woken_at\s*=[^=]", 1),
        ("count.state_lock_sites", r"self\.state\.lock\(\)\.unwrap\(\)", 3),  # is_closed, next_op, take_next (+ stall-detection `waiting`, cfg'd)
    ):
        n = len(re.findall(pat, code_nc))
        item = "buffers.atomic." + name
        if name == "count.state_lock_sites":
            # the stall-detection accessor locks `state` through a local binding `let state = self.state.lock()`
            n = len(re.findall(r"self\.state\.lock\(\)\.unwrap\(\)", re.sub(r"#\[cfg\(feature = \"stall-detection\"\)\]\s*pub fn waiting\(&self\).*?\n    \}\n", "", code_nc, flags=re.S)))
        mm = re.search(pat, code_nc)
        if n != want:
            fail(item, f"{n} occurrences of /{pat}/ outside the test module, the model has {want}")
        else:
            class _M:  # record() wants a match object
                def start(self): return mm.start() if mm else 0
                def group(self, _): return mm.group(0) if mm else ""
            record(item, REL, code_nc, _M(), n)
    mm = re.search(r"sync::\{\s*Mutex, MutexGuard,\s*atomic::\{\s*AtomicUsize,\s*Ordering::\{AcqRel, Acquire\},\s*\},\s*\},", code)
    if mm:
        record("buffers.atomic.sync_imports", REL, code, mm, "crate::sync::{Mutex, MutexGuard, atomic::{AtomicUsize, Ordering::{AcqRel, Acquire}}}")
    else:
        fail("buffers.atomic.sync_imports", "the synchronisation primitives imported by ordering_sender.rs changed")
    mm = re.search(r"pub struct OrderingSender \{\s*next: AtomicUsize,\s*state: Mutex<State>,\s*waiting: Waiting,\s*\}", code)
    if mm:
        record("buffers.atomic.fields", REL, code, mm, "next: AtomicUsize, state: Mutex<State>, waiting: Waiting")
    else:
        fail("buffers.atomic.fields", "fields of OrderingSender changed")
    mm = re.search(r"struct Waiting \{\s*shards: \[Mutex<WaitingShard>; Self::SHARDS\],\s*\}", code)
    if mm:
        record("buffers.atomic.waiting_fields", REL, code, mm, "shards: [Mutex<WaitingShard>; SHARDS]")
    else:
        fail("buffers.atomic.waiting_fields", "fields of Waiting changed")

    # ---- UnorderedReceiver: one mutex around ALL state, held for the whole poll => a poll is atomic --
    rrel = "helpers/buffers/unordered_receiver.rs"
    rt = read(rrel)
    rcut = re.search(r"#\[cfg\(all\(test, any\(unit_test, feature = \"shuttle\"\)\)\)\]\s*mod test \{", rt)
    rcode = re.sub(r"//[^\n]*", "", rt[:rcut.start()] if rcut else rt)
    for name, pat in (
        ("receiver.state_in_one_mutex", r"pub struct UnorderedReceiver<S, C>\s*where\s*S: Stream<Item = C>,\s*C: AsRef<\[u8\]>,\s*\{\s*inner: Arc<Mutex<OperatingState<S, C>>>,\s*\}"),
        ("receiver.future_shares_it", r"pub struct Receiver<S, C, M>\s*where.*?\{\s*i: usize,\s*shared_state: Arc<Mutex<OperatingState<S, C>>>,\s*_marker: PhantomData<M>,\s*\}"),
        ("receiver.poll_holds_lock", r"fn poll\(self: Pin<&mut Self>, cx: &mut Context<'_>\) -> Poll<Self::Output> \{\s*let this = self\.as_ref\(\);\s*let mut recv = this\.shared_state\.lock\(\)\.unwrap\(\);\s*if recv\.is_next\(this\.i\) \{\s*recv\.poll_next\(cx\)\s*\} else \{\s*recv\.add_waker\(this\.i, cx\.waker\(\)\);\s*Poll::Pending\s*\}\s*\}"),
    ):
        mm = re.search(pat, rcode, re.S)
        if mm:
            record("buffers.atomic." + name, rrel, rcode, mm, "as modelled (poll = one critical section)")
        else:
            fail("buffers.atomic." + name, "UnorderedReceiver no longer keeps all its state behind one mutex held for the whole poll; the poll-level model is no longer the atomic model")
    mm = re.search(r"Atomic[A-Z]\w*|UnsafeCell|RwLock|static mut", rcode)
    if mm:
        fail("buffers.atomic.receiver.no_other_shared_state", f"unordered_receiver.rs now uses `{mm.group(0)}` outside the mutex")
    else:
        class _M0:
            def start(self): return 0
            def group(self, _): return ""
        record("buffers.atomic.receiver.no_other_shared_state", rrel, rcode, _M0(), "no atomics / cells / rwlocks outside the test module")

    lines = ["/-! GENERATED by tools/extract.py (tools/extractors/c14_sender_atomic.py) from",
             "ipa-core/src/helpers/buffers/ordering_sender.rs (`WaitingShard::{wake, add}`) — do not edit. -/",
             "set_option linter.unusedVariables false",
             "namespace IpaVerif.Generated.SenderAtomic", "",
             "/-- value assigned to `self.woken_at` by `WaitingShard::wake(i)` -/",
             f"def wokenAtAfterWake (wokenAt i : Nat) : Nat := {gen['wokenAtAfterWake'] or '0'}", "",
             "/-- the condition under which `WaitingShard::add(current, i, w)` returns `Err(())` -/",
             f"def addRejects (current wokenAt i : Nat) : Bool := decide ({gen['addRejects'] or 'False'})", "",
             "end IpaVerif.Generated.SenderAtomic", ""]
    return {"SenderAtomic.lean": "\n".join(lines)}
