"""Translator plugin for C04 (MAC-checked arithmetic): literal formulas, operand choices, record-id
multipliers and message directions that `Model/Mac.lean` transcribes.

 * `compute_dot_product_contribution` (context/validator.rs): the expression, parsed into a term
 * `accumulate_macs`: which sharing is paired with the random constant for `u` and for `w`
 * `Malicious::validate`: `t = u_share - &(w_share * r)`, parsed into a term; order propagate -> reveal r -> check zero
 * record ids `u_record`/`w_record`/`r_share_record`/`reveal_check_zero_record`, `TOTAL_CALLS_TO_PRSS`, `TOTAL_SEND`
 * `propagate_u_and_w`: send to the right, receive from the left, `Replicated::new(u_left, u_local)`
 * `upgrade` (context/malicious.rs) and `mac_multiply` (basics/mul/malicious.rs): operands of the multiplications
 * `malicious_check_zero`: operands of the multiplication, comparison with ZERO
 * `malicious_reveal`: what is sent to which side, the equality test, the returned sum
 * `eval_dy_prf`: `validate_record` precedes the openings
 * EVERY `impl … Reveal<Ctx> for Sharing` of basics/reveal.rs with the function it delegates to (-> `MacReveal.lean`),
   the module behind every context alias (context/mod.rs), no `Reveal` impl outside basics/reveal.rs
 * the key schedule: `r` is drawn inside the per-batch constructor `Malicious::new` at a PRSS index that depends on the
   batch index the `Batcher` passes, `BatchValidator::new` draws nothing, `validate` opens `r` to all helpers,
   `r_share(record_id)` is the key of the record's batch
"""
import re
from extract import read, record, fail, rust_int


def squash(s):
    return re.sub(r"\s+", "", s)


def expect(name, rel, text, pattern, value=None, flags=re.S):
    m = re.search(pattern, text, flags)
    if not m:
        fail(name, f"pattern not found in {rel}")
        return None
    record(name, rel, text, m, value if value is not None else squash(m.group(0))[:200])
    return m


# ---------------------------------------------------------------- tiny expression parser (+ - * parentheses)
class ParseError(Exception):
    pass


def tokenize(s):
    toks = re.findall(r"[A-Za-z_][A-Za-z_0-9]*|[()+\-*]", s)
    if "".join(toks) != re.sub(r"\s+", "", s):
        raise ParseError("unexpected characters in " + s)
    return toks


def parse_expr(toks, atoms):
    pos = [0]

    def peek():
        return toks[pos[0]] if pos[0] < len(toks) else None

    def take():
        t = peek()
        pos[0] += 1
        return t

    def atom():
        t = take()
        if t == "(":
            e = summ()
            if take() != ")":
                raise ParseError("missing )")
            return e
        if t in atoms:
            return "." + atoms[t]
        raise ParseError(f"unknown atom {t}")

    def prod():
        e = atom()
        while peek() == "*":
            take()
            e = f"(.mul {e} {atom()})"
        return e

    def summ():
        e = prod()
        while peek() in ("+", "-"):
            op = take()
            e = f"(.{'add' if op == '+' else 'sub'} {e} {prod()})"
        return e

    e = summ()
    if pos[0] != len(toks):
        raise ParseError("trailing tokens")
    return e


def rust_to_expr(src, subst, atoms):
    s = src
    for a, b in subst:
        s = s.replace(a, b)
    s = s.replace("&", " ")
    return parse_expr(tokenize(s), atoms)


OPND = {
    "induced_share": "induced", "&induced_share": "induced", "&r": "r", "r": "r",
    "a.x().access_without_downgrade()": "ax", "b_x": "bx", "a.rx()": "arx", "&b_induced_share": "bInduced",
    "&random_constant": "alpha", "input.rx()": "inputRx", "&r_sharing": "czMask", "v": "czValue",
}


def opnd(name, s):
    s = s.strip()
    if s not in OPND:
        fail(name, f"unexpected operand `{s}`")
        return "unknown"
    return OPND[s]


def extract():
    L = []
    # ---------------------------------------------------------------- validator.rs
    rel = "protocol/context/validator.rs"
    t = read(rel)
    dot = "(.v .al)"
    m = expect("c04.dot.formula", rel, t,
               r"fn compute_dot_product_contribution<.*?let vectorized_share = (.*?);\s*vectorized_share\s*\.into_iter\(\)\s*\.fold\(F::ExtendedField::ZERO, \|acc, x\| acc \+ x\)")
    if m:
        try:
            dot = rust_to_expr(m.group(1),
                               [("a.left_arr().clone()", "al"), ("a.right_arr().clone()", "ar"), ("a.left_arr()", "al"),
                                ("a.right_arr()", "ar"), ("b.left_arr().clone()", "bl"), ("b.right_arr().clone()", "br"),
                                ("b.left_arr()", "bl"), ("b.right_arr()", "br")],
                               {"al": "al", "ar": "ar", "bl": "bl", "br": "br"})
            record("c04.dot.formula", rel, t, m, dot)
        except ParseError as e:
            fail("c04.dot.formula", str(e))
    u_args = ("alpha", "inputRx")
    w_args = ("alpha", "induced")
    # how the random coefficient is drawn: an N-lane sharing straight from PRSS (one independent value per lane)
    per_lane = False
    m = expect("c04.acc.coefficient_per_lane", rel, t,
               r"let random_constant = prss\s*\.generate(::<[^;]*?>)?\(record_id\)\s*((?:\.\w+\([^;]*\))*);")
    if m:
        per_lane = (m.group(1) is None) and (m.group(2) == "")
        record("c04.acc.coefficient_per_lane", rel, t, m, per_lane)
    expect("c04.acc.coefficient_type", rel, t,
           r"fn compute_dot_product_contribution<const N: usize>\(\s*a: &Replicated<F::ExtendedField, N>,\s*b: &Replicated<F::ExtendedField, N>,\s*\) -> F::ExtendedField")
    expect("c04.acc.signature", rel, t,
           r"pub fn accumulate_macs<I: SharedRandomness, const N: usize>\(\s*&mut self,\s*prss: &I,\s*record_id: RecordId,\s*input: &MaliciousReplicated<F, N>,\s*\) where\s*F: ExtendableFieldSimd<N>,\s*Replicated<F::ExtendedField, N>: FromPrss,")
    m = expect("c04.acc.contributions", rel, t,
               r"let induced_share = x\.induced\(\);\s*(?://[^\n]*\n\s*)*let random_constant = [^;]*;\s*"
               r"let u_contribution = Self::compute_dot_product_contribution\(([^,]*),([^)]*\)?)\);\s*"
               r"let w_contribution =\s*Self::compute_dot_product_contribution\(([^,]*),([^)]*)\);\s*"
               r"self\.inner\.u \+= u_contribution;\s*self\.inner\.w \+= w_contribution;")
    if m:
        u_args = (opnd("c04.acc.contributions", m.group(1)), opnd("c04.acc.contributions", m.group(2)))
        w_args = (opnd("c04.acc.contributions", m.group(3)), opnd("c04.acc.contributions", m.group(4)))
        record("c04.acc.contributions", rel, t, m, {"u": u_args, "w": w_args})
    expect("c04.acc.input_x", rel, t, r"let x = input\.x\(\)\.access_without_downgrade\(\);")
    tform = "(.v .u)"
    m = expect("c04.validate.t", rel, t, r"let t = ([^;]*);")
    if m:
        try:
            tform = rust_to_expr(m.group(1), [("u_share", "u"), ("w_share", "w")], {"u": "u", "w": "w", "r": "r"})
            record("c04.validate.t", rel, t, m, tform)
        except ParseError as e:
            fail("c04.validate.t", str(e))
    expect("c04.validate.order", rel, t,
           r"let \(u_share, w_share\) = self\.propagate_u_and_w\(\)\.await\?;.*?"
           r"malicious_reveal\(\s*narrow_ctx,\s*Self::reveal_check_zero_record\(self\.offset\),\s*None,\s*&self\.r_share,\s*\).*?"
           r"let t = .*?let is_valid = malicious_check_zero\(\s*check_zero_ctx,\s*Self::reveal_check_zero_record\(self\.offset\),\s*&t,\s*\)\s*\.await\?;\s*"
           r"if is_valid \{.*?Ok\(\(\)\)\s*\} else \{\s*Err\(Error::MaliciousSecurityCheckFailed\)\s*\}")
    consts = {}
    for nm in ("TOTAL_CALLS_TO_PRSS", "TOTAL_SEND"):
        m = expect("c04.rec." + nm, rel, t, r"const " + nm + r": usize = (\d+);")
        consts[nm] = int(m.group(1)) if m else 0
        if m:
            record("c04.rec." + nm, rel, t, m, consts[nm])
    adds = {}
    for fn in ("u_record", "w_record", "r_share_record"):
        m = expect("c04.rec." + fn, rel, t,
                   r"fn " + fn + r"\(offset: usize, total: usize\) -> RecordId \{\s*RecordId::from\(total \* offset(?: \+ (\d+))?\)\s*\}")
        adds[fn] = int(m.group(1) or 0) if m else 0
        if m:
            record("c04.rec." + fn, rel, t, m, adds[fn])
    expect("c04.rec.reveal_check_zero_record", rel, t,
           r"fn reveal_check_zero_record\(offset: usize\) -> RecordId \{\s*RecordId::from\(offset\)\s*\}")
    expect("c04.rec.new_uses", rel, t,
           r"\.generate\(Self::r_share_record\(offset, TOTAL_CALLS_TO_PRSS\)\);.*?"
           r"prss\.zero\(Self::u_record\(offset, TOTAL_CALLS_TO_PRSS\)\);.*?"
           r"prss\.zero\(Self::w_record\(offset, TOTAL_CALLS_TO_PRSS\)\);")
    expect("c04.rec.propagate_uses", rel, t,
           r"Self::u_record\(self\.offset, TOTAL_SEND\),\s*Self::w_record\(self\.offset, TOTAL_SEND\),")
    prop_right = expect("c04.propagate.direction", rel, t,
                        r"let helper_right = propagate_ctx\.send_channel\(propagate_ctx\.role\(\)\.peer\(Direction::Right\)\);\s*"
                        r"let helper_left = propagate_ctx\.recv_channel\(propagate_ctx\.role\(\)\.peer\(Direction::Left\)\);")
    expect("c04.propagate.messages", rel, t,
           r"helper_right\.send\(u_record, u_local\),\s*helper_right\.send\(w_record, w_local\),.*?"
           r"try_join\(helper_left\.receive\(u_record\), helper_left\.receive\(w_record\)\)\.await\?;\s*"
           r"let u_share = Replicated::new\(u_left, u_local\);\s*let w_share = Replicated::new\(w_left, w_local\);")
    expect("c04.batch.records_per_batch", rel, t, r"let records_per_batch = ctx\.active_work\(\)\.get\(\);")

    # ---------------------------------------------------------------- context/malicious.rs : upgrade
    rel = "protocol/context/malicious.rs"
    t = read(rel)
    up_args = ("induced", "r")
    m = expect("c04.upgrade.mul", rel, t,
               r"let induced_share = self\.induced\(\);.*?let r = ctx\.r_share\(record_id\)\.expand\(\);.*?"
               r"let rx = semi_honest_multiply\(ctx\.base_context\(\), record_id, ([^,]*), ([^)]*)\)\.await\?;\s*"
               r"let m = MaliciousReplicated::new\(self, rx\);\s*narrowed\.accumulate_macs\(record_id, &m\);")
    if m:
        up_args = (opnd("c04.upgrade.mul", m.group(1)), opnd("c04.upgrade.mul", m.group(2)))
        record("c04.upgrade.mul", rel, t, m, up_args)

    # ---------------------------------------------------------------- mul/malicious.rs : mac_multiply
    rel = "protocol/basics/mul/malicious.rs"
    t = read(rel)
    main_args, dup_args = ("ax", "bx"), ("arx", "bInduced")
    m = expect("c04.mul.two_multiplications", rel, t,
               r"let b_x = b\.x\(\)\.access_without_downgrade\(\);.*?let b_induced_share = b_x\.induced\(\);\s*"
               r"let \(ab, rab\) = try_join\(\s*semi_honest_multiply\(\s*ctx\.base_context\(\),\s*record_id,\s*([^,]*),\s*([^,]*),\s*\),\s*"
               r"semi_honest_multiply\(\s*duplicate_multiply_ctx\.base_context\(\),\s*record_id,\s*([^,]*),\s*([^,]*),\s*\),\s*\)\s*\.await\?;\s*"
               r"let malicious_ab = MaliciousReplicated::new\(ab, rab\);\s*random_constant_ctx\.accumulate_macs\(record_id, &malicious_ab\);")
    if m:
        main_args = (opnd("c04.mul.two_multiplications", m.group(1)), opnd("c04.mul.two_multiplications", m.group(2)))
        dup_args = (opnd("c04.mul.two_multiplications", m.group(3)), opnd("c04.mul.two_multiplications", m.group(4)))
        record("c04.mul.two_multiplications", rel, t, m, {"main": main_args, "dup": dup_args})

    # ---------------------------------------------------------------- check_zero.rs
    rel = "protocol/basics/check_zero.rs"
    t = read(rel)
    cz_args = ("czMask", "czValue")
    m = expect("c04.check_zero.protocol", rel, t,
               r"let r_sharing: Replicated<F> = ctx\.prss\(\)\.generate\(record_id\);\s*"
               r"let rv_share =\s*semi_honest_multiply\(ctx\.narrow\(&Step::MultiplyWithR\), record_id, ([^,]*), ([^)]*)\)\.await\?;\s*"
               r"let rv = F::from_array\(\s*&malicious_reveal\(ctx\.narrow\(&Step::RevealR\), record_id, None, &rv_share\)\s*\.await\?.*?\);\s*"
               r"Ok\(rv\.ct_eq\(&F::ZERO\)\.into\(\)\)")
    if m:
        cz_args = (opnd("c04.check_zero.protocol", m.group(1)), opnd("c04.check_zero.protocol", m.group(2)))
        record("c04.check_zero.protocol", rel, t, m, cz_args)

    # ---------------------------------------------------------------- reveal.rs : malicious_reveal
    rel = "protocol/basics/reveal.rs"
    t = read(rel)
    fn = re.search(r"pub async fn malicious_reveal<.*?\n\}\n", t, re.S)
    to_left, to_right = "right", "left"
    if not fn:
        fail("c04.reveal.fn", "malicious_reveal not found")
    else:
        body = fn.group(0)
        base = fn.start()

        def sub(name, pat):
            mm = re.search(pat, body, re.S)
            if not mm:
                fail(name, f"pattern not found in malicious_reveal ({rel})")
                return None
            items_m = re.compile(re.escape(mm.group(0))).search(t, base)
            record(name, rel, t, items_m or mm, squash(mm.group(0))[:200])
            return mm

        sub("c04.reveal.views", r"let left = share\.left_arr\(\);\s*let right = share\.right_arr\(\);")
        m1 = sub("c04.reveal.send_left", r"Some\(ctx\.role\(\)\.peer\(Direction::Left\)\) != excluded, \|\| \{\s*left_sender\.send\(record_id, (\w+)\)")
        m2 = sub("c04.reveal.send_right", r"Some\(ctx\.role\(\)\.peer\(Direction::Right\)\) != excluded, \|\| \{\s*right_sender\.send\(record_id, (\w+)\)")
        if m1:
            to_left = m1.group(1)
        if m2:
            to_right = m2.group(1)
        for nm, v in (("c04.reveal.send_left", to_left), ("c04.reveal.send_right", to_right)):
            if v not in ("left", "right"):
                fail(nm, f"unexpected component `{v}`")
        sub("c04.reveal.channels",
            r"let left_sender =\s*ctx\.send_channel::<[^;]*>\(ctx\.role\(\)\.peer\(Direction::Left\)\);\s*"
            r"let left_receiver =\s*ctx\.recv_channel::<[^;]*>\(ctx\.role\(\)\.peer\(Direction::Left\)\);\s*"
            r"let right_sender =\s*ctx\.send_channel::<[^;]*>\(ctx\.role\(\)\.peer\(Direction::Right\)\);\s*"
            r"let right_receiver =\s*ctx\.recv_channel::<[^;]*>\(ctx\.role\(\)\.peer\(Direction::Right\)\);")
        sub("c04.reveal.compare",
            r"if Some\(ctx\.role\(\)\) == excluded \{\s*Ok\(None\)\s*\} else \{\s*let \(share_from_left, share_from_right\) = try_join\(\s*"
            r"left_receiver\.receive\(record_id\),\s*right_receiver\.receive\(record_id\),\s*\)\s*\.await\?;\s*"
            r"if share_from_left == share_from_right \{\s*Ok\(Some\(share_from_left \+ left \+ right\)\)\s*\} else \{\s*"
            r"Err\(Error::MaliciousRevealFailed\)\s*\}")
    expect("c04.reveal.mac_share_opens_x", rel, t,
           r"impl<'a, F, const N: usize> Reveal<UpgradedMaliciousContext<'a, F>> for MaliciousReplicated<F, N>.*?"
           r"let x_share = self\.x\(\)\.access_without_downgrade\(\);\s*malicious_reveal\(ctx, record_id, excluded, x_share\)\.await")

    # ---------------------------------------------------------------- semi-honest multiplication: who receives z
    rel = "protocol/basics/mul/semi_honest.rs"
    t = read(rel)
    expect("c04.shmul.send_left", rel, t,
           r"send_channel::<<F as Vectorizable<N>>::Array>\(role\.peer\(Direction::Left\)\)\s*\.send\(record_id, &z_left\)")

    # ---------------------------------------------------------------- prf_eval.rs : validate before the openings
    rel = "protocol/ipa_prf/prf_eval.rs"
    t = read(rel)
    expect("c04.prf.validate_before_reveal", rel, t,
           r"\.multiply\(&r, ctx\.narrow\(&Step::MultMaskWithPRFInput\), record_id\)\s*\.await\?;\s*(?://[^\n]*\n\s*)*"
           r"ctx\.validate_record\(record_id\)\.await\?;\s*let \(gr, z\)[^=]*= try_join\(\s*"
           r"reveal\(ctx\.narrow\(&Step::RevealR\), record_id, &sh_gr\),\s*reveal\(ctx\.narrow\(&Step::Revealz\), record_id, &y\),\s*\)\s*\.await\?;")

    # ---------------------------------------------------------------- every `Reveal` impl (basics/reveal.rs)
    rel = "protocol/basics/reveal.rs"
    t = read(rel)
    code = t.split("#[cfg(all(test, unit_test))]\nmod tests")[0]
    impls = []   # (ctx, sharing, fn, opens)
    heads = list(re.finditer(r"^impl<([^>]*)>\s*Reveal<\s*(\w+)\s*(?:<([^{;]*?)>)?\s*>\s*for\s+(\w+)\s*<", code, re.M))
    loose = len(re.findall(r"^\s*(?:unsafe\s+)?impl\b\s*(?:<[^{;]*?>)?\s*(?:\w+::)*Reveal\s*<[^{;]*?\bfor\b", code, re.M))
    if loose != len(heads) or not heads:
        fail("c04.reveal.impl_count", f"{loose} `impl … Reveal<…> for …` items in {rel}, {len(heads)} parsed")
    else:
        record("c04.reveal.impl_count", rel, t, heads[0], len(heads))
    for hm in heads:
        generics, ctx, _ctxargs, sharing = hm.group(1), hm.group(2), hm.group(3), hm.group(4)
        end = code.find("\n}\n", hm.end())
        body = code[hm.end():end if end >= 0 else len(code)]
        name = f"c04.reveal.impl.{ctx}.{sharing}"
        if any(i[0] == ctx and i[1] == sharing for i in impls):
            fail(name, "two impls for the same (context, sharing) pair")
            continue
        # a context that is a type PARAMETER of the impl (the blanket impl for BitDecomposed<S>)
        params = [g.strip().split(":")[0].strip() for g in generics.split(",")]
        generic_ctx = ctx in params
        calls = re.findall(r"\b(semi_honest_reveal|malicious_reveal)\s*\(\s*ctx\s*,\s*record_id\s*,\s*excluded\s*,\s*(\w+)\s*\)\s*\.await", body)
        per_el = re.findall(r"\bgeneric_reveal\s*\(\s*ctx\.narrow\([^;]*?\)\s*,\s*record_id\s*,\s*excluded\s*,\s*(\w+)\s*,?\s*\)\s*\.await", body, re.S)
        other = re.findall(r"\b(\w*reveal\w*)\s*\(", body)
        other = [o for o in other if o not in ("generic_reveal", "semi_honest_reveal", "malicious_reveal")]
        fn, opens = "unknown", "unknown"
        if len(calls) == 1 and not per_el and not other:
            fn = "twoCopy" if calls[0][0] == "malicious_reveal" else "oneCopy"
            arg = calls[0][1]
            if arg == "self":
                opens = "self"
            elif arg == "x_share" and re.search(r"let x_share = self\.x\(\)\.access_without_downgrade\(\);", body):
                opens = "x"
            else:
                fail(name, f"unexpected opened value `{arg}`")
        elif len(per_el) == 1 and not calls and not other and generic_ctx:
            # body calls the free function `generic_reveal` (= `S::generic_reveal`) once per element, same ctx type
            fn, opens = "perElement", "elements"
            if not re.search(r"S:\s*Reveal<C>", body) or per_el[0] != "bit":
                fail(name, "the per-element impl no longer delegates to `S: Reveal<C>` for each element")
        else:
            fail(name, f"cannot tell which opening the impl delegates to (calls: {calls + per_el + other})")
        # generic_reveal is the ONLY method an impl defines (reveal / partial_reveal are the trait's provided methods)
        defined = re.findall(r"\bfn\s+(\w+)\s*<", body)
        if defined != ["generic_reveal"]:
            fail(name, f"impl defines {defined}, expected only generic_reveal")
        record(name, rel, t, hm, {"ctx": ctx, "sharing": sharing, "fn": fn, "opens": opens, "generic_ctx": generic_ctx})
        impls.append((ctx if not generic_ctx else "*", sharing, fn, opens))
    # the provided methods of the trait and the free wrappers all end in `generic_reveal`
    expect("c04.reveal.trait_reveal", rel, t,
           r"fn reveal<'fut>\(.*?\{\s*(?://[^\n]*\n\s*)*self\.generic_reveal\(ctx, record_id, None\)\s*\.map_ok\(Option::unwrap\)\s*\}")
    expect("c04.reveal.trait_partial_reveal", rel, t,
           r"fn partial_reveal<'fut>\(.*?\{\s*self\.generic_reveal\(ctx, record_id, Some\(excluded\)\)\s*\}")
    expect("c04.reveal.wrappers", rel, t,
           r"S::reveal\(v, ctx, record_id\)\s*\}.*?S::partial_reveal\(v, ctx, record_id, excluded\)\s*\}.*?S::generic_reveal\(v, ctx, record_id, excluded\)\s*\}")
    # the semi-honest opening (what a malicious-mode impl must NOT use): a single copy, from the left peer
    expect("c04.reveal.semi_honest_one_copy", rel, t,
           r"pub async fn semi_honest_reveal<.*?if Some\(ctx\.role\(\)\.peer\(Direction::Right\)\) != excluded \{\s*"
           r"ctx\.send_channel::<[^;]*?>\(ctx\.role\(\)\.peer\(Direction::Right\)\)\s*\.send\(record_id, left\)\s*\.await\?;\s*\}.*?"
           r"let share: [^=]*= ctx\s*\.recv_channel\(ctx\.role\(\)\.peer\(Direction::Left\)\)\s*\.receive\(record_id\)\s*\.await\?;\s*"
           r"Ok\(Some\(share \+ left \+ right\)\)")
    # no `Reveal` impl anywhere else
    import os
    from extract import SRC
    strays = []
    for root, _dirs, files in os.walk(SRC):
        for fn_ in files:
            if not fn_.endswith(".rs"):
                continue
            pth = os.path.join(root, fn_)
            r_ = os.path.relpath(pth, SRC)
            if r_ == rel:
                continue
            with open(pth) as fh:
                src_ = fh.read()
            if re.search(r"^\s*(?:unsafe\s+)?impl\b\s*(?:<[^{;]*?>)?\s*(?:\w+::)*Reveal\s*<[^{;]*?\bfor\b", src_, re.M):
                strays.append(r_)
    if strays:
        fail("c04.reveal.no_other_impls", "`Reveal` is also implemented in " + ", ".join(sorted(strays)))
    else:
        record("c04.reveal.no_other_impls", rel, t, re.search(r"pub trait Reveal<C: Context>", t), 0)
    # the module behind each context alias (context/mod.rs)
    relc = "protocol/context/mod.rs"
    tc = read(relc)
    ctx_mod = {}
    for m_ in re.finditer(r"pub use (\w+)::(\w+) as (\w+Context);", tc):
        ctx_mod[m_.group(3)] = (m_.group(1), m_)
    for m_ in re.finditer(r"pub type (\w+Context)<[^>]*> = (\w+)::(\w+)<[^;]*>;", tc):
        ctx_mod[m_.group(1)] = (m_.group(2), m_)
    ctx_rows = []
    for ctx in sorted({i[0] for i in impls if i[0] != "*"}):
        if ctx not in ctx_mod:
            fail("c04.reveal.ctx." + ctx, f"context alias not found in {relc}")
            ctx_rows.append((ctx, "unknown"))
        else:
            record("c04.reveal.ctx." + ctx, relc, tc, ctx_mod[ctx][1], ctx_mod[ctx][0])
            ctx_rows.append((ctx, ctx_mod[ctx][0]))
    # every upgraded malicious-mode alias of context/mod.rs (whether or not reveal.rs mentions it)
    all_mal = sorted(c for c, (mod_, _) in ctx_mod.items() if mod_ in ("malicious", "dzkp_malicious") and "Upgraded" in c)

    # ---------------------------------------------------------------- the key schedule (validator.rs, batcher.rs, malicious.rs)
    rel = "protocol/context/validator.rs"
    t = read(rel)
    key_per_batch = False
    mnew = re.search(r"pub fn new\(ctx: MaliciousContext<'a, B>, offset: usize\) -> Self \{(.*?)\n    \}\n", t, re.S)
    if not mnew:
        fail("c04.key.drawn_in_batch_constructor", "`Malicious::new(ctx, offset)` not found (the per-batch constructor no longer has this shape)")
    else:
        body = mnew.group(1)
        d = re.search(r"let r_share: Replicated<F::ExtendedField> = ctx\s*\.prss\(\)\s*\.generate\(Self::r_share_record\((\w+), TOTAL_CALLS_TO_PRSS\)\);", body)
        st = re.search(r"Self \{\s*r_share,\s*accumulator,\s*validate_ctx,\s*offset,\s*\}", body)
        if not d or not st:
            fail("c04.key.drawn_in_batch_constructor", "`Malicious::new` does not draw `r_share` itself and store it")
        elif d.group(1) != "offset":
            fail("c04.key.drawn_in_batch_constructor", f"r is drawn at the index of `{d.group(1)}`, not of the batch offset")
        else:
            key_per_batch = True
            record("c04.key.drawn_in_batch_constructor", rel, t, mnew, True)
    ctor_ok = False
    bnew = re.search(r"impl<'a, F: ExtendableField, B: ShardBinding> BatchValidator<'a, F, B> \{.*?pub fn new\(ctx: MaliciousContext<'a, B>\) -> Self \{(.*?)\n    \}\n", t, re.S)
    if not bnew:
        fail("c04.key.batch_constructor", "`BatchValidator::new` not found")
    else:
        body = bnew.group(1)
        c = re.search(r"Box::new\(move \|batch_index\| Malicious::new\(ctx\.clone\(\), batch_index\)\)", body)
        if not c:
            fail("c04.key.batch_constructor", "the batch constructor is not `|batch_index| Malicious::new(ctx.clone(), batch_index)`")
        elif re.search(r"prss\(\)|\.generate\(|\.zero\(|r_share", body):
            fail("c04.key.batch_constructor", "`BatchValidator::new` draws randomness / handles a key itself (a key shared by all batches)")
        else:
            ctor_ok = True
            record("c04.key.batch_constructor", rel, t, bnew, True)
    # no other way to build a `Malicious` (a second constructor taking a ready-made key)
    ctors = re.findall(r"fn (\w+)\([^)]*\)\s*->\s*Self\s*\{", t.split("#[cfg(all(test, unit_test))]")[0])
    n_self_lit = len(re.findall(r"Self \{\s*r_share", t))
    if n_self_lit != 1:
        fail("c04.key.single_constructor", f"{n_self_lit} places build a `Malicious` value")
    else:
        record("c04.key.single_constructor", rel, t, re.search(r"Self \{\s*r_share", t), ctors)
    opens_key = expect("c04.key.validate_opens_r", rel, t,
                       r"let r = <F as ExtendableField>::ExtendedField::from_array\(\s*&malicious_reveal\(\s*narrow_ctx,\s*"
                       r"Self::reveal_check_zero_record\(self\.offset\),\s*None,\s*&self\.r_share,\s*\)") is not None
    expect("c04.key.validate_consumes_batch", rel, t, r"pub\(crate\) async fn validate\(self\) -> Result<\(\), Error>")
    relb = "protocol/context/batcher.rs"
    tb = read(relb)
    idx_ok = expect("c04.key.batcher_passes_batch_index", relb, tb,
                    r"batch: \(self\.batch_constructor\)\(self\.first_batch \+ self\.batches\.len\(\)\),") is not None
    expect("c04.key.batch_of_record", relb, tb,
           r"let batch_index = usize::from\(record_id\) / self\.records_per_batch;")
    relm = "protocol/context/malicious.rs"
    tm_ = read(relm)
    expect("c04.key.r_share_of_record", relm, tm_,
           r"fn r_share\(&self, record_id: RecordId\) -> Replicated<F::ExtendedField> \{\s*self\.with_batch\(record_id, \|v\| v\.r_share\(\)\.clone\(\)\)\s*\}")
    expect("c04.key.with_batch", relm, tm_,
           r"let state = batch\.get_batch\(record_id\);\s*\(action\)\(&mut state\.batch\)")
    key_per_batch = key_per_batch and ctor_ok and idx_ok


    def pair(p):
        return f"(.{p[0]}, .{p[1]})"

    L.append("/-! GENERATED by tools/extract.py (plugin c04_mac) — do not edit. -/")
    L.append("namespace IpaVerif.Generated.Mac")
    L.append("")
    L.append("/-- atoms of the extracted formulas -/")
    L.append("inductive Atom where")
    L.append("  | al | ar | bl | br | u | w | r")
    L.append("  deriving DecidableEq, Repr")
    L.append("")
    L.append("/-- terms over `+ - *` -/")
    L.append("inductive Tm where")
    L.append("  | v (a : Atom)")
    L.append("  | add (x y : Tm)")
    L.append("  | sub (x y : Tm)")
    L.append("  | mul (x y : Tm)")
    L.append("  deriving Repr")
    L.append("")
    L.append("/-- operands of the protocol steps, as named in the sources -/")
    L.append("inductive Opnd where")
    L.append("  | induced | r | ax | arx | bx | bInduced | alpha | inputRx | czMask | czValue | unknown")
    L.append("  deriving DecidableEq, Repr")
    L.append("")

    def tm(s):
        # `.al` -> `(.v .al)` for the atoms
        return re.sub(r"(?<![\w.])\.(al|ar|bl|br|u|w|r)\b", r"(.v .\1)", s)

    L.append("/-- `MaliciousAccumulator::compute_dot_product_contribution` (per lane), context/validator.rs -/")
    L.append(f"def dotFormula : Tm := {tm(dot)}")
    L.append("/-- `Malicious::validate`: `let t = …` -/")
    L.append(f"def tFormula : Tm := {tm(tform)}")
    L.append("/-- `accumulate_macs`: operands of the `u` and of the `w` contribution -/")
    L.append(f"def uContribArgs : Opnd × Opnd := {pair(u_args)}")
    L.append(f"def wContribArgs : Opnd × Opnd := {pair(w_args)}")
    L.append("/-- `upgrade`: operands of the one multiplication -/")
    L.append(f"def upgradeMulArgs : Opnd × Opnd := {pair(up_args)}")
    L.append("/-- `mac_multiply`: operands of the two multiplications -/")
    L.append(f"def mainMulArgs : Opnd × Opnd := {pair(main_args)}")
    L.append(f"def dupMulArgs : Opnd × Opnd := {pair(dup_args)}")
    L.append("/-- `malicious_check_zero`: operands of the multiplication -/")
    L.append(f"def checkZeroMulArgs : Opnd × Opnd := {pair(cz_args)}")
    L.append("/-- record ids: `total * offset + add` -/")
    L.append(f"def totalCallsToPrss : Nat := {consts['TOTAL_CALLS_TO_PRSS']}")
    L.append(f"def totalSend : Nat := {consts['TOTAL_SEND']}")
    L.append(f"def uRecordAdd : Nat := {adds['u_record']}")
    L.append(f"def wRecordAdd : Nat := {adds['w_record']}")
    L.append(f"def rShareRecordAdd : Nat := {adds['r_share_record']}")
    L.append("/-- `accumulate_macs`: the random coefficient is an N-lane sharing drawn from PRSS — one independent value per lane")
    L.append("(false: a single value spread over the lanes) -/")
    L.append(f"def coefficientPerLane : Bool := {'true' if per_lane else 'false'}")
    L.append("/-- `propagate_u_and_w` sends the local value to the right neighbour (and receives from the left) -/")
    L.append(f"def propagateToRight : Bool := {'true' if prop_right else 'false'}")
    L.append("/-- `malicious_reveal`: the component sent to the left / to the right peer is the sender's right / left one -/")
    L.append(f"def revealToLeftSendsRight : Bool := {'true' if to_left == 'right' else 'false'}")
    L.append(f"def revealToRightSendsLeft : Bool := {'true' if to_right == 'left' else 'false'}")
    L.append("/-- the MAC key `r` is drawn inside the per-batch constructor `Malicious::new(ctx, batch_index)` at the PRSS index")
    L.append("`r_share_record(batch_index, …)` (false: one key for all batches of a validator) -/")
    L.append(f"def keyPerBatch : Bool := {'true' if key_per_batch else 'false'}")
    L.append("/-- `Malicious::validate` opens the batch key `r` to every helper (`malicious_reveal(…, None, &self.r_share)`) -/")
    L.append(f"def validateOpensKey : Bool := {'true' if opens_key else 'false'}")
    L.append("")
    L.append("end IpaVerif.Generated.Mac")

    R = []
    R.append("/-! GENERATED by tools/extract.py (plugin c04_mac) — do not edit. -/")
    R.append("namespace IpaVerif.Generated.MacReveal")
    R.append("")
    R.append("/-- what an `impl Reveal<Ctx> for Sharing` delegates to: `malicious_reveal` (two copies, compared),")
    R.append("`semi_honest_reveal` (one copy, from the left peer), the element type's own impl (`BitDecomposed<S>`) -/")
    R.append("inductive RevealFn where")
    R.append("  | twoCopy | oneCopy | perElement | unknown")
    R.append("  deriving DecidableEq, Repr")
    R.append("")
    R.append("/-- `ctx = \"*\"`: the impl is generic in the context -/")
    R.append("structure RevealImpl where")
    R.append("  ctx : String")
    R.append("  sharing : String")
    R.append("  fn : RevealFn")
    R.append("  opens : String")
    R.append("  deriving DecidableEq, Repr")
    R.append("")
    R.append("/-- every `impl … Reveal<Ctx> for Sharing` of protocol/basics/reveal.rs, in source order -/")
    R.append("def revealImpls : List RevealImpl := [")
    R.append(",\n".join(f'  ⟨"{c}", "{sh}", .{f}, "{o}"⟩' for (c, sh, f, o) in impls))
    R.append("]")
    R.append("")
    R.append("/-- (context alias, module of protocol/context that defines it) for the contexts named by the impls -/")
    R.append("def contextModules : List (String × String) := [")
    R.append(",\n".join(f'  ("{c}", "{m_}")' for (c, m_) in ctx_rows))
    R.append("]")
    R.append("")
    R.append("/-- every upgraded context alias of protocol/context/mod.rs that lives in a malicious-mode module -/")
    R.append("def upgradedMaliciousContexts : List String := [" + ", ".join(f'"{c}"' for c in all_mal) + "]")
    R.append("")
    R.append("end IpaVerif.Generated.MacReveal")
    return {"MacConsts.lean": "\n".join(L) + "\n", "MacReveal.lean": "\n".join(R) + "\n"}
