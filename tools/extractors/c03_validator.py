"""Translator plugin for C03 (b16): how the DZKP validator anchors the layout of a proof batch.

Re-reads from protocol/context/dzkp_validator.rs
  * the batch constructor closure that `MaliciousDZKPValidator::new` hands to `Batcher::new`: the CONDITION under
    which an explicit first record is supplied and the EXPRESSION of that first record are machine-translated
    into `IpaVerif.Generated.DzkpValidator.firstRecordOf` (small grammar: comparisons between `batch_index`,
    `max_multiplications_per_gate`, `usize::MAX` and integer literals; products of these), so the model of the
    validator follows the code as it is and the theorem `push_order_irrelevant` is re-checked against it;
  * what the closure passes on (`Batch::new(first_record, max_multiplications_per_gate)`), the batch size the
    batcher is created with, `Batch::new`, the per-gate store creation in `Batch::push`, the anchoring statement
    and the two range assertions of `insert_segment`, `Batch::is_empty`, both `get_number_of_multiplications`,
    `MultiplicationInputsBatch::is_empty`, `DZKPUpgraded::push`/`with_batch` (gate of the pushing context,
    batch chosen by `get_batch(record_id)`) — pinned (whitespace-normalised).
"""
import re
from extract import read, record, fail

PFX = "dzkp.validator."

_ATOMS = {
    "batch_index": "batchIndex",
    "max_multiplications_per_gate": "maxMul",
    "usize::MAX": "usizeMax",
}
_CMP = {"!=": "!=", "==": "==", ">=": "≥", "<=": "≤", ">": ">", "<": "<"}


def _atom(tok):
    tok = tok.strip()
    if tok in _ATOMS:
        return _ATOMS[tok]
    if re.fullmatch(r"[\d_]+(usize)?", tok):
        return str(int(tok.replace("usize", "").replace("_", "")))
    raise ValueError(f"unknown atom {tok!r}")


def _product(src):
    return " * ".join(_atom(a) for a in src.split("*"))


def _cond(src):
    src = src.strip()
    for op in ("!=", "==", ">=", "<=", ">", "<"):
        if op in src:
            a, b = src.split(op, 1)
            la, lb = _product(a), _product(b)
            if op in ("!=", "=="):
                return f"({la} {_CMP[op]} {lb})"
            return f"decide ({la} {_CMP[op]} {lb})"
    raise ValueError(f"unknown condition {src!r}")


def _squash(s):
    s = re.sub(r"//[^\n]*", "", s)
    return re.sub(r"\s+", " ", s).strip()


def _pin(name, rel, text, pattern, value=None):
    m = re.search(pattern, text, re.S)
    if not m:
        fail(PFX + name, f"pattern not found in {rel}: {pattern[:90]}")
        return None
    record(PFX + name, rel, text, m, value if value is not None else _squash(m.group(0))[:240])
    return m


def extract():
    rel = "protocol/context/dzkp_validator.rs"
    t = read(rel)
    # defaults = the code as it was when the model was written (used when the closure cannot be translated, so
    # that the correspondence suites then show the disagreement on a concrete input)
    cond, expr = "(maxMul != usizeMax)", "batchIndex * maxMul"
    m = re.search(r"Box::new\(move \|batch_index\| \{(.*?)\}\),\s*\);", t, re.S)
    if not m:
        fail(PFX + "first_record", "batch constructor closure not found in MaliciousDZKPValidator::new")
    else:
        body = _squash(m.group(1))
        fm = re.fullmatch(
            r"let first_record = \((.+?)\) \.then\(\|\| RecordId::from\((.+?)\)\); Batch::new\((\w+), (\w+)\)", body)
        if not fm:
            fail(PFX + "first_record", f"closure body not of the shape `let first_record = (<cond>).then(|| RecordId::from(<expr>)); Batch::new(..)`: {body[:200]}")
        else:
            try:
                cond, expr = _cond(fm.group(1)), _product(fm.group(2))
                record(PFX + "first_record", rel, t, m, {"explicit_when": fm.group(1), "first_record": fm.group(2)})
            except ValueError as e:
                fail(PFX + "first_record", str(e))
            if (fm.group(3), fm.group(4)) == ("first_record", "max_multiplications_per_gate"):
                record(PFX + "closure_passes", rel, t, m, "Batch::new(first_record, max_multiplications_per_gate)")
            else:
                fail(PFX + "closure_passes", f"Batch::new({fm.group(3)}, {fm.group(4)})")
    _pin("batcher_size", rel, t, r"let batcher = Batcher::new\(\s*max_multiplications_per_gate,\s*ctx\.total_records\(\),",
         "records_per_batch = max_multiplications_per_gate")
    _pin("batch_new", rel, t,
         r"fn new\(first_record: Option<RecordId>, max_multiplications_per_gate: usize\) -> Self \{\s*Self \{\s*max_multiplications_per_gate,\s*first_record,\s*inner: BTreeMap::<Gate, MultiplicationInputsBatch>::default\(\),\s*\}\s*\}")
    _pin("batch_push", rel, t,
         r"pub\(super\) fn push\(&mut self, gate: Gate, record_id: RecordId, segment: Segment\) \{.*?self\.inner\s*\.entry\(gate\)\s*\.or_insert_with\(\|\| \{\s*MultiplicationInputsBatch::new\(\s*self\.first_record,\s*self\.max_multiplications_per_gate,\s*segment\.len\(\),\s*\)\s*\}\)\s*\.insert_segment\(record_id, segment\);\s*\}")
    _pin("store_new_fields", rel, t,
         r"Self \{\s*first_record,\s*max_multiplications,\s*multiplication_bit_size,\s*vec: Vec::with_capacity\(")
    ins = re.search(r"fn insert_segment\(&mut self, record_id: RecordId, segment: Segment\) \{(.*?)\n    \}\n", t, re.S)
    if not ins:
        fail(PFX + "insert_segment", "function not found")
    else:
        b = ins.group(1)
        marks = [
            ("insert.width", r"debug_assert_eq!\(segment\.len\(\), self\.multiplication_bit_size\);"),
            ("insert.anchor", r"let first_record = \*self\.first_record\.get_or_insert\(record_id\);"),
            ("insert.not_before", r"assert!\(\s*record_id >= first_record,"),
            ("insert.not_beyond", r"assert!\(\s*usize::from\(record_id\)\s*<\s*self\s*\.max_multiplications\s*\.saturating_add\(usize::from\(first_record\)\),"),
            ("insert.dispatch", r"if segment\.len\(\) < 256 \{\s*self\.insert_segment_small\(record_id, segment\);\s*\} else \{\s*self\.insert_segment_large\(record_id, &segment\);\s*\}"),
        ]
        pos = -1
        for name, pat in marks:
            mm = re.compile(pat).search(t, ins.start(1), ins.end(1))
            if not mm:
                fail(PFX + name, "statement not found in insert_segment")
                continue
            if mm.start() < pos:
                fail(PFX + name, "statements of insert_segment are no longer in the modelled order")
            pos = mm.start()
            record(PFX + name, rel, t, mm, "present, in order")
        # nothing else happens in insert_segment: five top-level statements
        flat = re.sub(r"\"[^\"]*\"", "\"\"", re.sub(r"//[^\n]*", "", b))
        depth, n_stmts = 0, 0
        for i, ch in enumerate(flat):
            if ch in "({[":
                depth += 1
            elif ch in ")}]":
                depth -= 1
                if depth == 0 and ch == "}" and not flat[i + 1:].lstrip().startswith(("else", ";", ")")):
                    n_stmts += 1
            elif ch == ";" and depth == 0:
                n_stmts += 1
        if n_stmts != 5:
            fail(PFX + "insert.statements", f"insert_segment has {n_stmts} top-level statements (modelled: width check, anchor, two range assertions, dispatch)")
        else:
            record(PFX + "insert.statements", rel, t, ins, n_stmts)
    for name, pat in (
        ("id_within_batch_small", r"fn insert_segment_small\(&mut self, record_id: RecordId, segment: Segment\) \{\s*(?://[^\n]*\s*)*let id_within_batch = usize::from\(record_id\) - usize::from\(self\.first_record\.unwrap\(\)\);"),
        ("id_within_batch_large", r"fn insert_segment_large\(&mut self, record_id: RecordId, segment: &Segment\) \{\s*let id_within_batch = usize::from\(record_id\) - usize::from\(self\.first_record\.unwrap\(\)\);"),
        ("store_count", r"fn get_number_of_multiplications\(&self\) -> usize \{\s*self\.vec\.len\(\) \* 256\s*\}"),
        ("store_is_empty", r"fn is_empty\(&self\) -> bool \{\s*self\.vec\.is_empty\(\)\s*\}"),
        ("batch_is_empty", r"fn is_empty\(&self\) -> bool \{\s*self\.inner\.is_empty\(\) \|\| self\.inner\.values\(\)\.all\(MultiplicationInputsBatch::is_empty\)\s*\}"),
        ("batch_count", r"fn get_number_of_multiplications\(&self\) -> usize \{\s*self\.inner\s*\.values\(\)\s*\.map\(MultiplicationInputsBatch::get_number_of_multiplications\)\s*\.sum\(\)\s*\}"),
        ("validate_skips_empty", r"if self\.is_empty\(\) \{\s*return Ok\(\(\)\);\s*\}"),
    ):
        _pin(name, rel, t, pat)
    rel2 = "protocol/context/dzkp_malicious.rs"
    d = read(rel2)
    _pin("ctx_push", rel2, d,
         r"pub fn push\(&self, record_id: RecordId, segment: Segment\) \{\s*self\.with_batch\(record_id, \|batch\| \{\s*batch\.push\(self\.base_ctx\.gate\(\)\.clone\(\), record_id, segment\);\s*\}\);\s*\}")
    _pin("ctx_with_batch", rel2, d,
         r"let mut batcher = validator_inner\.batcher\.lock\(\)\.unwrap\(\);\s*let state = batcher\.get_batch\(record_id\);\s*\(action\)\(&mut state\.batch\)")
    rel3 = "protocol/context/batcher.rs"
    bt = read(rel3)
    _pin("ctor_index", rel3, bt, r"batch: \(self\.batch_constructor\)\(self\.first_batch \+ self\.batches\.len\(\)\),")
    _pin("single_batch_ctor", rel3, bt, r"None => \(self\.batch_constructor\)\(0\),")

    lines = [
        "/-! GENERATED by tools/extract.py (tools/extractors/c03_validator.py) from",
        "ipa-core/src/protocol/context/dzkp_validator.rs (`MaliciousDZKPValidator::new`, the batch constructor closure)",
        "— do not edit. -/",
        "namespace IpaVerif.Generated.DzkpValidator",
        "",
        "/-- `usize::MAX` on the 64-bit targets the helpers run on. -/",
        "def usizeMax : Nat := 18446744073709551615",
        "",
        "/-- `first_record` handed to `Batch::new` for batch `batchIndex` of a validator created with",
        "`max_multiplications_per_gate = maxMul` (`(cond).then(|| RecordId::from(expr))`). -/",
        "def firstRecordOf (maxMul batchIndex : Nat) : Option Nat :=",
        f"  if {cond} then some ({expr}) else none",
        "",
        "end IpaVerif.Generated.DzkpValidator",
    ]
    return {"DzkpValidator.lean": "\n".join(lines) + "\n"}
