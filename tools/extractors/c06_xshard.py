"""Translator plugin (C06): the two arms of `gen_and_distribute` (helpers/cross_shard_prss.rs).

  prss.xshard.leader_arm     `if shard_config.is_leader() {` draws `let setup: SeededEndpointSetup =
                             prss.generate(RecordId::FIRST);`, sends `(setup.left_seed().clone(),
                             setup.right_seed().clone())` to every `shard_config.peer_shards()` on
                             `ChannelId::new(shard, gate.clone())` and finishes with `setup.setup()`
  prss.xshard.follower_arm   the `else` arm is exactly: receive ONE record from `ChannelId::new(shard_config.leader(),
                             gate.clone())` with `.try_next().await?`, `.ok_or_else(|| Error::EndOfStream { .. })?`,
                             then `SeededEndpointSetup::from_seeds(l_seed, r_seed).setup()`; the per-shard `prss`
                             is NOT mentioned in this arm (a follower never makes seeds of its own)
  prss.xshard.single_use     `prss` is used exactly once in the whole function (the leader's draw), and the function
                             is what `helpers::setup_cross_shard_prss` re-exports

Generated: CrossShard.lean (`followerErrOnEmpty`, `followerNeverGenerates`, `recognised`). Unrecognised shape: item
broken, fallback = what the property demands flagged `recognised := false` (theorem `follower_arm_ok` fails; the
suite `c06_xfault` exhibits the fault pattern).
"""
import re
from extract import read, record, fail


def strip_comments(t):
    return re.sub(r"//[^\n]*", "", t)


def brace_end(t, start):
    depth = 0
    for i in range(start, len(t)):
        if t[i] == "{":
            depth += 1
        elif t[i] == "}":
            depth -= 1
            if depth == 0:
                return i
    raise ValueError("unbalanced")


def flat(s):
    return re.sub(r"\s+", "", s)


def extract():
    rel = "helpers/cross_shard_prss.rs"
    raw = read(rel)
    t = strip_comments(raw)
    mt = re.search(r"#\[cfg\(all\(test", t)
    if mt:
        t = t[:mt.start()]
    val = {"err_on_empty": True, "never_generates": True, "recognised": True}
    m0 = re.search(r"pub async fn gen_and_distribute", raw) or re.search(r"use ", raw)
    leader = follower = None
    m = re.search(r"pub async fn gen_and_distribute\s*<R:\s*SharedRandomness,\s*C:\s*ShardConfiguration>\s*\(\s*gateway:\s*&Gateway,\s*gate:\s*&Gate,\s*prss:\s*R,\s*shard_config:\s*C,?\s*\)", t)
    body = None
    if m:
        b0 = t.index("{", m.end())
        body = t[b0 + 1:brace_end(t, b0)]
        mi = re.search(r"let endpoint = if shard_config\.is_leader\(\)\s*\{", body)
        if mi:
            l0 = mi.end() - 1
            l1 = brace_end(body, l0)
            leader = body[l0 + 1:l1]
            me = re.match(r"\s*else\s*\{", body[l1 + 1:])
            if me:
                f0 = l1 + 1 + me.end() - 1
                f1 = brace_end(body, f0)
                follower = body[f0 + 1:f1]
                rest = flat(body[f1 + 1:])
                if rest != ";Ok(endpoint)":
                    follower = None
    if leader is None or follower is None:
        for it in ("prss.xshard.leader_arm", "prss.xshard.follower_arm", "prss.xshard.single_use"):
            fail(it, "gen_and_distribute no longer has the shape `let endpoint = if shard_config.is_leader() { .. } else { .. }; Ok(endpoint)`")
        val["recognised"] = False
    else:
        fl = flat(leader)
        want_leader = (r"letsetup:SeededEndpointSetup=prss\.generate\(RecordId::FIRST\);"
                       r"shard_config\.peer_shards\(\)\.map\(\|shard\|\{letchannel=ChannelId::new\(shard,gate\.clone\(\)\);"
                       r"letsender=gateway\.get_shard_sender\(&channel,TotalRecords::ONE\);"
                       r"let\(l_seed,r_seed\)=\(setup\.left_seed\(\)\.clone\(\),setup\.right_seed\(\)\.clone\(\)\);"
                       r"asyncmove\{sender\.send\(RecordId::FIRST,\(l_seed,r_seed\)\)\.await\}\}\)"
                       r"\.collect::<FuturesUnordered<_>>\(\)\.try_collect::<\(\)>\(\)\.await\?;setup\.setup\(\)")
        if not re.fullmatch(want_leader, fl):
            fail("prss.xshard.leader_arm", "the leader arm no longer is: draw seeds from prss at RecordId::FIRST, send the pair to every peer shard, setup()")
            val["recognised"] = False
        record("prss.xshard.leader_arm", rel, raw, re.search(r"if shard_config\.is_leader\(\)", raw) or m0, "generate + send to peer_shards + setup")

        ff = flat(follower)
        want_follower = (r"letchannel_id=ChannelId::new\(shard_config\.leader\(\),gate\.clone\(\)\);"
                         r"let\(l_seed,r_seed\):\(_,Seed\)=gateway\.get_shard_receiver\(&channel_id\)\.try_next\(\)\.await\?"
                         r"\.ok_or_else\(\|\|Error::EndOfStream\{channel_id,inner:EndOfStreamError\(RecordId::FIRST\),\}\)\?;"
                         r"SeededEndpointSetup::from_seeds\(l_seed,r_seed\)\.setup\(\)")
        err_on_empty = re.fullmatch(want_follower, ff) is not None
        never_generates = re.search(r"\bprss\b|\bgenerate\b", follower) is None
        why = []
        if not err_on_empty:
            why.append("the follower arm no longer is `try_next().await?.ok_or_else(|| Error::EndOfStream { .. })?` followed by "
                       "`SeededEndpointSetup::from_seeds(l_seed, r_seed).setup()`")
        if not never_generates:
            why.append("the follower arm mentions the shard's own `prss` / `generate`: a follower must never make seeds of its own")
        for w in why:
            fail("prss.xshard.follower_arm", w)
        if why:
            val["recognised"] = False
        record("prss.xshard.follower_arm", rel, raw, re.search(r"// Receive seeds from the leader|\.ok_or_else\(", raw) or m0,
               {"err_on_empty": err_on_empty, "never_generates": never_generates})

        n_prss = len(re.findall(r"\bprss\b", body))
        hm = re.search(r"pub use cross_shard_prss::gen_and_distribute as setup_cross_shard_prss;", read("helpers/mod.rs"))
        if n_prss != 1 or not hm:
            fail("prss.xshard.single_use", f"`prss` is used {n_prss} times in gen_and_distribute (expected once: the leader's draw)"
                 if n_prss != 1 else "helpers::setup_cross_shard_prss is no longer gen_and_distribute")
            val["recognised"] = False
        record("prss.xshard.single_use", rel, raw, re.search(r"prss\.generate\(RecordId::FIRST\)", raw) or m0, {"prss_uses": n_prss})

    b = lambda x: str(bool(x)).lower()
    L = ["/-! GENERATED by tools/extract.py (plugin c06_xshard) from ipa-core/src/helpers/cross_shard_prss.rs — do not edit. -/",
         "namespace IpaVerif.Generated.CrossShard",
         "",
         "/-- the follower arm of `gen_and_distribute` turns an empty seed channel into `Error::EndOfStream` -/",
         f"def followerErrOnEmpty : Bool := {b(val['err_on_empty'])}",
         "/-- the follower arm never touches the shard's own `prss` -/",
         f"def followerNeverGenerates : Bool := {b(val['never_generates'])}",
         "/-- `false`: shape not recognised by the translator; the values above are then the fallback -/",
         f"def recognised : Bool := {b(val['recognised'])}",
         "",
         "end IpaVerif.Generated.CrossShard"]
    return {"CrossShard.lean": "\n".join(L) + "\n"}
