"""Translator plugin (C18, request-handler level): the match arms of the two `RequestHandler` impls of
`Inner` in ipa-core/src/app.rs.

Extracted on every run, in source order, for `impl RequestHandler<HelperIdentity> for Inner` and
`impl RequestHandler<ShardIndex> for Inner`:
  route pattern (RouteId variant, `_` for the catch-all arm) and what the arm does:
    reject   -> `return Err(ApiError::BadRequest(..))`
    metrics  -> `HelperResponse::from(<..>.scrape_metrics())`
    mpc      -> `RequestHandler::<HelperIdentity>::handle(self, req.erase_origin(), data).await?`
    <method> -> one call `qp.<method>(..)`, with: is the query id taken by `ext_query_id(&req)?`,
                the type T of `req.into::<T>()?` (if any), and whether the call's result leaves through
                `?` into `HelperResponse::from(..)` (error propagated, Ok value converted).
Also `ext_query_id`: a missing id is `ApiError::BadRequest`.
The generated `LifecycleApp.lean` holds the two tables; `IpaVerif.C18.source_arms_match_spec_tables`
proves that they agree with the tables the handler model / theorems use.
"""
import re
from extract import read, record, fail

REL = "app.rs"


def strip_comments(t):
    return re.sub(r"//[^\n]*", "", t)


def block_after(t, start):
    assert t[start] == "{"
    depth = 0
    for i in range(start, len(t)):
        if t[i] == "{":
            depth += 1
        elif t[i] == "}":
            depth -= 1
            if depth == 0:
                return t[start + 1:i], i + 1
    raise ValueError("unbalanced braces")


def paren_end(t, start):
    assert t[start] == "("
    depth = 0
    for i in range(start, len(t)):
        if t[i] == "(":
            depth += 1
        elif t[i] == ")":
            depth -= 1
            if depth == 0:
                return i
    raise ValueError("unbalanced parentheses")


def match_arms(body):
    """Split the inside of `match … { }` into (pattern, expression) in source order."""
    arms, i, n = [], 0, len(body)
    while i < n:
        depth, j = 0, i
        while j < n:
            if body[j] in "({[":
                depth += 1
            elif body[j] in ")}]":
                depth -= 1
            elif depth == 0 and body.startswith("=>", j):
                break
            j += 1
        if j >= n:
            break
        pat = body[i:j].strip()
        k = j + 2
        while k < n and body[k].isspace():
            k += 1
        if k < n and body[k] == "{":
            expr, k2 = block_after(body, k)
            while k2 < n and (body[k2].isspace() or body[k2] == ","):
                k2 += 1
        else:
            depth, k2 = 0, k
            while k2 < n:
                if body[k2] in "({[":
                    depth += 1
                elif body[k2] in ")}]":
                    depth -= 1
                elif body[k2] == "," and depth == 0:
                    break
                k2 += 1
            expr = body[k:k2]
            k2 += 1
        arms.append((pat, expr.strip()))
        i = k2
    return arms


def classify(pat, expr):
    m = re.fullmatch(r"(?:\w+\s*@\s*)?RouteId::(\w+)", pat)
    if m:
        route = m.group(1)
    elif re.fullmatch(r"\w+", pat):
        route = "_"
    else:
        raise ValueError("unexpected route pattern: " + pat)
    e = re.sub(r"\s+", " ", expr)
    calls = re.findall(r"\bqp\s*\.\s*(\w+)\s*\(", e)
    if not calls:
        if re.fullmatch(r"return Err\(ApiError::BadRequest\(.*\)\);?", e.strip()):
            return [route, "reject", False, "", False]
        if re.fullmatch(r"let logging_handler = &self\.logging_handle; let metrics_handle = &logging_handler\.metrics_handle; "
                        r"HelperResponse::from\(metrics_handle\.scrape_metrics\(\)\)", e.strip()):
            return [route, "metrics", False, "", True]
        if re.fullmatch(r"RequestHandler::<HelperIdentity>::handle\(self, req\.erase_origin\(\), data\)\.await\?", e.strip()):
            return [route, "mpc", False, "", True]
        raise ValueError(f"arm {pat}: neither a processor call, a rejection, metrics nor delegation: {e[:120]}")
    if len(calls) != 1:
        raise ValueError(f"arm {pat}: {len(calls)} processor calls")
    method = calls[0]
    # statements before the response expression
    stmts = [s.strip() for s in e.split(";")]
    lets, resp = stmts[:-1], stmts[-1]
    ext_id, into = False, ""
    for s in lets:
        if s == "let query_id = ext_query_id(&req)?":
            ext_id = True
        elif re.fullmatch(r"let req = req\.into::<(\w+)>\(\)\?", s):
            into = re.fullmatch(r"let req = req\.into::<(\w+)>\(\)\?", s).group(1)
        elif s == "let shard_transport = Transport::clone_ref(&self.shard_transport)":
            pass
        elif re.fullmatch(r"let query_status = qp\.query_status\(shard_transport, query_id\)\.await\?", s):
            # `let query_status = qp.query_status(..).await?; HelperResponse::from(query_status)`
            if resp != "HelperResponse::from(query_status)":
                raise ValueError(f"arm {pat}: the status is not what is returned")
            return [route, method, ext_id, into, True]
        else:
            raise ValueError(f"arm {pat}: unexpected statement `{s}`")
    # response: HelperResponse::from( qp.method(args) [.await] ? )
    m = re.match(r"HelperResponse::from\(\s*qp\s*\.\s*" + method + r"\s*\(", resp)
    propagates = False
    if m:
        close = paren_end(resp, m.end() - 1)
        args = resp[m.end():close]
        rest = resp[close + 1:]
        propagates = re.fullmatch(r"\s*(\.await)?\s*\?\s*,?\s*\)", rest) is not None
        if ext_id and not re.search(r"\bquery_id\b", args):
            raise ValueError(f"arm {pat}: extracted query id is not passed to the call")
        if into and not re.search(r"\breq\b", args):
            raise ValueError(f"arm {pat}: deserialized request is not passed to the call")
    return [route, method, ext_id, into, propagates]


def handler_arms(t, ident):
    m = re.search(r"impl RequestHandler<" + ident + r"> for Inner\s*\{", t)
    if not m:
        raise ValueError(f"impl RequestHandler<{ident}> for Inner not found")
    body, _ = block_after(t, m.end() - 1)
    mm = re.search(r"Ok\(match req\.route\s*\{", body)
    if not mm:
        raise ValueError("`Ok(match req.route {` not found")
    inner, _ = block_after(body, mm.end() - 1)
    return [classify(p, e) for p, e in match_arms(inner)]


def extract():
    raw = read(REL)
    t = strip_comments(raw)
    ok = True
    tables = {}
    for key, ident in (("mpc", "HelperIdentity"), ("shard", "ShardIndex")):
        name = f"lifecycle.app.{key}_arms"
        m0 = re.search(r"impl RequestHandler<" + ident + r"> for Inner", raw)
        try:
            tables[key] = handler_arms(t, ident)
            record(name, REL, raw, m0, tables[key])
        except ValueError as e:
            fail(name, str(e))
            ok = False
    m = re.search(r"fn ext_query_id<I: TransportIdentity>\(req: &Addr<I>\) -> Result<QueryId, ApiError> \{\s*req\.query_id\s*"
                  r"\.ok_or_else\(\|\| ApiError::(\w+)\(", raw)
    if m:
        record("lifecycle.app.ext_query_id", REL, raw, m, m.group(1))
        ext_err = m.group(1)
    else:
        fail("lifecycle.app.ext_query_id", "fn ext_query_id: `req.query_id.ok_or_else(|| ApiError::…` not found")
        ok = False
    if not ok:
        return {}

    def b(x):
        return "true" if x else "false"

    L = []
    L.append("/-! GENERATED by tools/extract.py (plugin c18_app) from ipa-core/src/app.rs — do not edit. -/")
    L.append("namespace IpaVerif.Generated.LifecycleApp")
    L.append("")
    L.append("/-- One arm of `match req.route` in a `RequestHandler` impl of `Inner`. `route`: RouteId variant, `_` =")
    L.append("catch-all. `call`: `reject` (BadRequest), `metrics`, `mpc` (origin erased, MPC handler), or the")
    L.append("`Processor` method. `extId`: query id by `ext_query_id(&req)?`. `into`: T of `req.into::<T>()?`.")
    L.append("`propagates`: the call's result goes through `?` into `HelperResponse::from`. -/")
    L.append("structure Arm where")
    L.append("  route : String")
    L.append("  call : String")
    L.append("  extId : Bool")
    L.append("  into : String")
    L.append("  propagates : Bool")
    L.append("  deriving DecidableEq, Repr")
    L.append("")
    for key, doc in (("mpc", "impl RequestHandler<HelperIdentity> for Inner"), ("shard", "impl RequestHandler<ShardIndex> for Inner")):
        L.append(f"/-- `{doc}` (source order; first match wins). -/")
        L.append(f"def {key}Arms : List Arm := [")
        L.append(",\n".join(f'  ⟨"{r}", "{c}", {b(x)}, "{i}", {b(p)}⟩' for r, c, x, i, p in tables[key]))
        L.append("]")
        L.append("")
    L.append("/-- `ext_query_id`: the `ApiError` variant for a missing `Addr.query_id`. -/")
    L.append(f'def extQueryIdErr : String := "{ext_err}"')
    L.append("")
    L.append("end IpaVerif.Generated.LifecycleApp")
    return {"LifecycleApp.lean": "\n".join(L) + "\n"}
