"""Translator plugin for C03 (b21): recording a multiplication in the proof batch is ONE critical section.

`DZKPUpgraded::push` (context/dzkp_malicious.rs) is what `zkp_multiply` calls to store the intermediates of one record under
one gate in the record's proof batch. The records of a batch are driven concurrently (`seq_join` / `parallel_join`, several OS
threads under `multi-threading`), so the read-modify-write of the `Batch` behind the batcher mutex is only correct under ONE
acquisition of that mutex. `Model/DzkpAtomic.lean` makes a push one atomic step exactly when this plugin finds

 * the body of `DZKPUpgraded::push` to be a single `with_batch` call whose closure calls `batch.push(gate, record_id, segment)` —
   no copy of the batch taken out (`clone`, `mem::take/replace/swap`), no store-back (`*batch = …`), no second `with_batch`;
 * `DZKPUpgraded::with_batch` to lock the batcher ONCE and to run the closure on `&mut state.batch` while the guard is alive;
 * `Batch::push(&mut self, ..)` to update `self.inner` in place (`entry(gate).or_insert_with(..).insert_segment(record_id, segment)`).

(theorems `concurrent_push_eq_sequential`, `code_push_is_atomic`; the split variant is the `decide`d `split_push_loses_record`;
the concrete input comes from suite `c03_race`). Items `dzkp.atomic.*`."""
import re
from extract import read, record, fail

PFX = "dzkp.atomic."
LOCKS = r"\.lock\(\)|\.try_lock\(\)|\.write\(\)|\.read\(\)"
WANT_PUSH = "self.with_batch(record_id, |batch| { batch.push(self.base_ctx.gate().clone(), record_id, segment); });"
WANT_WITH_BATCH = ("let validator_inner = self.validator_inner.upgrade().expect(\"Validator is active\"); "
                   "let mut batcher = validator_inner.batcher.lock().unwrap(); let state = batcher.get_batch(record_id); "
                   "(action)(&mut state.batch)")


def norm(body):
    body = re.sub(r"//[^\n]*", "", body)
    return re.sub(r"\s+", " ", body).strip()


def squash(s):
    return re.sub(r"\s+", "", s)


def block_after(text, start):
    i = text.index("{", start)
    depth, j = 0, i
    while j < len(text):
        if text[j] == "{":
            depth += 1
        elif text[j] == "}":
            depth -= 1
            if depth == 0:
                break
        j += 1
    return text[i + 1:j]


def fn_body(text, sig_re):
    m = re.search(sig_re, text, re.S)
    if not m:
        return None, None
    return m, norm(block_after(text, m.end() - 1))


def extract():
    rel = "protocol/context/dzkp_malicious.rs"
    t = read(rel)
    calls, copies, stores, inside = 0, 0, 0, False
    m, body = fn_body(t, r"pub fn push\(&self, record_id: RecordId, segment: Segment\) \{")
    if not m:
        fail(PFX + "push.single_critical_section", "DZKPUpgraded::push not found")
    else:
        calls = len(re.findall(r"\bwith_batch\s*\(", body))
        copies = len(re.findall(r"\.clone\(\)\s*\)|batch\s*\.clone\(\)|\.to_owned\(\)|mem::(?:take|replace|swap)", body.replace("gate().clone()", "gate()")))
        stores = len(re.findall(r"\*\s*batch\s*=[^=]", body))
        inside = squash(body) == squash(WANT_PUSH)
        record(PFX + "push.single_critical_section", rel, t, m,
               {"with_batch_calls": calls, "batch_copies": copies, "store_backs": stores, "push_inside_closure": inside, "body": body[:200]})
        if calls != 1 or copies != 0 or stores != 0 or not inside:
            fail(PFX + "push.single_critical_section",
                 f"{calls} with_batch calls, {copies} copies of the batch taken out, {stores} store-backs, Batch::push inside the closure = "
                 f"{inside}: fetching, extending and storing the proof batch are no longer one critical section (a concurrently pushed "
                 f"record is lost); body now `{body[:300]}`")
    locks, under = 0, False
    m, body = fn_body(t, r"fn with_batch<C: FnOnce\(&mut Batch\) -> T, T>\(&self, record_id: RecordId, action: C\) -> T \{")
    if not m:
        fail(PFX + "with_batch", "DZKPUpgraded::with_batch not found")
    else:
        locks = len(re.findall(LOCKS, body))
        under = (re.search(r"let mut batcher = [\w.]+\.lock\(\)\.unwrap\(\);", body) is not None and "drop(" not in body
                 and body.endswith("(action)(&mut state.batch)") and re.search(r"let state = batcher\.get_batch\(record_id\);", body) is not None)
        record(PFX + "with_batch", rel, t, m, {"lock_acquisitions": locks, "action_under_guard": under})
        if squash(body) != squash(WANT_WITH_BATCH) or locks != 1 or not under:
            fail(PFX + "with_batch", f"{locks} lock acquisitions / closure under the guard = {under}; body now `{body[:300]}`")
    n_wb = len(re.findall(r"\.with_batch\s*\(", norm(t.split("#[cfg(all(test, unit_test))]")[0])))
    mu = re.search(r"self\.with_batch\(record_id, \|batch\| \{", t)
    if n_wb == 1 and mu:
        record(PFX + "with_batch.users", rel, t, mu, "push is the only caller of with_batch")
    else:
        fail(PFX + "with_batch.users", f"{n_wb} callers of DZKPUpgraded::with_batch (the model knows one: push)")
    rel2 = "protocol/context/dzkp_validator.rs"
    v = read(rel2)
    in_place = False
    m, body = fn_body(v, r"pub\(super\) fn push\(&mut self, gate: Gate, record_id: RecordId, segment: Segment\) \{")
    if not m:
        fail(PFX + "batch_push.in_place", "Batch::push(&mut self, ..) not found")
    else:
        b2 = re.sub(r"#\[cfg\(all\(test, feature = \"ipa-verif\"\)\)\] ipa_verif_hook::c02_note_push\(&gate\);", "", body).strip()
        in_place = squash(b2) == squash("self.inner .entry(gate) .or_insert_with(|| { MultiplicationInputsBatch::new( self.first_record, "
                                        "self.max_multiplications_per_gate, segment.len(), ) }) .insert_segment(record_id, segment);")
        record(PFX + "batch_push.in_place", rel2, v, m, {"in_place": in_place})
        if not in_place:
            fail(PFX + "batch_push.in_place", f"Batch::push no longer updates self.inner in place: `{b2[:300]}`")
    mb = re.search(r"pub\(super\) batcher: Mutex<DzkpBatcher<'a>>,", v)
    if mb and re.search(r"type DzkpBatcher<'a> = Batcher<'a, Batch>;", v):
        record(PFX + "batcher.mutex", rel2, v, mb, "MaliciousDZKPValidatorInner { batcher: Mutex<Batcher<Batch>>, .. }")
    else:
        fail(PFX + "batcher.mutex", "the proof batches are no longer behind ONE Mutex<Batcher<Batch>>")
    b = lambda x: "true" if x else "false"
    lines = [
        "/-! GENERATED by tools/extract.py (tools/extractors/c03_atomic.py) from ipa-core/src/protocol/context/{dzkp_malicious,dzkp_validator}.rs — do not edit. -/",
        "namespace IpaVerif.Generated.DzkpAtomic",
        "",
        "/-- number of `with_batch` calls (= acquisitions of the batcher mutex) in the body of `DZKPUpgraded::push` -/",
        f"def pushWithBatchCalls : Nat := {calls}",
        "/-- copies of the batch taken OUT of the critical section in that body -/",
        f"def pushBatchCopies : Nat := {copies}",
        "/-- assignments `*batch = …` (store-backs) in that body -/",
        f"def pushStoreBacks : Nat := {stores}",
        "/-- the closure handed to the one `with_batch` call is `|batch| { batch.push(gate, record_id, segment); }` -/",
        f"def pushInsideClosure : Bool := {b(inside)}",
        "/-- `DZKPUpgraded::with_batch`: acquisitions of the batcher mutex -/",
        f"def withBatchLockAcquisitions : Nat := {locks}",
        "/-- `DZKPUpgraded::with_batch`: the closure is the tail expression, run on `&mut state.batch` while the guard is alive -/",
        f"def actionUnderGuard : Bool := {b(under)}",
        "/-- `Batch::push(&mut self, ..)` updates `self.inner` in place -/",
        f"def pushInPlace : Bool := {b(in_place)}",
        "",
        "end IpaVerif.Generated.DzkpAtomic",
    ]
    return {"DzkpAtomic.lean": "\n".join(lines) + "\n"}
