"""Translator plugin (C09): masks / shifts of the transpose_8x8 and transpose_16x16 kernels and the list of
impl_transpose_*! invocations (macro, row type, rows, cols) of secret_sharing/vector/transpose.rs."""
import re
from extract import read, record, fail, rust_int

HEX = r"(0x[0-9a-f_]+|0)"


def fn_body(t, name):
    m = re.search(r"pub fn " + name + r"\b[^{]*\{", t)
    if not m:
        return None, None
    depth, i = 1, m.end()
    while depth and i < len(t):
        depth += {"{": 1, "}": -1}.get(t[i], 0)
        i += 1
    return t[m.end():i - 1], m


def extract():
    rel = "secret_sharing/vector/transpose.rs"
    t = read(rel)
    out = {}
    # ---- 8x8 kernel: three delta swaps  x = x & M | ((x & m) << s) | (x >> s) & m
    body, m0 = fn_body(t, "transpose_8x8")
    st8 = []
    if body is None:
        fail("transpose.t8", "transpose_8x8 not found")
    else:
        for m in re.finditer(r"x = x & " + HEX + r"\s*\|\s*\(\(x & " + HEX + r"\) << (\d+)\)\s*\|\s*\(x >> (\d+)\) & " + HEX + ";", body):
            M, m1, s1, s2, m2 = m.groups()
            if rust_int(m1) != rust_int(m2) or s1 != s2:
                fail("transpose.t8", "left and right halves of a delta swap use different mask/shift")
            st8.append((rust_int(M), rust_int(m1), int(s1)))
        record("transpose.t8", rel, t, m0, [[hex(a), hex(b), c] for a, b, c in st8])
        if len(st8) != 3:
            fail("transpose.t8", f"expected 3 delta-swap stages, found {len(st8)}")
        if not re.search(r"let mut x = u64::from_le_bytes\(\*x\.borrow\(\)\);", body) or not re.search(r"x\.to_le_bytes\(\)\s*$", body.strip()):
            fail("transpose.t8", "byte order of transpose_8x8 changed")
    # ---- 16x16 kernel
    body, m0 = fn_body(t, "transpose_16x16")
    k16 = {}
    if body is None:
        fail("transpose.t16", "transpose_16x16 not found")
    else:
        def grab(name, pat):
            m = re.search(pat, body, re.S)
            if not m:
                fail("transpose.t16." + name, "pattern not found")
                return None
            return m
        m = grab("s0", r"let s0 = (\d+);")
        k16["s0"] = int(m.group(1)) if m else 0
        m = grab("s1", r"let s1 = (\d+);")
        k16["s1"] = int(m.group(1)) if m else 0
        m = grab("s2", r"let s2 = (\d+);")
        k16["s2"] = int(m.group(1)) if m else 0
        m = grab("stage0", r"y0\[i\] = x\[i\] & " + HEX + r"\s*\|\s*\(\(x\[i\] & " + HEX + r"\) << s0\)\s*\|\s*\(x\[i\] >> s0\) & " + HEX + ";")
        if m:
            k16["M0"], k16["m0"] = rust_int(m.group(1)), rust_int(m.group(2))
            if rust_int(m.group(2)) != rust_int(m.group(3)):
                fail("transpose.t16.stage0", "masks differ")
        m = grab("stage1", r"y1\[i\] = y0\[i\] & " + HEX + r"\s*\|\s*\(\(y0\[i\] & " + HEX + r"\) << s1\)\s*\|\s*\(y0\[i\] >> s1\) & " + HEX + ";")
        if m:
            k16["M1"], k16["m1"] = rust_int(m.group(1)), rust_int(m.group(2))
            if rust_int(m.group(2)) != rust_int(m.group(3)):
                fail("transpose.t16.stage1", "masks differ")
        m = grab("swp", r"let y1_swp = \[y1\[(\d)\], y1\[(\d)\], y1\[(\d)\], y1\[(\d)\]\];")
        k16["swp"] = [int(x) for x in m.groups()] if m else []
        for nm in ("m2a", "m2b", "m2c"):
            m = grab(nm, r"let " + nm + r" = \[\s*" + HEX + r",\s*" + HEX + r",\s*" + HEX + r",\s*" + HEX + r",?\s*\];")
            k16[nm] = [rust_int(x) for x in m.groups()] if m else []
        grab("stage2", r"y2\[i\] = y1\[i\] & m2a\[i\] \| \(y1_swp\[i\] << s2\) & m2b\[i\] \| \(\(y1_swp\[i\] & m2c\[i\]\) >> s2\);")
        m = grab("stage3lo", r"for i in 0\.\.2 \{\s*y3\[i\] = y2\[i\] & " + HEX + r" \| \(\(y2\[i \+ 2\] & " + HEX + r"\) << (\d+)\);")
        if m:
            k16["L"], k16["s3"] = rust_int(m.group(1)), int(m.group(3))
            if rust_int(m.group(1)) != rust_int(m.group(2)):
                fail("transpose.t16.stage3lo", "masks differ")
        m = grab("stage3hi", r"for i in 0\.\.2 \{\s*y3\[i \+ 2\] = \(\(y2\[i\] & " + HEX + r"\) >> (\d+)\) \| y2\[i \+ 2\] & " + HEX + ";")
        if m:
            k16["H"] = rust_int(m.group(1))
            if rust_int(m.group(1)) != rust_int(m.group(3)) or int(m.group(2)) != k16.get("s3"):
                fail("transpose.t16.stage3hi", "masks/shift differ")
        grab("load", r"array::from_fn\(\|i\| u64::from_le_bytes\(src\[8 \* i\.\.8 \* \(i \+ 1\)\]\.try_into\(\)\.unwrap\(\)\)\)")
        grab("store", r"dst\[8 \* i\.\.8 \* \(i \+ 1\)\]\)\.unwrap\(\) =\s*y3\[i\]\.to_le_bytes\(\);")
        record("transpose.t16", rel, t, m0, {k: ([hex(x) for x in v] if isinstance(v, list) and k != "swp" else (hex(v) if k[0] in "MmLH" else v)) for k, v in k16.items()})
    # ---- tiling drivers: index expressions
    for nm, pat in [
        ("tile8", r"for i in 0\.\.\$src_rows / 8 \{\s*for j in 0\.\.\$src_cols / 8 \{\s*let mut m = \[0u8; 8\];\s*for k in 0\.\.8 \{\s*\$read!\(m, \$src, i, j, k\);\s*\}\s*let m_t = transpose_8x8\(&m\);\s*for k in 0\.\.8 \{\s*\$write!\(\$dst, m_t, j, i, k\);"),
        ("tile8pad", r"for i in 0\.\.\(\$src_rows \+ 7\) / 8 \{\s*for j in 0\.\.\(\$src_cols \+ 7\) / 8 \{\s*let mut m = \[0u8; 8\];\s*for k in 0\.\.8 \{\s*\$read!\(m, \$src, i, j, k, \$pad_value\);\s*\}\s*let m_t = transpose_8x8\(&m\);\s*for k in 0\.\.8 \{\s*\$write!\(\$dst, m_t, j, i, k\);"),
        ("tile16", r"for i in 0\.\.\$src_rows / 16 \{\s*for j in 0\.\.\$src_cols / 16 \{\s*let mut m = \[0u8; 32\];\s*for k in 0\.\.16 \{\s*\$read!\(m, \$src, i, j, k\);\s*\}\s*let m_t = transpose_16x16\(&m\);\s*for k in 0\.\.16 \{\s*\$write!\(\$dst, m_t, j, i, k\);"),
        ("do16", r"for i in 0\.\.rows_div16 \{\s*for j in 0\.\.cols_div16 \{\s*let m = read_src\(i, j\);\s*let m_t = transpose_16x16\(&m\);\s*write_dst\(j, i, m_t\);"),
        ("rw8", r"\$m\[\$k\] = \$src\[8 \* \$i \+ \$k\]\.left_arr\(\)\.as_raw_slice\(\)\[\$j\]"),
        ("rw16", r"\$m\[2 \* \$k\.\.2 \* \(\$k \+ 1\)\]\s*\.copy_from_slice\(&\$src\[16 \* \$i \+ \$k\]\.as_raw_slice\(\)\[2 \* \$j\.\.2 \* \(\$j \+ 1\)\]\)"),
    ]:
        m = re.search(pat, t, re.S)
        if m:
            record("transpose.driver." + nm, rel, t, m, True)
        else:
            fail("transpose.driver." + nm, "loop structure / index expressions changed")
    # ---- impl list
    impls = []
    kern = {"impl_transpose_ba_to_ba": 16, "impl_transpose_shares_bool_to_ba": 16, "impl_transpose_shares_bool_to_ba_small": 8,
            "impl_transpose_shares_ba_to_bool": 16, "impl_transpose_shares_ba_fn_to_bool": 16,
            "impl_transpose_shares_ba_to_bool_small": 0, "impl_aggregation_transpose": 16}
    for m in re.finditer(r"^(impl_transpose_\w+|impl_aggregation_transpose)!\(([^;]*?)\);", t, re.M):
        mac, args = m.group(1), [a.strip() for a in m.group(2).split(",") if a.strip()]
        if mac not in kern:
            fail("transpose.impl." + mac, "unknown transpose macro")
            continue
        nums = [int(a) for a in args if a.isdigit()]
        if len(nums) != 2:
            fail("transpose.impl." + mac, f"cannot parse arguments {args}")
            continue
        rows, cols = nums
        short = mac.replace("impl_transpose_", "").replace("impl_", "").replace("shares_", "")
        impls.append((short, rows, cols, kern[mac]))
        record(f"transpose.impl.{short}.{rows}x{cols}", rel, t, m, {"rows": rows, "cols": cols, "kernel": kern[mac] or "8pad"})
    if len(impls) < 20:
        fail("transpose.impl", f"only {len(impls)} impl_transpose invocations found")

    def w(v):
        return f"0x{v:016x}"
    L = [
        "/-! GENERATED by tools/extract.py (plugin c09_transpose) from secret_sharing/vector/transpose.rs — do not edit. -/",
        "namespace IpaVerif.Generated.Transpose",
        "",
        "/-- `transpose_8x8`: (keep mask, move mask, shift) of each delta swap, in order. -/",
        "def t8Stages : List (Nat × Nat × Nat) := [" + ", ".join(f"({w(a)}, {w(b)}, {c})" for a, b, c in st8) + "]",
        "",
        "/-- `transpose_16x16`. -/",
        f"def t16M0 : Nat := {w(k16.get('M0', 0))}",
        f"def t16m0 : Nat := {w(k16.get('m0', 0))}",
        f"def t16s0 : Nat := {k16.get('s0', 0)}",
        f"def t16M1 : Nat := {w(k16.get('M1', 0))}",
        f"def t16m1 : Nat := {w(k16.get('m1', 0))}",
        f"def t16s1 : Nat := {k16.get('s1', 0)}",
        "def t16Swp : List Nat := [" + ", ".join(str(x) for x in k16.get("swp", [])) + "]",
        "def t16m2a : List Nat := [" + ", ".join(w(x) for x in k16.get("m2a", [])) + "]",
        "def t16m2b : List Nat := [" + ", ".join(w(x) for x in k16.get("m2b", [])) + "]",
        "def t16m2c : List Nat := [" + ", ".join(w(x) for x in k16.get("m2c", [])) + "]",
        f"def t16s2 : Nat := {k16.get('s2', 0)}",
        f"def t16L : Nat := {w(k16.get('L', 0))}",
        f"def t16H : Nat := {w(k16.get('H', 0))}",
        f"def t16s3 : Nat := {k16.get('s3', 0)}",
        "",
        "/-- every `impl_transpose_*!` invocation: (macro, source rows, source columns, kernel size; 0 = padded 8x8). -/",
        "def impls : List (String × Nat × Nat × Nat) := [",
        ",\n".join(f'  ("{a}", {b}, {c}, {d})' for a, b, c, d in impls),
        "]",
        "",
        "end IpaVerif.Generated.Transpose",
    ]
    return {"C09Transpose.lean": "\n".join(L) + "\n"}
