"""Translator plugin (C19): structural facts of reshard_try_stream that the model mirrors
(ipa-core/src/protocol/context/mod.rs). No numeric constants enter the model; the items below make
the check notice when the statement sequence the model transcribes changes."""
import re
from extract import read, record, fail

REL = "protocol/context/mod.rs"

CHECKS = {
    # result assembled as [from shard 0][from shard 1]… : one bucket per shard, pushed by source id, flattened
    "reshard.bucket_per_source": r"r\[usize::from\(shard_id\)\]\.push\(m\);",
    "reshard.flatten_in_shard_order": r"Ok\(r\.into_iter\(\)\.flatten\(\)\.collect\(\)\)",
    # local records are kept under the own index, remote ones sent with a per-destination counter
    "reshard.local_under_own_index": r"if dest_shard == my_shard \{\s*Ok\(Some\(\(\(my_shard, Some\(val\)\), \(input, send_channels, i\)\)\)\)",
    "reshard.per_destination_counter": r"se\.send\(\*record_id, val\)\s*\.await\s*\.map_err\(crate::error::Error::from\)\?;\s*\*record_id \+= 1;",
    # explicit close of every channel at the end of the input
    "reshard.close_all": r"for \(last_record, send_channel\) in send_channels\.values\(\) \{\s*send_channel\.close\(\*last_record\)\.await;",
    # channels are limited to one record ABOVE the size hint, so they never close by record count (a channel
    # closes on its own at its limit): only the explicit close at the end of an error-free input ends them
    "reshard.channel_limit_above_hint": r"let ctx = ctx\.set_total_records\(TotalRecords::specified\(input_len\.saturating_add\(1\)\)\?\);",
    "reshard.no_close_on_error_path": r"\} else \{\s*for \(last_record, send_channel\) in send_channels\.values\(\) \{\s*send_channel\.close\(\*last_record\)\.await;\s*\}\s*Ok\(None\)\s*\}",
    # size-hint guard and error propagation
    "reshard.hint_guard": r"if usize::try_from\(\*i\)\.unwrap\(\) >= input_len \{\s*return Err\(crate::error::Error::RecordIdOutOfRange",
    "reshard.input_error_propagates": r"if let Some\(val\) = input\.try_next\(\)\.await\? \{",
    "reshard.select_merge": r"futures::stream::select\(send_stream, rcv_stream\)",
    "reshard.stream_delegates": r"reshard_try_stream\(ctx, input\.map\(Ok\), shard_picker\)\.await",
    "reshard.iter_delegates": r"reshard_stream\(ctx, stream::iter\(input\.into_iter\(\)\), shard_picker\)\.await",
}


def extract():
    raw = read(REL)
    t = re.sub(r"//[^\n]*", "", raw)
    for name, rx in CHECKS.items():
        m = re.search(rx, t)
        if m:
            first = m.group(0).split("\n")[0].strip()[:30]
            record(name, REL, raw, re.search(re.escape(first), raw) or re.search(r"pub async fn reshard_try_stream", raw), True)
        else:
            fail(name, "expected statement not found in reshard_try_stream (the model transcribes it)")
    # the origin-labelled receive side (`recv_from_shards`) is consumed ONLY by reshard_try_stream, whose assembly is
    # `[from shard 0][from shard 1]…` (items above). A second consumer in non-test code could hand out the records in
    # ARRIVAL order (timing dependent, different on the three helpers) — seed C19h did that for a shard without rows.
    import os
    from extract import SRC
    consumers = []
    for root, _dirs, files in sorted(os.walk(SRC)):
        for fn_ in sorted(files):
            if not fn_.endswith(".rs"):
                continue
            pth = os.path.join(root, fn_)
            with open(pth) as fh:
                src_ = fh.read()
            # non-test part of the file: everything before the first test-only module
            cut = re.search(r"#\[cfg\((?:all\()?test\b[^\]]*\]\s*(?:#\[[^\]]*\]\s*)*(?:pub(?:\([a-z]+\))?\s+)?mod\s+\w+\s*\{", src_)
            body = re.sub(r"//[^\n]*", "", src_[:cut.start()] if cut else src_)
            for m_ in re.finditer(r"\.\s*recv_from_shards\b", body):
                consumers.append((os.path.relpath(pth, SRC), body.count("\n", 0, m_.start()) + 1))
    own = re.search(r"pub async fn reshard_try_stream<.*?\n\}\n", t, re.S)
    inside = bool(own and re.search(r"\.\s*recv_from_shards\b", own.group(0)))
    if len(consumers) == 1 and consumers[0][0] == REL and inside:
        record("reshard.sole_consumer_of_recv_from_shards", REL, raw, re.search(r"\.recv_from_shards::<K>\(\)", raw) or re.search(r"recv_from_shards", raw), 1)
    else:
        fail("reshard.sole_consumer_of_recv_from_shards",
             "recv_from_shards is consumed outside reshard_try_stream (non-test code): " + ", ".join(f"{a}:{b}" for a, b in consumers)
             + " - records received there are not assembled in origin order by the modelled function")
    return {}
