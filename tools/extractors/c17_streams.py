"""Translator plugin (C17): constants and structural facts of the byte-stream parsers that the Lean
model `IpaVerif.Model.Streams` transcribes."""
import re
from extract import read, record, fail, rust_int


def need(name, rel, text, pattern, value=None, flags=re.S):
    m = re.search(pattern, text, flags)
    if not m:
        fail(name, f"pattern not found in {rel}: {pattern[:90]}")
        return None
    record(name, rel, text, m, value if value is not None else re.sub(r"\s+", " ", m.group(0))[:200])
    return m


def extract():
    rel = "helpers/transport/stream/input.rs"
    t = read(rel)
    hdr = None
    m = re.search(r"impl Serializable for Length \{\s*type Size = U(\d+);", t)
    if m:
        hdr = int(m.group(1))
        record("stream.length_header_size", rel, t, m, hdr)
    else:
        fail("stream.length_header_size", "impl Serializable for Length { type Size = U<n> } not found")
    need("stream.length_le", rel, t, r"Ok\(Self\(u16::from_le_bytes\(<\[u8; 2\]>::from\(\*buf\)\)\)\)")
    need("stream.read_bytes_guard", rel, t, r"if len == 0 \|\| self\.buffered_size < len \{\s*None")
    need("stream.read_bytes_fast", rel, t, r"\} else if self\.buffered\[0\]\.len\(\) >= len \{\s*self\.buffered_size -= len;\s*let res = self\.buffered\[0\]\.split_to\(len\);\s*if self\.buffered\[0\]\.is_empty\(\) \{\s*self\.buffered\.pop_front\(\);")
    need("stream.read_bytes_loop", rel, t, r"if self\.buffered\[0\]\.len\(\) > remaining_bytes \{\s*let remaining = self\.buffered\[0\]\.split_to\(remaining_bytes\);\s*out_bytes\.extend_from_slice\(&remaining\);\s*\} else \{.*?out_bytes\.extend_from_slice\(&self\.buffered\.pop_front\(\)\.unwrap\(\)\);")
    need("stream.extend_trailing", rel, t, r"None if self\.buffered_size > 0 => ExtendResult::Error\(io::Error::new\(\s*io::ErrorKind::WriteZero,\s*format!\(\"stream terminated with \{\} extra bytes\", self\.buffered_size\),")
    need("stream.extend_push", rel, t, r"Some\(Ok\(bytes\)\) => \{\s*self\.buffered_size \+= bytes\.len\(\);\s*self\.buffered\.push_back\(bytes\);")
    need("stream.batch_count", rel, t, r"let count = max\(1, buf\.contiguous_len\(\) / T::Size::USIZE\);\s*buf\.read_multi\(count\)")
    need("stream.single_read", rel, t, r"impl Mode for Single \{.*?buf\.try_read\(\)")
    need("stream.records_poll", rel, t, r"if let Some\(v\) = M::read_from\(this\.buffer\) \{\s*return Poll::Ready\(Some\(v\.map_err.*?match this\.buffer\.extend\(polled_item\) \{\s*ExtendResult::Finished => return Poll::Ready\(None\),\s*ExtendResult::Error\(err\) => return Poll::Ready\(Some\(Err\(err\.into\(\)\)\)\),\s*ExtendResult::Ok => \(\),")
    need("stream.ld_header", rel, t, r"if this\.pending_len\.is_none\(\) \{\s*if let Some\(len\) = this\.buffer\.read_infallible::<Length>\(\)\.map\(Into::into\) \{\s*\*this\.pending_len = Some\(len\);\s*consumed_len \+= <Length as Serializable>::Size::USIZE;")
    need("stream.ld_zero_len", rel, t, r"let bytes = if len == 0 \{\s*Some\(Bytes::from\(&\[\] as &\[u8\]\)\)\s*\} else \{\s*this\.buffer\.read_bytes\(len\)\s*\};")
    need("stream.ld_continue", rel, t, r"items\.push\(item\);\s*if available_len != 0 && consumed_len < available_len \{\s*continue;")
    need("stream.ld_return_items", rel, t, r"if !items\.is_empty\(\) \{.*?return Poll::Ready\(Some\(Ok\(items\)\)\);")
    need("stream.ld_finish", rel, t, r"ExtendResult::Finished if this\.pending_len\.is_some\(\) => \{.*?<Length as Serializable>::Size::USIZE.*?ExtendResult::Finished => return Poll::Ready\(None\),\s*ExtendResult::Error\(err\) => return Poll::Ready\(Some\(Err\(err\)\)\),\s*ExtendResult::Ok if available_len == 0 => \{\s*available_len = this\.buffer\.contiguous_len\(\);")

    rel = "helpers/transport/stream/buffered.rs"
    b = read(rel)
    need("stream.buffered_emit", rel, b, r"if this\.buffer\.len\(\) >= \*this\.sz \{.*?let next = if this\.buffer\.len\(\) > \*this\.sz \{\s*this\.buffer\.drain\(\.\.\*this\.sz\)\.collect\(\)\s*\} else \{\s*take_next\(this\.buffer\)\s*\};")
    need("stream.buffered_end", rel, b, r"Poll::Ready\(None\) => \{.*?let next = if this\.buffer\.is_empty\(\) \{\s*None\s*\} else \{\s*Some\(Ok\(Bytes::from\(take_next\(this\.buffer\)\)\)\)")
    need("stream.buffered_err", rel, b, r"Err\(e\) => \{\s*break Poll::Ready\(Some\(Err\(e\)\)\);")

    rel = "helpers/stream/chunks.rs"
    c = read(rel)
    need("chunks.slice_full", rel, c, r"let whole_chunks = this\.slice\.len\(\) / N;\s*if \*this\.pos < whole_chunks \{")
    need("chunks.slice_partial", rel, c, r"\} else if \*this\.pos == whole_chunks && \*this\.remainder_len != 0 \{.*?last_chunk\.resize_with\(N, T::default\);.*?ChunkType::Partial\(remainder_len\),")
    need("chunks.slice_remainder", rel, c, r"remainder_len: slice\.len\(\) % N,")
    need("chunks.unpack_expected", rel, c, r"\(len, Expected::Range\(len\.div_ceil\(M\)\.\.=\(N / M\)\)\)\s*\} else \{\s*\(N, Expected::Exactly\(N / M\)\)")
    need("chunks.unpack_walk", rel, c, r"if len == 0 \{\s*None\s*\} else if len >= M \{\s*len -= M;.*?chunk_type: ChunkType::Full,.*?chunk_type: ChunkType::Partial\(mem::replace\(&mut len, 0\)\),")
    need("chunks.into_iter", rel, c, r"ChunkType::Full => N,\s*ChunkType::Partial\(len\) => len,\s*\};\s*self\.data\.into_iter\(\)\.take\(len\)")
    need("chunks.stream_full", rel, c, r"this\.buffer\.push\(item\);\s*if this\.buffer\.len\(\) == N \{\s*break \(this\.buffer\.take\(\), ChunkType::Full\);")
    need("chunks.stream_err", rel, c, r"Some\(Err\(e\)\) => \{\s*\*this\.terminated = true;\s*return Poll::Ready\(Some\(MaybeFuture::value\(Err\(e\)\)\)\);")
    need("chunks.stream_partial", rel, c, r"None if this\.buffer\.len\(\) != 0 => \{.*?this\.buffer\.resize_with\(N, T::default\);\s*break \(this\.buffer\.take\(\), ChunkType::Partial\(remainder_len\)\);")
    need("chunks.flatten_err", rel, c, r"Poll::Ready\(Some\(Err\(e\)\)\) => \{.*?\*this\.finished = true;\s*return Poll::Ready\(Some\(Err\(e\)\)\);")

    rel = "helpers/stream/exact.rs"
    e = read(rel)
    need("chunks.fixed_length", rel, e, r"\*this\.len = \(\*this\.len\)\.wrapping_sub\(1\);.*?debug_assert_eq!\(\s*\*this\.len, 0,")

    # primes of the two real record types used by the suite
    rel = "ff/prime_field.rs"
    p = read(rel)
    primes = {}
    for m in re.finditer(r"field_impl!\s*\{\s*(\w+)\s*,\s*(\w+)\s*,\s*(\w+)\s*,\s*(\d+)\s*,\s*([\d_]+)\s*\}", p):
        primes[m.group(1)] = rust_int(m.group(5))
        if m.group(1) in ("Fp31", "Fp32BitPrime"):
            record("stream.prime_" + m.group(1), rel, p, m, primes[m.group(1)])
    for w in ("Fp31", "Fp32BitPrime"):
        if w not in primes:
            fail("stream.prime_" + w, "field_impl! not found")

    lines = [
        "/-! GENERATED by tools/extract.py from ipa-core/src/helpers/transport/stream/input.rs and ff/prime_field.rs — do not edit. -/",
        "namespace IpaVerif.Generated",
        "",
        "/-- `<Length as Serializable>::Size` of `LengthDelimitedStream`. -/",
        f"def lengthHeaderSize : Nat := {hdr if hdr is not None else 0}",
        f"def c17Fp31Prime : Nat := {primes.get('Fp31', 0)}",
        f"def c17Fp32Prime : Nat := {primes.get('Fp32BitPrime', 0)}",
        "",
        "end IpaVerif.Generated",
    ]
    return {"StreamConsts.lean": "\n".join(lines) + "\n"}
