"""Translator plugin (C09): sizes of the composite wire types (proof / hash arrays, ProofDiff, UniqueTag,
PrfHybridReport) and the Share types / field order of the shuffle packing."""
import re
from extract import read, record, fail


def extract():
    vals = {}

    def need(item, rel, pat, conv=int, flags=0):
        t = read(rel)
        m = re.search(pat, t, flags)
        if not m:
            fail(item, "pattern not found: " + pat[:70])
            return None
        v = conv(m.group(1)) if m.groups() else True
        record(item, rel, t, m, v)
        return v

    vals["maxRec"] = need("wire.max_proof_recursion", "protocol/context/dzkp_validator.rs", r"pub const MAX_PROOF_RECURSION: usize = (\d+);")
    vals["proofLen"] = need("wire.small_proof_length", "protocol/ipa_prf/malicious_security/prover.rs",
                            r"pub type SmallProofGenerator = ProofGenerator<Fp61BitPrime, \d+, (\d+), \d+>;")
    need("wire.first_is_small", "protocol/ipa_prf/malicious_security/mod.rs", r"pub type FirstProofGenerator = prover::SmallProofGenerator;", conv=None)
    need("wire.compressed_is_small", "protocol/ipa_prf/malicious_security/mod.rs", r"pub type CompressedProofGenerator = prover::SmallProofGenerator;", conv=None)
    need("wire.array_len", "protocol/ipa_prf/validation_protocol/proof_generation.rs",
         r"const ARRAY_LEN: usize = FirstProofGenerator::PROOF_LENGTH\s*\+ \(MAX_PROOF_RECURSION - 1\) \* CompressedProofGenerator::PROOF_LENGTH;", conv=None)
    need("wire.box_array", "protocol/ipa_prf/validation_protocol/proof_generation.rs",
         r"impl Serializable for Box<Array> \{\s*type Size = <U<ARRAY_LEN> as Mul<U8>>::Output;.*?\.map\(\|buf\| Fp61BitPrime::deserialize\(buf\.try_into\(\)\.unwrap\(\)\)\)\s*\.collect::<Result<Vec<_>, _>>\(\)\?", conv=None, flags=re.S)
    vals["hashArrBytes"] = need("wire.hash_array_size", "protocol/ipa_prf/validation_protocol/validation.rs",
                                r"impl Serializable for \[Hash; MAX_PROOF_RECURSION\] \{\s*type Size = U(\d+);")
    vals["proofDiffBytes"] = need("wire.proof_diff_size", "protocol/ipa_prf/validation_protocol/validation.rs",
                                  r"impl Serializable for ProofDiff \{\s*type Size = U(\d+);")
    need("wire.proof_diff_len", "protocol/ipa_prf/validation_protocol/validation.rs", r"type ProofDiff = \[Fp61BitPrime; MAX_PROOF_RECURSION \+ 1\];", conv=None)
    vals["tagBytes"] = need("wire.unique_tag_size", "report/hybrid.rs", r"impl Serializable for UniqueTag \{\s*type Size = U(\d+);")
    vals["prfBytes"] = need("wire.prf_report_size", "report/hybrid.rs", r"impl Serializable for PrfHybridReport<BA8, BA3> \{\s*type Size = U(\d+);")
    vals["prfMk"] = need("wire.prf_mk_size", "report/hybrid.rs", r"const PRF_MK_SZ: usize = (\d+);")
    need("wire.prf_layout", "report/hybrid.rs",
         r"buf\[\.\.Self::PRF_MK_SZ\]\.copy_from_slice\(&self\.match_key\.to_le_bytes\(\)\);\s*self\.value\.serialize\(GenericArray::from_mut_slice\(\s*&mut buf\[Self::PRF_MK_SZ\.\.Self::PRF_MK_SZ \+ Self::V_SZ\],\s*\)\);\s*self\.breakdown_key\.serialize", conv=None)
    vals["hybShare"] = need("wire.hybrid_share", "report/hybrid.rs",
                            r"impl<BK, V> Shuffleable for IndistinguishableHybridReport<BK, V>\s*where.*?type Share = BA(\d+);", flags=re.S)
    vals["aggShare"] = need("wire.aggregateable_share", "report/hybrid.rs",
                            r"impl<BK, V> Shuffleable for IndistinguishableHybridReport<BK, V, \(\)>\s*where.*?type Share = BA(\d+);", flags=re.S)
    need("wire.join_order_hybrid", "report/hybrid.rs",
         r"BooleanArrayWriter::new\(&mut share\)\s*\.write\(&match_key\)\s*\.write\(&value\)\s*\.write\(&breakdown_key\);", conv=None)
    need("wire.join_order_agg", "report/hybrid.rs",
         r"BooleanArrayWriter::new\(&mut share\)\s*\.write\(&value\)\s*\.write\(&breakdown_key\);", conv=None)
    need("wire.split_order_hybrid", "report/hybrid.rs",
         r"let \(match_key, bits\) = bits\.read\(\);\s*let \(value, bits\) = bits\.read\(\);\s*let \(breakdown_key, _\) = bits\.read\(\);", conv=None)
    need("wire.writer", "ff/boolean_array.rs",
         r"let len = usize::try_from\(T::BITS\)\.unwrap\(\);\s*self\.0\[\.\.len\]\.copy_from_bitslice\(data\.as_bitslice\(\)\);\s*Self\(&mut self\.0\[len\.\.\]\)", conv=None)
    need("wire.reader", "ff/boolean_array.rs",
         r"let len = usize::try_from\(T::BITS\)\.unwrap\(\);\s*let result = T::try_from\(&self\.0\[\.\.len\]\)\.unwrap\(\);\s*\(result, Self\(self\.0\.get\(len\.\.\)\.unwrap\(\)\)\)", conv=None)
    need("wire.conv_info_layout", "report/hybrid_info.rs",
         r"r\.extend_from_slice\(self\.conversion_site_domain\.as_bytes\(\)\);\s*r\.push\(0\);\s*r\.push\(self\.key_id\);\s*r\.extend_from_slice\(&self\.timestamp\.to_be_bytes\(\)\);\s*r\.extend_from_slice\(&self\.epsilon\.to_be_bytes\(\)\);\s*r\.extend_from_slice\(&self\.sensitivity\.to_be_bytes\(\)\);\s*debug_assert_eq!\(\s*r\.len\(\),\s*info_len,\s*\"Serilization", conv=None)
    need("wire.vec_to_bytes", "query/executor.rs",
         r"let mut r = vec!\[0u8; self\.len\(\) \* T::Size::USIZE\];\s*for \(i, row\) in self\.iter\(\)\.enumerate\(\) \{\s*row\.serialize\(GenericArray::from_mut_slice\(\s*&mut r\[\(i \* T::Size::USIZE\)\.\.\(\(i \+ 1\) \* T::Size::USIZE\)\],", conv=None)
    # C09-JSON-F64 (fixed): serde_json parses an f64 exactly only with its `float_roundtrip` feature; QueryConfig
    # (PrepareQuery JSON, RouteParams::extra of the in-memory transport) carries HybridQueryParams.epsilon: f64
    need("wire.serde_json_float_roundtrip", "../Cargo.toml",
         r"^serde_json = \{[^}\n]*features = \[[^\]\n]*\"float_roundtrip\"[^\]\n]*\][^}\n]*\}", conv=None, flags=re.M)
    v = {k: (x if isinstance(x, int) else 0) for k, x in vals.items()}
    arr_len = v["proofLen"] + (v["maxRec"] - 1) * v["proofLen"]
    L = [
        "/-! GENERATED by tools/extract.py (plugin c09_wire) — do not edit. -/",
        "namespace IpaVerif.Generated.Wire",
        "",
        f"def maxProofRecursion : Nat := {v['maxRec']}",
        f"def smallProofLength : Nat := {v['proofLen']}",
        "/-- `ARRAY_LEN` of `Box<Array>` (first + compressed proofs, zero-filled) -/",
        f"def proofArrayLen : Nat := {arr_len}",
        f"def hashArrayBytes : Nat := {v['hashArrBytes']}",
        f"def proofDiffBytes : Nat := {v['proofDiffBytes']}",
        f"def uniqueTagBytes : Nat := {v['tagBytes']}",
        f"def prfReportBytes : Nat := {v['prfBytes']}",
        f"def prfMatchKeyBytes : Nat := {v['prfMk']}",
        "/-- bits of `<IndistinguishableHybridReport<BK, V> as Shuffleable>::Share` and of the `MK = ()` variant -/",
        f"def hybridShareBits : Nat := {v['hybShare']}",
        f"def aggShareBits : Nat := {v['aggShare']}",
        "",
        "end IpaVerif.Generated.Wire",
    ]
    return {"C09Wire.lean": "\n".join(L) + "\n"}
