"""Translator plugin (C11): the constants and statement shapes of duplicate-report detection
(report/hybrid.rs, query/runner/hybrid.rs) that the model mirrors."""
import re
from extract import read, record, fail


def extract():
    rel = "report/hybrid.rs"
    raw = read(rel)
    t = re.sub(r"//[^\n]*", "", raw)
    tag_size = None
    m = re.search(r"type TagSize = U(\d+);", t)
    if m:
        tag_size = int(m.group(1))
        record("dedup.tag_size", rel, raw, re.search(r"type TagSize = U\d+;", raw), tag_size)
    else:
        m = re.search(r"const_assert_eq!\((\d+), TAG_SIZE\);", t)
        if m:
            tag_size = int(m.group(1))
            record("dedup.tag_size", rel, raw, re.search(r"const_assert_eq!\(\d+, TAG_SIZE\);", raw), tag_size)
        else:
            fail("dedup.tag_size", "neither `type TagSize = U<n>` nor const_assert_eq!(n, TAG_SIZE) found")
    checks = {
        "dedup.tag_is_ciphertext_prefix": r"let slice = &self\.mk_ciphertext\(\)\[0\.\.TAG_SIZE\];",
        "dedup.picker_le_mod": r"let num = u128::from_le_bytes\(self\.bytes\);\s*let shard_count = u128::from\(shard_count\);\s*ShardIndex::try_from\(num % shard_count\)",
        "dedup.counter_then_insert": r"self\.check_counter \+= 1;\s*if self\.insert\(item\.unique_bytes\(\)\) \{\s*Ok\(\(\)\)\s*\} else \{\s*Err\(Error::DuplicateBytes\(self\.check_counter\)\)",
        "dedup.batch_stops_at_first": r"\.try_for_each\(\|item\| self\.check_duplicate\(item\)\)\?;",
    }
    for name, rx in checks.items():
        mm = re.search(rx, t)
        if mm:
            first = mm.group(0).split("\n")[0].strip()[:30]
            record(name, rel, raw, re.search(re.escape(first), raw), True)
        else:
            fail(name, "expected statement not found in report/hybrid.rs (the model transcribes it)")
    rel2 = "query/runner/hybrid.rs"
    raw2 = read(rel2)
    t2 = re.sub(r"//[^\n]*", "", raw2)
    order = [r"reshard_aad\(", r"\|ctx, _, tag\| tag\.shard_picker\(ctx\.shard_count\(\)\)", r"UniqueTagValidator::new\(resharded_tags\.len\(\)\)",
             r"\.check_duplicates\(&resharded_tags\)\?;", r"hybrid_protocol::<"]
    pos, ok = 0, True
    for rx in order:
        mm = re.compile(rx).search(t2, pos)
        if not mm:
            ok = False
            fail("dedup.check_before_protocol", f"`{rx}` not found (in this order) in Query::execute")
            break
        pos = mm.end()
    if ok:
        record("dedup.check_before_protocol", rel2, raw2, re.search(r"check_duplicates\(&resharded_tags\)", raw2), True)
    # (b17, seed C11d) the validator step of Query::execute is UNCONDITIONAL: `check_duplicates(&resharded_tags)?` is a
    # statement of the function body itself (not inside any `if` / `match` arm / closure / loop), it is applied to the
    # second component of the `reshard_aad` result with a validator created on the line before, and nothing stands
    # between the `reshard_aad(..).await?` statement and it.
    nesting, guards, argument, between, applies = None, [], "", "", False
    mf = re.search(r"pub async fn execute\(", t2)
    mc = re.compile(r"(\w+)\s*\.check_duplicates\(&(\w+)\)\?;").search(t2, mf.end() if mf else 0)
    if not mf or not mc:
        fail("dedup.check_unconditional", "`pub async fn execute(` or `.check_duplicates(&…)?;` not found in query/runner/hybrid.rs")
    else:
        body_open = t2.index("{", t2.index("-> Result<Vec<Replicated<HV>>, Error>", mf.end()))
        stack, last = [], body_open + 1
        for i in range(body_open + 1, mc.start()):
            c = t2[i]
            if c == "{":
                stack.append(re.sub(r"\s+", " ", t2[last:i]).strip())
                last = i + 1
            elif c == "}":
                if not stack:
                    fail("dedup.check_unconditional", "`check_duplicates` is no longer inside Query::execute")
                    break
                stack.pop()
                last = i + 1
            elif c == ";":
                last = i + 1
        nesting, guards, argument = len(stack), stack, mc.group(2)
        validator = mc.group(1)
        ma = re.search(r"let \((\w+), (\w+)\) = reshard_aad\(.*?\)\s*\.await\?;", t2[mf.end():mc.start()], re.S)
        if not ma:
            fail("dedup.check_unconditional", "`let (reports, tags) = reshard_aad(..).await?;` not found before the validator step")
        else:
            between = re.sub(r"\s+", " ", t2[mf.end() + ma.end():mc.end()]).strip()
            applies = argument == ma.group(2)
            want = f"let mut {validator} = UniqueTagValidator::new({ma.group(2)}.len()); {validator}.check_duplicates(&{ma.group(2)})?;"
            if nesting != 0:
                fail("dedup.check_unconditional", f"`check_duplicates` is nested in {guards}: the validator step of Query::execute must not be conditional")
            elif argument != ma.group(2):
                fail("dedup.check_unconditional", f"`check_duplicates` is applied to `{argument}`, not to the tags returned by reshard_aad (`{ma.group(2)}`)")
            elif between != want:
                fail("dedup.check_unconditional", f"between `reshard_aad(..).await?;` and the validator step the code now reads `{between[:160]}` (modelled: `{want}`)")
            else:
                record("dedup.check_unconditional", rel2, raw2, re.search(r"check_duplicates\(&" + argument + r"\)\?;", raw2),
                       {"nesting": 0, "argument": "second component of the reshard_aad result", "statements": between})
    if tag_size is None:
        return {}
    def q(x):
        return '"' + x.replace("\\", "\\\\").replace('"', '\\"') + '"'
    L = ["/-! GENERATED by tools/extract.py (plugin c11_dedup) from ipa-core/src/report/hybrid.rs and",
         "ipa-core/src/query/runner/hybrid.rs — do not edit. -/",
         "namespace IpaVerif.Generated.Dedup", "",
         "/-- `TAG_SIZE`: number of ciphertext bytes used as the uniqueness tag -/",
         f"def tagSize : Nat := {tag_size}", "",
         "/-- headers of the blocks of `Query::execute` that enclose the statement `….check_duplicates(&resharded_tags)?;`",
         "(`if …`, `match …`, closures, loops); empty = the statement belongs to the function body itself -/",
         "def checkGuards : List String := [" + ", ".join(q(g) for g in guards) + "]", "",
         "/-- is the argument of `check_duplicates` the tag list returned by `reshard_aad` (its second component)? -/",
         f"def checkAppliesToReshardedTags : Bool := {'true' if applies else 'false'}", "",
         "end IpaVerif.Generated.Dedup"]
    return {"Dedup.lean": "\n".join(L) + "\n"}
