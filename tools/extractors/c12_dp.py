"""Translator plugin for C12: caps, defaults, MAX_EPSILON and the literal checks of the DP constructors."""
import re, struct
from extract import read, record, fail, rust_int


def fbits(x):
    return struct.unpack("<Q", struct.pack("<d", float(x)))[0]


def expect(name, rel, text, pattern, value=None, flags=re.S):
    m = re.search(pattern, text, flags)
    if not m:
        fail(name, f"pattern not found in {rel}")
        return None
    record(name, rel, text, m, value if value is not None else re.sub(r"\s+", " ", m.group(0))[:200])
    return m


def extract():
    rel = "protocol/dp/mod.rs"
    t = read(rel)
    max_eps = 0.0
    m = expect("c12.MAX_EPSILON", rel, t, r"const MAX_EPSILON: f64 = ([\d\._]+);")
    if m:
        max_eps = float(m.group(1).replace("_", ""))
        record("c12.MAX_EPSILON", rel, t, m, max_eps)
    m = expect("c12.MAX_PROBABILITY", rel, t, r"const MAX_PROBABILITY: f64 = ([\d\._]+);")
    max_p = float(m.group(1)) if m else 0.0
    if m and max_p != 1.0:
        fail("c12.MAX_PROBABILITY", f"model assumes 1.0, found {max_p}")
    # NoiseParams::default
    dflt = {}
    m = re.search(r"impl Default for NoiseParams \{.*?Self \{(.*?)\}\s*\}\s*\}", t, re.S)
    if m:
        for k, v in re.findall(r"(\w+): ([\de\.\-]+),", m.group(1)):
            dflt[k] = float(v)
        record("c12.noise_defaults", rel, t, m, dflt)
    else:
        fail("c12.noise_defaults", "Default for NoiseParams not found")
    for k in ("epsilon", "delta"):
        if k not in dflt:
            fail("c12.noise_defaults", f"default {k} missing")
    # NoiseParams::new checks, in order
    m = re.search(r"pub fn new\(\s*epsilon: f64,.*?\) -> Result<NoiseParams, String> \{(.*?)Ok\(NoiseParams \{", t, re.S)
    if m:
        checks = re.findall(r"if (.*?) \{\s*return Err\(\"(.*?)\"\.to_string\(\)\);", m.group(1), re.S)
        checks = [(re.sub(r"\s+", " ", c), msg) for c, msg in checks]
        record("c12.noise_checks", rel, t, m, checks)
        # after the fix F13 the seven range checks are written `!(x > 0.0)` (NaN is rejected); the model uses `!(A.lt A.zero x)`
        want = [("!(epsilon > 0.0)", "epsilon must be > 0.0"), ("!(delta > 0.0)", "delta must be > 0.0"),
                ("!(0.0..=MAX_PROBABILITY).contains(&success_prob)", "success_prob must be between 0 and 1"),
                ("!(dimensions > 0.0)", "dimensions must be > 0.0"), ("!(quantization_scale > 0.0)", "quantization_scale must be > 0.0"),
                ("!(ell_1_sensitivity > 0.0)", "ell_1_sensitivity must be > 0.0"), ("!(ell_2_sensitivity > 0.0)", "ell_2_sensitivity must be > 0.0"),
                ("!(ell_infty_sensitivity > 0.0)", "ell_infty_sensitivity must be > 0.0")]
        if checks != want:
            diff = [c for c in checks if c not in want] or checks
            fail("c12.noise_checks", f"NoiseParams::new checks differ from the model: {diff[:2]}")
    else:
        fail("c12.noise_checks", "NoiseParams::new not found")
    expect("c12.binomial_eps_range", rel, t, r"if epsilon <= 0\.0 \|\| epsilon > MAX_EPSILON \{\s*return Err\(EpsilonOutOfBounds\);")
    expect("c12.laplace.modulus", rel, t, r"assert!\(bit_size <= 32\);.*?let modulus = 1_u64 << bit_size;")
    expect("c12.laplace.symmetric", rel, t, r"let symmetric_sample = u64::from\(sample\.wrapping_sub\(self\.shift\)\) % self\.modulus;")
    expect("c12.laplace.placement", rel, t,
           r"Direction::Left => \{\s*Replicated::new\(OV::ZERO, OV::truncate_from\(u128::from\(symmetric_sample\)\)\)\s*\}\s*Direction::Right => \{\s*Replicated::new\(OV::truncate_from\(u128::from\(symmetric_sample\)\), OV::ZERO\)")
    expect("c12.laplace.three_passes", rel, t, r"LaplacePass1\),\s*histogram_bin_values,\s*Role::H1,.*?LaplacePass2\),\s*noised_output,\s*Role::H2,.*?LaplacePass3\),\s*noised_output,\s*Role::H3,")
    expect("c12.laplace.rng_by_direction", rel, t,
           r"let \(mut left, mut right\) = ctx\.prss_rng\(\);\s*let rng = match direction_to_excluded_helper \{\s*Direction::Left => &mut right,\s*Direction::Right => &mut left,\s*\};")
    expect("c12.laplace.per_bucket_draw", rel, t,
           r"std::array::from_fn\(\|_i\| \{\s*shifted_truncated_discrete_laplace\.sample_shares\(rng, direction_to_excluded_helper\)\s*\}\)")
    expect("c12.laplace.add_noise", rel, t,
           r"let \(histogram_noised, _\) = integer_add::<_, ThirtyTwoBitStep, B>\(\s*apply_noise_ctx,\s*RecordId::FIRST,\s*&noise_shares_vectorized,\s*&histogram_bin_values,\s*\)")
    expect("c12.laplace.params", rel, t,
           r"DpMechanism::DiscreteLaplace \{ epsilon \} => \{\s*let noise_params = NoiseParams \{\s*epsilon,\s*per_user_credit_cap: 2_u32\.pow\(u32::try_from\(SS_BITS\)\.unwrap\(\)\),\s*\.\.Default::default\(\)\s*\};")
    expect("c12.laplace.excluded_zero", rel, t, r"std::array::from_fn\(\|_i\| Replicated::new\(OV::ZERO, OV::ZERO\)\)")

    rel = "protocol/ipa_prf/oprf_padding/insecure.rs"
    t = read(rel)
    caps = []
    m = expect("c12.cap.sensitivity", rel, t, r"if new_sensitivity > ([\d_]+) \{\s*return Err\(Error::BadSensitivity")
    if m:
        caps.append(rust_int(m.group(1)))
    m = expect("c12.cap.search", rel, t, r"const MAX_SHIFT: u32 = ([\d_]+);")
    if m:
        caps.append(rust_int(m.group(1)))
    expect("c12.search.loop", rel, t, r"for n in big_delta\.\.=MAX_SHIFT \{\s*if small_delta >= right_hand_side\(n, big_delta, epsilon\) \{\s*return n;\s*\}\s*\}\s*MAX_SHIFT \+ 1")
    expect("c12.rhs", rel, t,
           r"let r = E\.powf\(-epsilon\);\s*let a = \(1\.0 - r\) / \(1\.0 \+ r - 2\.0 \* \(pow_u32\(r, n \+ 1\)\)\);\s*let mut result = 0\.0;\s*for k in n - big_delta \+ 1\.\.=n \{\s*result \+= pow_u32\(r, k\);\s*\}\s*a \* result")
    expect("c12.oprf.range", rel, t,
           r"pub fn new\(new_epsilon: f64, new_delta: f64, new_sensitivity: u32\).*?if new_epsilon < f64::MIN_POSITIVE \{\s*return Err\(Error::BadEpsilon\(new_epsilon\)\);\s*\}\s*if !\(f64::MIN_POSITIVE\.\.=1\.0 - f64::MIN_POSITIVE\)\.contains\(&new_delta\) \{\s*return Err\(Error::BadDelta\(new_delta\)\);")
    expect("c12.oprf.tdg_call", rel, t, r"TruncatedDoubleGeometric::new\(\s*1\.0 / new_epsilon,\s*smallest_n,\s*\)\?")
    rel = "protocol/ipa_prf/oprf_padding/distributions.rs"
    t = read(rel)
    for m in re.finditer(r"if shift > ([\d_]+) \{\s*return Err\(Error::(\w+)\(shift\)\);", t):
        caps.append(rust_int(m.group(1)))
        record("c12.cap." + m.group(2) + "@" + str(m.start()), rel, t, m, rust_int(m.group(1)))
    if len(caps) != 4:
        fail("c12.cap", f"expected four 1M caps (sensitivity, search bound, two shift checks), found {caps}")
    elif len(set(caps)) != 1:
        fail("c12.cap", f"caps differ: {caps} (the model uses one cap)")
    expect("c12.geometric.loop", rel, t, r"let mut attempts = 0;\s*while !self\.bernoulli\.sample\(rng\) \{\s*attempts \+= 1;\s*\}\s*attempts")
    expect("c12.tdg.reject", rel, t, r"let s = self\.double_geometric\.sample\(rng\);\s*if s >= 0 && s <= \(self\.shift_doubled\)\.try_into\(\)\.unwrap\(\) \{\s*return s\.try_into\(\)\.unwrap\(\);")
    expect("c12.dg.prob", rel, t, r"let success_probability = 1\.0 - E\.powf\(-1\.0 / s\);")

    rel = "protocol/ipa_prf/oprf_padding/mod.rs"
    t = read(rel)
    # ---- dummy rows (Model/Padding.lean)
    expect("c12.pad.pass_order", rel, t,
           r"PaddingDpStep::PaddingDpPass1\),\s*input,\s*Role::H3,.*?PaddingDpStep::PaddingDpPass2\),\s*input,\s*Role::H2,.*?PaddingDpStep::PaddingDpPass3\),\s*input,\s*Role::H1,")
    expect("c12.pad.rng_by_direction", rel, t,
           r"let \(mut left, mut right\) = ctx\.prss_rng\(\);\s*let rng = match direction_to_excluded_helper \{\s*Direction::Left => &mut right,\s*Direction::Right => &mut left,\s*\};\s*let total_number_of_fake_rows = T::add_padding_items")
    expect("c12.pad.oprf.loop", rel, t,
           r"for cardinality in 1\.\.=matchkey_cardinality_cap \{\s*let sample = oprf_padding\.sample\(rng\);\s*total_number_of_fake_rows \+= sample \* cardinality;")
    expect("c12.pad.oprf.groups", rel, t,
           r"repeat_with\(\|\| \{\s*let dummy_mk: BA64 = rng\.r#gen\(\);\s*std::iter::repeat_n\(\s*IndistinguishableHybridReport::from\(\s*AdditiveShare::new_excluding_direction\(\s*dummy_mk,\s*direction_to_excluded_helper,\s*\),\s*\),\s*cardinality as usize,\s*\)\s*\}\)(?:\s*//[^\n]*)*\s*\.take\(sample as usize\)\s*\.flatten\(\)")
    expect("c12.pad.agg.loop", rel, t,
           r"for breakdownkey in 0\.\.num_breakdowns \{\s*let sample = aggregation_padding\.sample\(rng\);\s*total_number_of_fake_rows \+= sample;")
    expect("c12.pad.agg.row", rel, t,
           r"Direction::Left => AdditiveShare::new\(\s*BK::ZERO,\s*BK::truncate_from\(u128::from\(breakdownkey\)\),\s*\),\s*Direction::Right => AdditiveShare::new\(\s*BK::truncate_from\(u128::from\(breakdownkey\)\),\s*BK::ZERO,\s*\),\s*\};\s*let row = IndistinguishableHybridReport::<BK, V, \(\)> \{\s*match_key: \(\),\s*value: AdditiveShare::new\(V::ZERO, V::ZERO\),\s*breakdown_key: breakdownkey_shares,")
    expect("c12.pad.excluded_zero_rows", rel, t,
           r"if from_right != from_left \{\s*return Err::<Vec<T>, error::Error>\(Error::InconsistentPadding\);\s*\}\s*total_number_of_fake_rows = u32::try_from\(from_right\.as_u128\(\)\)\.unwrap\(\);\s*T::add_zero_shares\(&mut padding_input_rows, total_number_of_fake_rows\);")
    expect("c12.pad.count_sent", rel, t,
           r"send_ctx\.send_channel::<BA32>\(send_ctx\.role\(\)\.peer\(direction_to_excluded_helper\)\);\s*send_channel\s*\.send\(\s*RecordId::FIRST,\s*BA32::truncate_from\(u128::from\(total_number_of_fake_rows\)\),")
    rel2 = "secret_sharing/replicated/mod.rs"
    t2 = read(rel2)
    expect("c12.pad.new_excluding_direction", rel2, t2,
           r"fn new_excluding_direction\(v: V, direction: Direction\) -> Self \{\s*match direction \{\s*Direction::Left => Self::new\(V::ZERO, v\),\s*Direction::Right => Self::new\(v, V::ZERO\),")
    rel2 = "report/hybrid.rs"
    t2 = read(rel2)
    expect("c12.pad.report_from_match_key", rel2, t2,
           r"fn from\(match_key: Replicated<BA64>\) -> Self \{\s*Self \{\s*match_key,\s*value: Replicated::<V>::ZERO,\s*breakdown_key: Replicated::<BK>::ZERO,")
    rel2 = "ff/boolean_array.rs"
    t2 = read(rel2)
    expect("c12.pad.ba_from_u128", rel2, t2,
           r"fn sample<R: crate::rand::Rng \+ \?Sized>\(&self, rng: &mut R\) -> \$name \{\s*<\$name>::from_random_u128\(rng\.r#gen::<u128>\(\)\)")
    pads = {}
    for k in ("aggregation_epsilon", "aggregation_delta", "aggregation_padding_sensitivity", "oprf_epsilon", "oprf_delta", "matchkey_cardinality_cap", "oprf_padding_sensitivity"):
        vals = re.findall(k + r": ([\de\.\-]+),", t)
        pads[k] = [float(v) for v in vals[:2]]
    m = re.search(r"impl Default for AggregationPadding", t)
    if m:
        record("c12.padding_defaults", rel, t, m, pads)
    else:
        fail("c12.padding_defaults", "Default for AggregationPadding not found")

    # the instantiation production runs (suites c12_noise_e2e / c12_dummies include exactly this shape)
    rel = "query/runner/hybrid.rs"
    t = read(rel)
    m = expect("c12.production.hybrid_protocol", rel, t, r"hybrid_protocol::<_, BA8, BA3, HV, 3, 256>\(")
    m = expect("c12.production.hv", rel, t, r"Query::<_, BA32, R>::new\(ipa_config, key_registry\)")
    rel = "protocol/hybrid/mod.rs"
    t = read(rel)
    expect("c12.production.padding_call", rel, t, r"apply_dp_padding::<_, IndistinguishableHybridReport<BK, V>, B>\(")
    expect("c12.production.noise_call", rel, t, r"dp_for_histogram::<_, B, HV, SS_BITS>\(ctx, finalized_histogram\.values, dp_params\)")
    rel = "protocol/hybrid/breakdown_reveal.rs"
    t = read(rel)
    expect("c12.production.agg_padding_call", rel, t, r"apply_dp_padding::<_, AggregateableHybridReport<BK, V>, B>\(")

    cap = caps[0] if caps else 0
    lines = [
        "/-! GENERATED by tools/extract.py (plugin c12_dp) — do not edit. -/",
        "namespace IpaVerif.Generated.C12",
        "",
        "/-- the 1M cap on sensitivity / shift / search (`insecure.rs`, `distributions.rs`) -/",
        f"def cap : Nat := {cap}",
        f"/-- bit pattern of `MAX_EPSILON` = {max_eps} -/",
        f"def maxEpsilonBits : Nat := {fbits(max_eps)}",
        f"/-- `NoiseParams::default()`: epsilon = {dflt.get('epsilon')}, delta = {dflt.get('delta')} (bit patterns) -/",
        f"def defaultEpsilonBits : Nat := {fbits(dflt.get('epsilon', 0))}",
        f"def defaultDeltaBits : Nat := {fbits(dflt.get('delta', 0))}",
        "",
        "end IpaVerif.Generated.C12",
    ]
    return {"C12Consts.lean": "\n".join(lines) + "\n"}
