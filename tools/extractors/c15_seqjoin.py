"""Translator plugin (C15): structural facts of seq_join/{mod,local}.rs that the Lean model
`IpaVerif.Model.SeqJoin` transcribes."""
import re
from extract import read, record, fail


def need(name, rel, text, pattern, value=None, flags=re.S):
    m = re.search(pattern, text, flags)
    if not m:
        fail(name, f"pattern not found in {rel}: {pattern[:90]}")
        return None
    record(name, rel, text, m, value if value is not None else re.sub(r"\s+", " ", m.group(0))[:200])
    return m


def extract():
    rel = "seq_join/local.rs"
    t = read(rel)
    need("seqjoin.capacity", rel, t, r"active: VecDeque::with_capacity\(active\.get\(\)\),")
    need("seqjoin.fused_source", rel, t, r"source: source\.fuse\(\),")
    body = need("seqjoin.poll_next", rel, t, r"fn poll_next\(self: Pin<&mut Self>, cx: &mut Context<'_>\) -> Poll<Option<Self::Item>> \{.*?\n    \}\n", "found")
    if body:
        s = body.group(0)
        marks = [
            ("refill", r"while this\.active\.len\(\) < this\.active\.capacity\(\) \{\s*if let Poll::Ready\(Some\(f\)\) = this\.source\.as_mut\(\)\.poll_next\(cx\) \{\s*this\.active\s*\.push_back\(ActiveItem::Pending\(Box::pin\(f\.into_future\(\)\)\)\);"),
            ("refill_break", r"\} else \{\s*break;\s*\}"),
            ("front", r"if let Some\(item\) = this\.active\.front_mut\(\) \{\s*if item\.check_ready\(cx\) \{\s*let v = this\.active\.pop_front\(\)\.map\(ActiveItem::take\);\s*Poll::Ready\(v\)"),
            ("poll_rest", r"\} else \{\s*for f in this\.active\.iter_mut\(\)\.skip\(1\) \{\s*f\.check_ready\(cx\);\s*\}\s*Poll::Pending"),
            ("done", r"\} else if this\.source\.is_done\(\) \{.*?Poll::Ready\(None\)\s*\} else \{\s*Poll::Pending"),
        ]
        pos = -1
        for name, pat in marks:
            m = re.search(pat, s, re.S)
            if not m:
                fail("seqjoin.step." + name, "statement not found in SequentialFutures::poll_next")
                continue
            if m.start() < pos:
                fail("seqjoin.step." + name, "statements of poll_next are no longer in the modelled order")
            pos = m.start()
            record("seqjoin.step." + name, rel, s, m, "present, in order")
    need("seqjoin.check_ready", rel, t, r"let ActiveItem::Pending\(f\) = self else \{\s*return true;\s*\};\s*if let Poll::Ready\(v\) = Future::poll\(Pin::as_mut\(f\), cx\) \{\s*\*self = ActiveItem::Resolved\(v\);\s*true\s*\} else \{\s*false")
    rel = "seq_join/mod.rs"
    m = read(rel)
    need("seqjoin.try_join_all", rel, m, r"seq_join\(active, iter\(source\)\)\.try_collect\(\)")
    # the whole body of seq_try_join_all is the single expression (no statement consulting size_hint before it)
    need("seqjoin.try_join_all_body", rel, m, r"E: Send \+ 'static,\s*\{\s*seq_join\(active, iter\(source\)\)\.try_collect\(\)\s*\}")
    need("seqjoin.try_join_forwards_active_work", rel, m, r"E: Send \+ 'static,\s*\{\s*seq_try_join_all\(self\.active_work\(\), iterable\)\s*\}")
    need("seqjoin.parallel_join", rel, m, r"#\[cfg\(not\(feature = \"multi-threading\"\)\)\]\s*fn parallel_join<I>\(&self, iterable: I\) -> futures::future::TryJoinAll<I::Item>.*?futures::future::try_join_all\(iterable\)")
    need("seqjoin.local_selected", rel, m, r"#\[cfg\(not\(feature = \"multi-threading\"\)\)\]\s*pub use local::SequentialFutures;")
    rel = "protocol/context/dzkp_validator.rs"
    d = read(rel)
    need("seqjoin.validated_seq_join", rel, d, r"let ctx = self\.context\(\);\s*seq_join\(\s*ctx\.active_work\(\),\s*source\.enumerate\(\)\.map\(move \|\(index, fut\)\| \{.*?ctx\.validate_record\(RecordId::from\(index\)\)\.await\?;")
    rel = "protocol/context/dzkp_malicious.rs"
    z = read(rel)
    need("seqjoin.active_work_equals_batch", rel, z, r"let active_work = if records_per_batch == 1 \|\| records_per_batch == usize::MAX \{.*?base_ctx\.active_work\(\)\s*\} else \{.*?let active_work = NonZeroUsize::new\(records_per_batch\)\.unwrap\(\);")
    return {}
