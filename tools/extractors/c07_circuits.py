"""Translator plugin for C07: constants and literal formulas the circuit/share models transcribe.

 * GF(2^k) value types (`bit_array_impl!` in ff/galois_field.rs): bits and POLYNOMIAL
 * the cross-term formula of `multiplication_protocol` (basics/mul/semi_honest.rs)
 * the one-multiplication bit adder / subtractor formulas (boolean_ops/*_sequential.rs)
 * `aggregate_values`: AdditionStep and its bit width; share conversion: BITS and the cleared mask bits
 * supported vectorisation widths of `Boolean` (secret_sharing/vector/impls.rs)
"""
import re
from extract import read, record, fail, rust_int


def squash(s):
    return re.sub(r"\s+", "", s)


def expect(name, rel, text, pattern, value=None, flags=re.S):
    m = re.search(pattern, text, flags)
    if not m:
        fail(name, f"pattern not found in {rel}")
        return None
    record(name, rel, text, m, value if value is not None else squash(m.group(0))[:200])
    return m


def extract():
    out = []
    # ---- binary fields
    rel = "ff/galois_field.rs"
    t = read(rel)
    gfs = []
    for m in re.finditer(r"bit_array_impl!\(\s*\w+,\s*(\w+),\s*\w+,\s*(\d+),\s*bitarr!\([^)]*\),\s*(?://[^\n]*\n\s*)*(0b[01_]+)_u128", t):
        name, bits, poly = m.group(1), int(m.group(2)), rust_int(m.group(3))
        gfs.append((name, bits, poly))
        record("c07.gf." + name, rel, t, m, {"bits": bits, "poly": poly})
    have = {g[0] for g in gfs}
    for want in ("Gf2", "Gf3Bit", "Gf8Bit", "Gf9Bit", "Gf20Bit", "Gf32Bit", "Gf40Bit"):
        if want not in have:
            fail("c07.gf." + want, "bit_array_impl! invocation not found")
    for name, bits, poly in gfs:
        if poly.bit_length() != bits + 1:
            fail("c07.gf." + name, f"POLYNOMIAL has degree {poly.bit_length() - 1}, expected {bits}")
    expect("c07.gf.reduce_loop", rel, t,
           r"let mut product = clmul\(self, rhs\);\s*for i in \(0\.\.\(Self::BITS - 1\)\)\.into_iter\(\)\.rev\(\) \{\s*let b = product >> \(Self::BITS \+ i\);\s*product \^= \(<Self as GaloisField>::POLYNOMIAL \* b\) << i;\s*\}")

    # ---- multiplication protocol
    rel = "protocol/basics/mul/semi_honest.rs"
    t = read(rel)
    expect("c07.mul.z_left", rel, t,
           r"let z_left = a\.left_arr\(\)\.clone\(\) \* b\.left_arr\(\)\s*\+ a\.left_arr\(\)\.clone\(\) \* b\.right_arr\(\)\s*\+ a\.right_arr\(\)\.clone\(\) \* b\.left_arr\(\)\s*\+ prss_left\s*- prss_right;")
    expect("c07.mul.send_left_recv_right", rel, t,
           r"send_channel::<<F as Vectorizable<N>>::Array>\(role\.peer\(Direction::Left\)\)\s*\.send\(record_id, &z_left\).*?recv_channel\(role\.peer\(Direction::Right\)\)\s*\.receive\(record_id\).*?Ok\(Replicated::new_arr\(z_left, z_right\)\)")
    rel = "protocol/basics/mul/dzkp_malicious.rs"
    t = read(rel)
    expect("c07.mul.dzkp_same_protocol", rel, t,
           r"let z = multiplication_protocol\(&ctx, record_id, a, b, &prss_left, &prss_right\)\.await\?;")

    # ---- adder / subtractor
    rel = "protocol/ipa_prf/boolean_ops/addition_sequential.rs"
    t = read(rel)
    expect("c07.adder.sum", rel, t, r"let output = x \+ y \+ &\*carry;")
    expect("c07.adder.carry", rel, t,
           r"\*carry = &\*carry\s*\+ \(x \+ &\*carry\)\s*\.multiply\(&\(y \+ &\*carry\), ctx, record_id\)\s*\.await\?;")
    expect("c07.adder.loop", rel, t,
           r"for \(i, \(xb, yb\)\) in x\.zip\(y\.chain\(repeat\(&AdditiveShare::ZERO\)\)\)\.enumerate\(\) \{\s*result\.push\(bit_adder\(ctx\.narrow\(&S::from\(i\)\), record_id, xb, yb, carry\)\.await\?\);")
    expect("c07.adder.saturate", rel, t,
           r"bool_or::<_, S, _, N>\(\s*ctx\.narrow::<Step>\(&Step::Select\),\s*record_id,\s*&result,\s*repeat_n\(&carry, x\.len\(\)\),\s*\)")
    rel = "protocol/ipa_prf/boolean_ops/comparison_and_subtraction_sequential.rs"
    t = read(rel)
    expect("c07.sub.diff", rel, t, r"let output = x \+ !\(y \+ &\*carry\);")
    expect("c07.sub.carry", rel, t,
           r"\*carry = &\*carry\s*\+ \(x \+ &\*carry\)\s*\.multiply\(&\(!\(y \+ &\*carry\)\), ctx, record_id\)\s*\.await\?;")
    expect("c07.sub.loop", rel, t,
           r"for \(i, \(xb, yb\)\) in x\s*\.zip\(y\.chain\(repeat\(&AdditiveShare::<Boolean, N>::ZERO\)\)\)\s*\.enumerate\(\)\s*\{\s*result\.push\(bit_subtractor\(ctx\.narrow\(&S::from\(i\)\), record_id, xb, yb, carry\)\.await\?\);")
    carries = {}
    for fn, want in (("compare_geq", "one"), ("compare_gt", "zero"), ("integer_sub", "one"), ("integer_sat_sub", "notzero")):
        m = re.search(r"pub async fn " + fn + r"<.*?\n\}\n", t, re.S)
        if not m:
            fail("c07.sub.carry_in." + fn, "function not found")
            continue
        body = m.group(0)
        if "share_known_value(&ctx, Boolean::ONE)" in body:
            got = "one"
        elif "let mut carry = !AdditiveShare::<Boolean>::ZERO;" in body:
            got = "notzero"
        elif "let mut carry = AdditiveShare::<Boolean, N>::ZERO;" in body:
            got = "zero"
        else:
            got = "?"
        carries[fn] = got
        record("c07.sub.carry_in." + fn, rel, t, m, got)
        if got != want:
            fail("c07.sub.carry_in." + fn, f"carry-in is {got}, the model uses {want}")
    expect("c07.sub.sat_select", rel, t, r"select\(\s*ctx\.narrow::<Step>\(&Step::Select\),\s*record_id,\s*&carry,\s*&result,\s*&AdditiveShare::<S>::ZERO,\s*\)")

    rel = "protocol/basics/if_else.rs"
    t = read(rel)
    expect("c07.select.formula", rel, t,
           r"boolean_array_multiply::<_, B>\(ctx, record_id, &condition, &\(true_value - &false_value\)\)\s*\.await\?;\s*Ok\(\(false_value \+ &product\)\.into\(\)\)")
    rel = "protocol/boolean/or.rs"
    t = read(rel)
    expect("c07.or.formula", rel, t, r"let ab = a\.multiply\(b, ctx, record_id\)\.await\?;\s*Ok\(-ab \+ a \+ b\)")

    # ---- integer_mul
    rel = "protocol/ipa_prf/boolean_ops/multiplication.rs"
    t = read(rel)
    expect("c07.mulint.sign_extend", rel, t, r"let new_len = x\.len\(\) \+ y\.len\(\);\s*let mut y = y\.clone\(\);\s*y\.resize\(new_len, y\[y\.len\(\) - 1\]\.clone\(\)\);")
    expect("c07.mulint.row", rel, t, r"x\.iter\(\)\.take\(new_len - i\)\.enumerate\(\)")
    # the carry-append guard the invariant of `mul_value` depends on (accumulator has min(n+i+1, L) bits after bit i)
    expect("c07.mulint.carry_guard", rel, t,
           r"if result\.len\(\) < new_len \{\s*(?://[^\n]*\n\s*)*result\.push\(carry\);\s*\}\s*\}\s*\}\s*Ok\(result\)")
    expect("c07.mulint.first_row", rel, t, r"if i == 0 \{\s*result = t;\s*\} else \{")
    expect("c07.mulint.loop", rel, t, r"for \(i, yb\) in y\.into_iter\(\)\.enumerate\(\) \{")
    expect("c07.mulint.accumulate", rel, t,
           r"let add_y = BitDecomposed::new\(result\.clone\(\)\.into_iter\(\)\.skip\(i\)\);.*?&t,\s*&add_y,.*?result = BitDecomposed::new\(result\.into_iter\(\)\.take\(i\)\.chain\(add_result\.into_iter\(\)\)\);\s*if result\.len\(\) < new_len \{")

    # ---- aggregation
    rel = "protocol/ipa_prf/aggregation/mod.rs"
    t = read(rel)
    agg_bits = 0
    m = expect("c07.agg.addition_step", rel, t, r"type AdditionStep = (\w+);")
    if m:
        step = m.group(1)
        t2 = read("protocol/boolean/mod.rs")
        m2 = re.search(r"impl NBitStep for " + step + r" \{\s*const BITS: u32 = (\d+);", t2)
        if m2:
            agg_bits = int(m2.group(1))
            record("c07.agg.addition_step_bits", "protocol/boolean/mod.rs", t2, m2, agg_bits)
        else:
            fail("c07.agg.addition_step_bits", f"NBitStep impl for {step} not found")
    expect("c07.agg.carry_growth", rel, t, r"if a\.len\(\) < usize::try_from\(OV::BITS\)\.unwrap\(\) \{.*?integer_add::<_, AdditionStep, B>\(.*?sum\.push\(carry\);\s*Ok\(sum\)\s*\} else \{\s*integer_sat_add::<C, AdditionStep, B>\(")
    # the whole pair arm of the tree reduction, statement by statement (Model/Circuits.lean `aggPair`): operand
    # order, the carry-keeping guard `a.len() < OV::BITS`, the UNCONDITIONAL `sum.push(carry)`, saturating add otherwise
    m = re.search(r"Ok\(mut chunk_pair\) => \{(.*?)\n {28}\}\n {24}\}\n {20}\}", t, re.S)
    want_arm = ("assert_eq!(chunk_pair.len(),2);letb=chunk_pair.pop().unwrap();leta=chunk_pair.pop().unwrap();"
                "ifa.len()<usize::try_from(OV::BITS).unwrap(){let(mutsum,carry)=integer_add::<_,AdditionStep,B>("
                "ctx.narrow(&AggregateValuesStep::Add),record_id,&a,&b,).await?;sum.push(carry);Ok(sum)}else{"
                "integer_sat_add::<C,AdditionStep,B>(ctx.narrow(&AggregateValuesStep::SaturatingAdd),record_id,&a,&b,).await}")
    if not m:
        fail("c07.agg.pair_arm", f"the `Ok(mut chunk_pair)` arm of aggregate_values not found in {rel}")
    else:
        got = squash(re.sub(r"//[^\n]*", "", m.group(1)))
        record("c07.agg.pair_arm", rel, t, m, got[:200])
        if got != want_arm:
            fail("c07.agg.pair_arm", f"pair arm of aggregate_values changed: now `{got[:400]}`; the Lean model aggPair mirrors `{want_arm}`")
    expect("c07.agg.passthrough", rel, t, r"Ok\(mut chunk_vec\) if chunk_vec\.len\(\) == 1 => \{\s*Ok\(chunk_vec\.pop\(\)\.unwrap\(\)\)")
    expect("c07.agg.final_resize", rel, t, r"result\.resize\(\s*usize::try_from\(OV::BITS\)\.unwrap\(\),\s*Replicated::<Boolean, B>::ZERO,\s*\);")

    # ---- share conversion
    rel = "protocol/ipa_prf/boolean_ops/share_conversion_aby.rs"
    t = read(rel)
    conv_bits = 0
    m = expect("c07.conv.bits", rel, t, r"const BITS: usize = (\d+);")
    if m:
        conv_bits = int(m.group(1))
        record("c07.conv.bits", rel, t, m, conv_bits)
    expect("c07.conv.mask_top_bits", rel, t, r"r\[BITS - 1\] = AdditiveShare::<Boolean, N>::ZERO;\s*r\[BITS - 2\] = AdditiveShare::<Boolean, N>::ZERO;")
    expect("c07.conv.clear_rs_top", rel, t, r"rs_with_higherorderbits\[BITS - 1\] = AdditiveShare::<Boolean, NC>::ZERO;")
    # conv_value: operand order of the two additions, who learns y, and which component every helper outputs
    expect("c07.conv.add_masks", rel, t,
           r"integer_add::<_, TwoHundredFiftySixBitOpStep, NC>\(\s*ctx\.narrow\(&Step::IntegerAddBetweenMasks\),\s*record_id,\s*&sh_r,\s*&sh_s,\s*\)")
    expect("c07.conv.add_x", rel, t,
           r"let \(sh_y, _\) = integer_add::<_, TwoHundredFiftySixBitOpStep, NC>\(\s*ctx\.narrow\(&Step::IntegerAddMaskToX\),\s*record_id,\s*&sh_rs,\s*&input_shares,\s*\)")
    expect("c07.conv.reveal_excludes_h3", rel, t,
           r"validated_partial_reveal\(ctx\.narrow\(&Step::RevealY\), record_id, Role::H3, &sh_y\)\.await\?;")
    expect("c07.conv.prss_len", rel, t, r"ctx\.prss\(\)\.generate_with\(record_id, BITS\);")
    Z = r"<Boolean as Vectorizable<N>>::Array::ZERO_ARRAY"
    L = r"r\.get\(i\)\.unwrap\(\)\.left_arr\(\)\.clone\(\)"
    Rr = r"r\.get\(i\)\.unwrap\(\)\.right_arr\(\)\.clone\(\)"
    def arm(role, r_l, r_r, s_l, s_r):
        return (r"Role::" + role + r" => \{\s*for i in 0\.\.BITS \{\s*sh_r\.push\(AdditiveShare::new_arr\(\s*" + r_l + r",\s*" + r_r
                + r",\s*\)\);\s*sh_s\.push\(AdditiveShare::new_arr\(\s*" + s_l + r",\s*" + s_r + r",\s*\)\);\s*\}\s*\}")
    expect("c07.conv.masks.H1", rel, t, arm("H1", Z, Z, L, Z))
    expect("c07.conv.masks.H2", rel, t, arm("H2", Z, Rr, Z, Z))
    expect("c07.conv.masks.H3", rel, t, arm("H3", L, Z, Z, Rr))
    expect("c07.conv.out.H1", rel, t,
           r"Role::H1 => sh_s\s*\.chunks\(NP\)\s*\.zip\(y\.expect\(\"y was revealed to H1\"\)\.chunks\(NP\)\)\s*\.map\(\|\(sh_s, y\)\| \{\s*\(\s*sh_s\.iter\(\)\s*\.map\(\|sh_s\| Fp25519::from\(sh_s\.left\(\)\)\.neg\(\)\)\s*\.collect\(\),\s*y\.iter\(\)\.map\(\|&y\| Fp25519::from\(y\)\)\.collect\(\),")
    expect("c07.conv.out.H2", rel, t,
           r"Role::H2 => y\s*\.expect\(\"y was revealed to H1\"\)\s*\.chunks\(NP\)\s*\.zip\(sh_r\.chunks\(NP\)\)\s*\.map\(\|\(y, sh_r\)\| \{\s*\(\s*y\.iter\(\)\.map\(\|&y\| Fp25519::from\(y\)\)\.collect\(\),\s*sh_r\.iter\(\)\s*\.map\(\|sh_r\| Fp25519::from\(sh_r\.right\(\)\)\.neg\(\)\)\s*\.collect\(\),")
    expect("c07.conv.out.H3", rel, t,
           r"Role::H3 => sh_r\s*\.chunks\(NP\)\s*\.zip\(sh_s\.chunks\(NP\)\)\s*\.map\(\|\(sh_r, sh_s\)\| \{\s*\(\s*sh_r\.iter\(\)\s*\.map\(\|sh_r\| Fp25519::from\(sh_r\.left\(\)\)\.neg\(\)\)\s*\.collect\(\),\s*sh_s\.iter\(\)\s*\.map\(\|sh_s\| Fp25519::from\(sh_s\.right\(\)\)\.neg\(\)\)\s*\.collect\(\),")
    rel2 = "protocol/basics/reveal.rs"
    t2 = read(rel2)
    expect("c07.reveal.semi_honest", rel2, t2,
           r"ctx\.send_channel::<<V as Vectorizable<N>>::Array>\(ctx\.role\(\)\.peer\(Direction::Right\)\)\s*\.send\(record_id, left\).*?\.recv_channel\(ctx\.role\(\)\.peer\(Direction::Left\)\)\s*\.receive\(record_id\)\s*\.await\?;\s*Ok\(Some\(share \+ left \+ right\)\)")
    expect("c07.reveal.malicious_compare", rel2, t2,
           r"if share_from_left == share_from_right \{\s*Ok\(Some\(share_from_left \+ left \+ right\)\)\s*\} else \{\s*Err\(Error::MaliciousRevealFailed\)")
    rel2 = "ff/ec_prime_field.rs"
    t2 = read(rel2)
    expect("c07.conv.from_ba256_reduces", rel2, t2,
           r"impl From<BA256> for Fp25519 \{\s*fn from\(s: BA256\) -> Self \{.*?s\.serialize\(&mut buf\);\s*(?://[^\n]*\n\s*)*Fp25519::deserialize_infallible\(&buf\)")
    m = expect("c07.conv.max_input_bits", rel, t, r"debug_assert!\(input_shares\.iter\(\)\.count\(\) < \(BITS - (\d+)\)\);")
    conv_slack = int(m.group(1)) if m else 0

    # ---- eval_dy_prf
    rel = "protocol/ipa_prf/prf_eval.rs"
    t = read(rel)
    expect("c07.prf.y_is_x_plus_k", rel, t, r"let y = \(x \+ key\.expand\(\)\)\s*\.upgrade\(ctx\.narrow\(&Step::UpgradeY\), record_id\)")
    expect("c07.prf.mask_from_prss", rel, t,
           r"let r: AdditiveShare<Fp25519, N> = ctx\.narrow\(&Step::GenRandomMask\)\.prss\(\)\.generate\(record_id\);.*?let sh_gr = AdditiveShare::<RP25519, N>::from\(r\.clone\(\)\);")
    expect("c07.prf.z_is_y_times_r", rel, t,
           r"let y = y\s*\.multiply\(&r, ctx\.narrow\(&Step::MultMaskWithPRFInput\), record_id\)")
    expect("c07.prf.reveals", rel, t,
           r"reveal\(ctx\.narrow\(&Step::RevealR\), record_id, &sh_gr\),\s*reveal\(ctx\.narrow\(&Step::Revealz\), record_id, &y\),")
    expect("c07.prf.output", rel, t,
           r"let inv_z = crate::ff::ec_prime_field::batch_invert::<N>\(&z\);\s*Ok\(zip\(gr, inv_z\)\s*\.map\(\|\(gr, inv_z\)\| u64::from\(gr \* inv_z\)\)")
    expect("c07.prf.point_share_from_scalar", rel, t, r"value\.transform\(RP25519::from\)")
    rel = "ff/ec_prime_field.rs"
    t = read(rel)
    expect("c07.prf.batch_invert_is_dalek", rel, t, r"Scalar::batch_invert\(&mut inverted\);")
    expect("c07.prf.invert_asserts_nonzero", rel, t, r"pub fn invert\(&self\) -> Fp25519 \{\s*assert_ne!\(\*self, Fp25519::ZERO\);")
    rel = "ff/curve_points.rs"
    t = read(rel)
    expect("c07.prf.point_from_scalar", rel, t, r"impl From<Fp25519> for RP25519 \{\s*fn from\(s: Fp25519\) -> Self \{\s*Self\(\(RistrettoPoint::mul_base\(&s\.into\(\)\)\)\.into\(\)\)")
    expect("c07.prf.point_to_u64", rel, t,
           r"let hk = Hkdf::<Sha256>::new\(None, s\.0\.as_point\(\)\.compress\(\)\.as_bytes\(\)\);\s*let mut okm = <\$u_type>::MIN\.to_le_bytes\(\);.*?hk\.expand\(&\[\], &mut okm\)\.unwrap\(\);\s*<\$u_type>::from_le_bytes\(okm\)")

    # ---- vectorisation widths
    rel = "secret_sharing/vector/impls.rs"
    t = read(rel)
    widths = sorted(int(m.group(1)) for m in re.finditer(r"boolean_vector!\(\w+, (\d+), BA\d+\);", t))
    m = re.search(r"boolean_vector!\(\w+, \d+, BA\d+\);", t)
    if m:
        record("c07.vec.boolean_widths", rel, t, m, widths)
    else:
        fail("c07.vec.boolean_widths", "no boolean_vector! invocation")

    lines = [
        "/-! GENERATED by tools/extract.py (plugin c07_circuits) — do not edit. -/",
        "namespace IpaVerif.Generated.C07",
        "",
        "/-- `(name, BITS, POLYNOMIAL)` of every `bit_array_impl!` value type in ff/galois_field.rs -/",
        "def gfFields : List (String × Nat × Nat) := [" + ", ".join(f'("{n}", {b}, {p})' for n, b, p in gfs) + "]",
        f"/-- `AdditionStep::BITS` of `aggregate_values` (OV::BITS must not exceed it) -/",
        f"def aggStepBits : Nat := {agg_bits}",
        f"/-- `BITS` of `convert_to_fp25519` and the slack asserted on the input width (`|x| < BITS − slack`) -/",
        f"def convBits : Nat := {conv_bits}",
        f"def convSlack : Nat := {conv_slack}",
        "/-- vectorisation widths of `Boolean` (`boolean_vector!`) -/",
        "def booleanWidths : List Nat := [" + ", ".join(str(w) for w in widths) + "]",
        "",
        "end IpaVerif.Generated.C07",
    ]
    return {"C07Consts.lean": "\n".join(lines) + "\n"}
