"""Translator plugin (C16, validator wrappers): pins the bodies of the thin wrappers around `Batcher`
that `IpaVerif.Model.Validators` transcribes — `MaliciousDZKPValidator::{new, set_total_records,
validate_indexed, is_verified, drop}`, `DZKPValidator::validate`, `DZKPUpgraded::{new, validate_record}`,
`BatchValidator::new`, `Upgraded::{new, validate_record}` — statement by statement, so that an added early
return, a dropped forward or a different source of the initial total breaks an obligation."""
import re
from extract import read, record, fail


def norm(s):
    return re.sub(r"\s+", " ", s).strip()


def body_of(name, rel, text, header_pat):
    """text of the fn whose header matches header_pat, up to the closing brace at its indentation."""
    m = re.search(header_pat, text)
    if not m:
        fail(name, f"function header not found in {rel}: {header_pat[:70]}")
        return None, None
    line_start = text.rfind("\n", 0, m.start()) + 1
    indent = re.match(r"[ \t]*", text[line_start:]).group(0)
    end = re.search(r"\n" + indent + r"\}\n", text[m.end():])
    if not end:
        fail(name, "end of function not found")
        return None, None
    return m, text[m.start(): m.end() + end.end()]


def pin(name, rel, text, header_pat, expected):
    """the whole function body (whitespace-normalised, comments removed) must equal `expected`."""
    m, body = body_of(name, rel, text, header_pat)
    if body is None:
        return
    code = re.sub(r"//[^\n]*", "", body)
    got = norm(code)
    if got != norm(expected):
        fail(name, f"body of the wrapper changed in {rel}; found: {got[:400]}")
        return
    record(name, rel, text, m, "as modelled")


def extract():
    rel = "protocol/context/dzkp_validator.rs"
    t = read(rel)
    impl = re.search(r"impl<'a, B: ShardBinding> DZKPValidator for MaliciousDZKPValidator<'a, B> \{.*?\n\}\n", t, re.S)
    if not impl:
        fail("validators.dzkp.impl", "impl DZKPValidator for MaliciousDZKPValidator not found")
        impl_text = ""
    else:
        impl_text = impl.group(0)
        record("validators.dzkp.impl", rel, t, impl, "found")
    pin("validators.dzkp.set_total_records", rel, impl_text,
        r"fn set_total_records<T: Into<TotalRecords>>\(&mut self, total_records: T\) \{",
        """fn set_total_records<T: Into<TotalRecords>>(&mut self, total_records: T) {
            self.inner_ref .as_ref() .expect("validator should be active") .batcher .lock() .unwrap()
            .set_total_records(total_records); }""")
    pin("validators.dzkp.validate_indexed", rel, impl_text,
        r"async fn validate_indexed\(mut self, batch_index: usize\) -> Result<\(\), Error> \{",
        """async fn validate_indexed(mut self, batch_index: usize) -> Result<(), Error> {
            let arc = self .inner_ref .take() .expect("nothing else should be consuming the batcher");
            let MaliciousDZKPValidatorInner { batcher: batcher_mutex, validate_ctx, } = Arc::into_inner(arc)
            .expect("validator should hold the only strong reference to batcher");
            let batcher = batcher_mutex.into_inner().unwrap();
            batcher .into_single_batch() .validate(validate_ctx, batch_index) .await }""")
    pin("validators.dzkp.is_verified", rel, impl_text,
        r"fn is_verified\(&self\) -> Result<\(\), Error> \{",
        """fn is_verified(&self) -> Result<(), Error> {
            let batcher = self .inner_ref .as_ref() .expect("validator should be active") .batcher .lock() .unwrap();
            if batcher.is_empty() { Ok(()) } else { Err(Error::ContextUnsafe(format!("{:?}", self.protocol_ctx))) } }""")
    pin("validators.dzkp.context", rel, impl_text,
        r"fn context\(&self\) -> MaliciousDZKPUpgraded<'a, B> \{",
        "fn context(&self) -> MaliciousDZKPUpgraded<'a, B> { self.protocol_ctx.clone() }")
    # the default `validate` of the trait
    m = re.search(r"async fn validate\(self\) -> Result<\(\), Error>\s*where\s*Self: Sized,\s*\{\s*self\.validate_indexed\(0\)\.await\s*\}", t)
    if m:
        record("validators.dzkp.validate_default", rel, t, m, "validate = validate_indexed(0)")
    else:
        fail("validators.dzkp.validate_default", "DZKPValidator::validate is no longer validate_indexed(0)")
    # MaliciousDZKPValidator::new: batch size and initial total come from the arguments / the context
    m = re.search(r"let batcher = Batcher::new\(\s*max_multiplications_per_gate,\s*ctx\.total_records\(\),\s*Box::new\(move \|batch_index\| \{", t)
    if m:
        record("validators.dzkp.new_batcher", rel, t, m, "Batcher::new(max_multiplications_per_gate, ctx.total_records(), …)")
    else:
        fail("validators.dzkp.new_batcher", "MaliciousDZKPValidator::new no longer builds the batcher from (max_multiplications_per_gate, ctx.total_records())")
    m = re.search(r"let protocol_ctx = MaliciousDZKPUpgraded::new\(&inner, ctx\.narrow\(steps\.protocol\)\);\s*Self \{\s*inner_ref: Some\(inner\),\s*protocol_ctx,\s*\}", t)
    if m:
        record("validators.dzkp.new_tail", rel, t, m, "found")
    else:
        fail("validators.dzkp.new_tail", "tail of MaliciousDZKPValidator::new changed")
    m = re.search(r"fn drop\(&mut self\) \{(?:\s*//[^\n]*)*\s*if self\.inner_ref\.is_some\(\) && !std::thread::panicking\(\) \{\s*self\.is_verified\(\)\.unwrap\(\);\s*\}\s*\}", t)
    if m:
        record("validators.dzkp.drop", rel, t, m, "is_verified().unwrap() unless consumed or unwinding")
    else:
        fail("validators.dzkp.drop", "Drop for MaliciousDZKPValidator changed")
    n_set = len(re.findall(r"\.set_total_records\(total_records\)", impl_text))
    m = re.search(r"\.set_total_records\(total_records\)", impl_text)
    if n_set == 1 and "return" not in (body_of("x", rel, impl_text, r"fn set_total_records<T")[1] or "return"):
        record("validators.dzkp.set_total_no_early_return", rel, impl_text, m, "one forward, no return statement")
    else:
        fail("validators.dzkp.set_total_no_early_return", "set_total_records of the malicious DZKP validator has an early return or does not forward exactly once")

    rel = "protocol/context/dzkp_malicious.rs"
    d = read(rel)
    pin("validators.dzkp.validate_record", rel, d,
        r"async fn validate_record\(&self, record_id: RecordId\) -> Result<\(\), Error> \{",
        """async fn validate_record(&self, record_id: RecordId) -> Result<(), Error> {
            let validator_inner = self.validator_inner.upgrade().expect("validator is active");
            let ctx = validator_inner.validate_ctx.clone();
            let validation_future = validator_inner .batcher .lock() .unwrap()
            .validate_record(record_id, |batch_idx, batch| batch.validate(ctx, batch_idx));
            validation_future.await }""")
    m = re.search(r"let records_per_batch = validator_inner\.batcher\.lock\(\)\.unwrap\(\)\.records_per_batch\(\);\s*let active_work = if records_per_batch == 1 \|\| records_per_batch == usize::MAX \{", d)
    if m:
        record("validators.dzkp.active_work_cases", rel, d, m, "1 | usize::MAX keep the context's active work")
    else:
        fail("validators.dzkp.active_work_cases", "DZKPUpgraded::new: active_work case split changed")
    m = re.search(r"let active_work = NonZeroUsize::new\(records_per_batch\)\.unwrap\(\);", d)
    m2 = re.search(r"base_ctx: base_ctx\.set_active_work\(active_work\.get\(\)\.try_into\(\)\.unwrap\(\)\),", d)
    if m and m2:
        record("validators.dzkp.active_work_conv", rel, d, m, "NonZeroUsize::new(rpb).unwrap(); try_into NonZeroU32PowerOfTwo")
    else:
        fail("validators.dzkp.active_work_conv", "DZKPUpgraded::new: conversions of records_per_batch changed")

    rel = "utils/power_of_two.rs"
    p = read(rel)
    m = re.search(r"if value > 0 && value < usize::try_from\(u32::MAX\)\.unwrap\(\) && value\.is_power_of_two\(\) \{", p)
    if m:
        record("validators.pow2_range", rel, p, m, "0 < v < u32::MAX, power of two")
    else:
        fail("validators.pow2_range", "NonZeroU32PowerOfTwo::try_from(usize) changed")

    rel = "protocol/context/validator.rs"
    v = read(rel)
    pin("validators.mac.new", rel, v,
        r"pub fn new\(ctx: MaliciousContext<'a, B>\) -> Self \{\s*let TotalRecords::Specified",
        """pub fn new(ctx: MaliciousContext<'a, B>) -> Self {
            let TotalRecords::Specified(total_records) = ctx.total_records() else {
                panic!("Total records must be specified before creating the validator"); };
            let records_per_batch = ctx.active_work().get();
            Self { protocol_ctx: ctx.narrow(&Step::MaliciousProtocol),
                   batches_ref: Arc::new(Batcher::new( records_per_batch, total_records,
                   Box::new(move |batch_index| Malicious::new(ctx.clone(), batch_index)), )), } }""")
    m = re.search(r"fn context\(&self\) -> Self::Context \{\s*UpgradedMaliciousContext::new\(&self\.batches_ref, self\.protocol_ctx\.clone\(\)\)\s*\}", v)
    if m:
        record("validators.mac.context", rel, v, m, "found")
    else:
        fail("validators.mac.context", "BatchValidator::context changed")

    rel = "protocol/context/malicious.rs"
    u = read(rel)
    pin("validators.mac.validate_record", rel, u,
        r"async fn validate_record\(&self, record_id: RecordId\) -> Result<\(\), Error> \{",
        """async fn validate_record(&self, record_id: RecordId) -> Result<(), Error> {
            let validation_future = self .batch .upgrade() .expect("Validation batch is active") .lock() .unwrap()
            .validate_record(record_id, |_batch_idx, batch| batch.validate());
            validation_future.await }""")
    m = re.search(r"let records_per_batch = batch\.lock\(\)\.unwrap\(\)\.records_per_batch\(\);\s*let active_work = ctx\.active_work\(\)\.get\(\);\s*assert_eq!\(\s*records_per_batch, active_work,", u)
    if m:
        record("validators.mac.batch_equals_active_work", rel, u, m, "asserted")
    else:
        fail("validators.mac.batch_equals_active_work", "Upgraded::new no longer asserts records_per_batch == active_work")
    return {}
