"""Translator plugin for C04 (b20): the update of a batch's running MACs is ONE critical section.

`Upgraded::accumulate_macs` (context/malicious.rs) is what the share upgrade, `mac_multiply` and the MAC reshare call to
add a wire `([z], [r z])` to the running MACs `(u, w)` of the record's validation batch. Records of one batch are driven
concurrently (`seq_join` / `parallel_join` spawn them on a thread pool under `multi-threading`), so the read-modify-write of
`(u, w)` is only correct if it happens under ONE acquisition of the batcher mutex: the interleaving model
`Model/MacAtomic.lean` makes a call one atomic step exactly when this plugin finds

 * the body of `Upgraded::accumulate_macs` to be a single `with_batch` call whose closure performs
   `v.accumulator.accumulate_macs(..)` — no clone of the accumulator, no store-back, no second `with_batch`;
 * `Upgraded::with_batch` to be: upgrade the weak pointer, lock the batcher ONCE, `get_batch`, run the closure on
   `&mut state.batch` while the guard is alive (the guard is the local `batch`, dropped at the end of the function);
 * `MaliciousAccumulator::accumulate_macs` to take `&mut self` and to update `self.inner.u` / `self.inner.w` in place (`+=`);
 * the state to be plain fields `{u, w}` behind `Mutex<Batcher<Malicious>>`, and nobody else to write `.accumulator`.

(theorems `accumulate_atomic_sum`, `concurrent_eq_sequential`, `code_is_atomic`; the fetch / compute / store split of
independent seed `C04e` is the `decide`d `split_loses_update`). The same shape on the DZKP side — `DZKPUpgraded::push` =
one `with_batch` whose closure calls `Batch::push` — is pinned too (`c04.atomic.dzkp.*`; that code belongs to C03/C16, the
items live here because the pattern and the failure mode are the same)."""
import re
from extract import read, record, fail

PFX = "c04.atomic."


def norm(body):
    body = re.sub(r"//[^\n]*", "", body)
    return re.sub(r"\s+", " ", body).strip()


def squash(s):
    return re.sub(r"\s+", "", s)


def block_after(text, start):
    """body of the first `{ … }` block at or after `start` (brace matched)"""
    i = text.index("{", start)
    depth, j = 0, i
    while j < len(text):
        if text[j] == "{":
            depth += 1
        elif text[j] == "}":
            depth -= 1
            if depth == 0:
                break
        j += 1
    return text[i + 1:j]


def fn_body(text, sig_re):
    """(match of the signature, normalised body) of a function whose signature matches sig_re; the body is the first
    brace block after the signature's parameter list and where-clause"""
    m = re.search(sig_re, text, re.S)
    if not m:
        return None, None
    return m, norm(block_after(text, m.end() - 1))


WANT_ACC = "self.with_batch(record_id, |v| { v.accumulator .accumulate_macs(&self.prss(), record_id, share); });"
WANT_WITH_BATCH = ("let batcher = self.batch.upgrade().expect(\"Validator is active\"); let mut batch = batcher.lock().unwrap(); "
                   "let state = batch.get_batch(record_id); (action)(&mut state.batch)")
WANT_DZ_PUSH = "self.with_batch(record_id, |batch| { batch.push(self.base_ctx.gate().clone(), record_id, segment); });"
WANT_DZ_WITH_BATCH = ("let validator_inner = self.validator_inner.upgrade().expect(\"Validator is active\"); "
                      "let mut batcher = validator_inner.batcher.lock().unwrap(); let state = batcher.get_batch(record_id); "
                      "(action)(&mut state.batch)")

LOCKS = r"\.lock\(\)|\.try_lock\(\)|\.write\(\)|\.read\(\)"


def with_batch_shape(name, rel, t, sig_re, want, guard):
    """`with_batch`: one lock acquisition, the closure runs while the guard `guard` is alive"""
    m, body = fn_body(t, sig_re)
    locks, under = 0, False
    if not m:
        fail(name, "with_batch not found")
        return locks, under
    locks = len(re.findall(LOCKS, body))
    # the guard is a named local that lives to the end of the function: no `drop(guard)`, no inner block around the lock,
    # and the closure call is the tail expression
    under = (re.search(r"let mut " + guard + r" = [\w.]+\.lock\(\)\.unwrap\(\);", body) is not None
             and "drop(" not in body and body.endswith("(action)(&mut state.batch)")
             and re.search(r"let state = " + guard + r"\.get_batch\(record_id\);", body) is not None)
    record(name, rel, t, m, {"lock_acquisitions": locks, "action_under_guard": under})
    if squash(body) != squash(want):
        fail(name, f"body changed: now `{body[:300]}`; the model's atomic step mirrors `{want}`")
    elif locks != 1 or not under:
        fail(name, f"{locks} lock acquisitions / closure under the guard = {under}")
    return locks, under


def extract():
    # ---------------------------------------------------------------- context/malicious.rs
    rel = "protocol/context/malicious.rs"
    t = read(rel)
    calls, clones, stores, inside = 0, 0, 0, False
    m, body = fn_body(t, r"pub fn accumulate_macs<const N: usize>\(\s*self,\s*record_id: RecordId,\s*share: &MaliciousReplicated<F, N>,\s*\)\s*where[^{]*\{")
    if not m:
        for n in ("accumulate.body", "accumulate.single_critical_section"):
            fail(PFX + n, "Upgraded::accumulate_macs not found")
    else:
        calls = len(re.findall(r"\bwith_batch\s*\(", body))
        clones = len(re.findall(r"accumulator\s*\.clone\(\)|accumulator\s*\.to_owned\(\)|\.u_and_w\(\)|mem::(?:take|replace|swap)", body))
        stores = len(re.findall(r"\.accumulator\s*=[^=]", body))
        inside = re.fullmatch(r"self\.with_batch\(record_id, \|v\| \{ v\.accumulator \.accumulate_macs\(&self\.prss\(\), record_id, share\); \}\);", body) is not None
        record(PFX + "accumulate.body", rel, t, m, body[:200])
        if squash(body) != squash(WANT_ACC):
            fail(PFX + "accumulate.body", f"body changed: now `{body[:400]}`; the model's atomic step mirrors `{WANT_ACC}`")
        record(PFX + "accumulate.single_critical_section", rel, t, m,
               {"with_batch_calls": calls, "accumulator_clones": clones, "store_backs": stores, "update_inside_closure": inside})
        if calls != 1 or clones != 0 or stores != 0 or not inside:
            fail(PFX + "accumulate.single_critical_section",
                 f"{calls} with_batch calls, {clones} copies of the accumulator taken out, {stores} store-backs, update inside the "
                 f"closure = {inside}: fetching, updating and storing the running MACs are no longer one critical section "
                 "(lost update when two records of a batch accumulate concurrently)")
    wb_locks, wb_under = with_batch_shape(
        PFX + "with_batch.body", rel, t,
        r"fn with_batch<C: FnOnce\(&mut validator::Malicious<'a, F, B>\) -> T, T>\(\s*&self,\s*record_id: RecordId,\s*action: C,\s*\) -> T \{",
        WANT_WITH_BATCH, "batch")
    mm = re.search(r"pub\(super\) type MacBatcher<'a, F, B> = Mutex<Batcher<'a, validator::Malicious<'a, F, B>>>;", t)
    m2 = re.search(r"pub struct Upgraded<'a, F: ExtendableField, B: ShardBinding> \{\s*batch: Weak<MacBatcher<'a, F, B>>,\s*base_ctx: Context<'a, B>,\s*\}", t)
    m3 = re.search(r"use crate::\{\s*sync::\{Mutex, Weak\},", t)
    if mm and m2 and m3:
        record(PFX + "batcher.mutex", rel, t, mm, "Upgraded { batch: Weak<Mutex<Batcher<Malicious>>>, base_ctx } (crate::sync::Mutex)")
    else:
        fail(PFX + "batcher.mutex", "the batches of an Upgraded context are no longer behind ONE crate::sync::Mutex<Batcher<Malicious>>")
    # the only reader through with_batch besides accumulate_macs: r_share (a clone of the key, no write)
    others = [x for x in re.findall(r"self\.with_batch\(record_id, \|v\| ([^;]*?)\)\s*[;}]", norm(t.split("#[cfg(all(test, unit_test))]")[0]))]
    mo = re.search(r"fn r_share\(&self, record_id: RecordId\) -> Replicated<F::ExtendedField> \{\s*self\.with_batch\(record_id, \|v\| v\.r_share\(\)\.clone\(\)\)\s*\}", t)
    n_wb = len(re.findall(r"\.with_batch\s*\(", norm(t)))
    if mo and n_wb == 2:
        record(PFX + "with_batch.users", rel, t, mo, {"calls": n_wb, "users": ["accumulate_macs (update)", "r_share (reads the key)"]})
    else:
        fail(PFX + "with_batch.users", f"{n_wb} with_batch calls in {rel} (expected 2: accumulate_macs, r_share) — a new user may write the accumulator: {others}")

    # ---------------------------------------------------------------- context/validator.rs
    rel = "protocol/context/validator.rs"
    t = read(rel)
    code = t.split("#[cfg(all(test, unit_test))]")[0]
    in_place = False
    m, body = fn_body(t, r"pub fn accumulate_macs<I: SharedRandomness, const N: usize>\(\s*&mut self,\s*prss: &I,\s*record_id: RecordId,\s*input: &MaliciousReplicated<F, N>,\s*\)\s*where[^{]*\{")
    if not m:
        fail(PFX + "acc.in_place", "MaliciousAccumulator::accumulate_macs(&mut self, ..) not found")
    else:
        writes = re.findall(r"self\.inner(?:\.(\w+))?\s*(\+=|-=|\*=|=)[^=]", body)
        in_place = writes == [("u", "+="), ("w", "+=")] and body.endswith("self.inner.u += u_contribution; self.inner.w += w_contribution;")
        record(PFX + "acc.in_place", rel, t, m, {"receiver": "&mut self", "writes": [f"inner.{a} {b}" for a, b in writes]})
        if not in_place:
            fail(PFX + "acc.in_place", f"the accumulator is no longer updated in place by `self.inner.u += ..; self.inner.w += ..;` (writes found: {writes})")
    all_writes = re.findall(r"\binner\.(\w+)\s*(\+=|-=|\*=|=)[^=]", norm(code))
    ms = re.search(r"struct AccumulatorState<T: Field> \{\s*u: T,\s*w: T,\s*\}", t)
    ma = re.search(r"pub struct MaliciousAccumulator<F: ExtendableField> \{\s*inner: AccumulatorState<F::ExtendedField>,\s*\}", t)
    mf = re.search(r"pub struct Malicious<'a, F: ExtendableField, B: ShardBinding> \{\s*r_share: Replicated<F::ExtendedField>,\s*pub\(super\) accumulator: MaliciousAccumulator<F>,", t)
    if ms and ma and mf and all_writes == [("u", "+="), ("w", "+=")]:
        record(PFX + "acc.state", rel, t, ms, "AccumulatorState { u, w } (plain fields) in MaliciousAccumulator.inner in Malicious.accumulator; written only by accumulate_macs")
    else:
        fail(PFX + "acc.state", f"AccumulatorState / MaliciousAccumulator / Malicious.accumulator changed shape, or `inner.*` is written elsewhere ({all_writes})")
    # every mention of `.accumulator` in the non-test code of protocol/context: the closure above, and validate's read
    uses = []
    for r2 in ("protocol/context/malicious.rs", "protocol/context/validator.rs", "protocol/context/batcher.rs", "protocol/context/upgrade.rs",
               "protocol/context/mod.rs", "protocol/basics/mul/malicious.rs", "protocol/basics/reshare.rs"):
        c2 = norm(read(r2).split("#[cfg(all(test, unit_test))]")[0])
        for x in re.finditer(r"(\w+)\s*\.accumulator\b\s*(\.\s*\w+|=[^=]|)", c2):
            uses.append(f"{r2.split('/')[-1]}:{x.group(1)}.accumulator{squash(x.group(2))}")
    want_uses = ["malicious.rs:v.accumulator.accumulate_macs", "validator.rs:self.accumulator.u_and_w"]
    mu = re.search(r"let \(u_local, w_local\) = self\.accumulator\.u_and_w\(\);", t)
    if sorted(uses) == sorted(want_uses) and mu:
        record(PFX + "acc.users", rel, t, mu, uses)
    else:
        fail(PFX + "acc.users", f"uses of `.accumulator` changed: {uses} (expected {want_uses})")

    # ---------------------------------------------------------------- context/dzkp_malicious.rs (C03/C16 code, same pattern)
    rel = "protocol/context/dzkp_malicious.rs"
    t = read(rel)
    dz_ok = False
    m, body = fn_body(t, r"pub fn push\(&self, record_id: RecordId, segment: Segment\) \{")
    if not m:
        fail(PFX + "dzkp.push.body", "DZKPUpgraded::push not found")
    else:
        dcalls = len(re.findall(r"\bwith_batch\s*\(", body))
        dz_ok = squash(body) == squash(WANT_DZ_PUSH) and dcalls == 1
        record(PFX + "dzkp.push.body", rel, t, m, {"with_batch_calls": dcalls, "body": body[:160]})
        if not dz_ok:
            fail(PFX + "dzkp.push.body", f"DZKPUpgraded::push is no longer one with_batch call whose closure performs Batch::push: `{body[:300]}`")
    dl, du = with_batch_shape(PFX + "dzkp.with_batch.body", rel, t,
                              r"fn with_batch<C: FnOnce\(&mut Batch\) -> T, T>\(&self, record_id: RecordId, action: C\) -> T \{",
                              WANT_DZ_WITH_BATCH, "batcher")
    dz_ok = dz_ok and dl == 1 and du

    b = lambda x: "true" if x else "false"
    lines = [
        "/-! GENERATED by tools/extract.py (tools/extractors/c04_atomic.py) from ipa-core/src/protocol/context/{malicious,validator,dzkp_malicious}.rs — do not edit. -/",
        "namespace IpaVerif.Generated.MacAtomic",
        "",
        "/-- number of `with_batch` calls (= acquisitions of the batcher mutex) in the body of `Upgraded::accumulate_macs` -/",
        f"def withBatchCalls : Nat := {calls}",
        "/-- copies of the accumulator (or of `(u, w)`) taken OUT of the critical section in that body -/",
        f"def accumulatorCopies : Nat := {clones}",
        "/-- assignments `v.accumulator = …` (store-backs) in that body -/",
        f"def accumulatorStoreBacks : Nat := {stores}",
        "/-- the closure handed to the one `with_batch` call is `|v| { v.accumulator.accumulate_macs(&self.prss(), record_id, share); }` -/",
        f"def updateInsideClosure : Bool := {b(inside)}",
        "/-- `Upgraded::with_batch`: acquisitions of the batcher mutex -/",
        f"def withBatchLockAcquisitions : Nat := {wb_locks}",
        "/-- `Upgraded::with_batch`: the closure is the tail expression, run on `&mut state.batch` while the guard is alive -/",
        f"def actionUnderGuard : Bool := {b(wb_under)}",
        "/-- `MaliciousAccumulator::accumulate_macs(&mut self, ..)` ends with `self.inner.u += u_contribution; self.inner.w += w_contribution;` -/",
        f"def updateInPlace : Bool := {b(in_place)}",
        "/-- DZKP side: `DZKPUpgraded::push` = one `with_batch` (one lock, closure under the guard) whose closure calls `Batch::push` -/",
        f"def dzkpPushSingleSection : Bool := {b(dz_ok)}",
        "",
        "end IpaVerif.Generated.MacAtomic",
    ]
    return {"MacAtomic.lean": "\n".join(lines) + "\n"}
