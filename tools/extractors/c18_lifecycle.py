"""Translator plugin (C18): the query-lifecycle tables of ipa-core/src/query/state.rs.

Extracted on every run:
  * the variants of `enum QueryStatus` and `enum QueryState` (names and order),
  * the arms of `min_status` (source order, or-patterns expanded),
  * the arms of `QueryState::transition` (source order, nested or-patterns expanded),
  * the arms of `impl From<&QueryState> for QueryStatus`.
The generated `Lifecycle.lean` holds them as first-match tables; the model's `minStatus` and
`transition` are *interpreters of these tables*, so every theorem about them is re-checked against
what the source says now.
"""
import re
from extract import read, record, fail

REL = "query/state.rs"


def strip_comments(t):
    return re.sub(r"//[^\n]*", "", t)


def block_after(t, start):
    """t[start] must be '{'; returns (inner text, index after the closing brace)."""
    assert t[start] == "{"
    depth = 0
    for i in range(start, len(t)):
        if t[i] == "{":
            depth += 1
        elif t[i] == "}":
            depth -= 1
            if depth == 0:
                return t[start + 1:i], i + 1
    raise ValueError("unbalanced braces")


def split_top(s, sep):
    """Split at top-level occurrences of the single character sep (outside (), {}, [])."""
    out, depth, cur = [], 0, []
    for ch in s:
        if ch in "({[":
            depth += 1
        elif ch in ")}]":
            depth -= 1
        if ch == sep and depth == 0:
            out.append("".join(cur))
            cur = []
        else:
            cur.append(ch)
    out.append("".join(cur))
    return out


def match_arms(body):
    """Split the inside of a `match … { }` into (pattern text, expression text) in source order."""
    arms, i, n = [], 0, len(body)
    while i < n:
        # pattern up to top-level =>
        depth, j = 0, i
        while j < n:
            if body[j] in "({[":
                depth += 1
            elif body[j] in ")}]":
                depth -= 1
            elif depth == 0 and body.startswith("=>", j):
                break
            j += 1
        if j >= n:
            break
        pat = body[i:j].strip()
        k = j + 2
        while k < n and body[k].isspace():
            k += 1
        if k < n and body[k] == "{":
            expr, k2 = block_after(body, k)
            while k2 < n and (body[k2].isspace() or body[k2] == ","):
                k2 += 1
        else:
            depth, k2 = 0, k
            while k2 < n:
                if body[k2] in "({[":
                    depth += 1
                elif body[k2] in ")}]":
                    depth -= 1
                elif body[k2] == "," and depth == 0:
                    break
                k2 += 1
            expr = body[k:k2]
            k2 += 1
        arms.append((pat, expr.strip()))
        i = k2
    return arms


def atom(p, prefix=""):
    """`_` -> None, `Name`, `Name(..)`, `Prefix::Name` -> Name."""
    p = p.strip()
    if p == "_":
        return None
    m = re.fullmatch(r"(?:\w+::)*(\w+)(?:\s*\(.*\))?", p, re.S)
    if not m:
        raise ValueError("unsupported pattern atom: " + p)
    return m.group(1)


def expand_pair_patterns(pat):
    """`(A, B | C) | (D, _)` -> [(A,B),(A,C),(D,None)]."""
    out = []
    for alt in split_top(pat, "|"):
        alt = alt.strip()
        if not alt:
            continue
        if not (alt.startswith("(") and alt.endswith(")")):
            raise ValueError("unsupported arm pattern: " + alt)
        comps = split_top(alt[1:-1], ",")
        if len(comps) != 2:
            raise ValueError("expected a pair pattern: " + alt)
        ls = [atom(x) for x in split_top(comps[0], "|")]
        rs = [atom(x) for x in split_top(comps[1], "|")]
        for l in ls:
            for r in rs:
                out.append((l, r))
    return out


def enum_variants(t, name):
    m = re.search(r"pub enum " + name + r"\s*\{", t)
    if not m:
        return None, None
    body, _ = block_after(t, m.end() - 1)
    vs = []
    for part in split_top(body, ","):
        part = re.sub(r"#\[[^\]]*\]", "", part)
        part = re.sub(r"///[^\n]*", "", part).strip()
        if part:
            vs.append(re.match(r"\w+", part).group(0))
    return m, vs


def lname(v):
    return v[0].lower() + v[1:]


def extract():
    raw = read(REL)
    t = strip_comments(raw)
    ok = True

    # ---- enums
    m, statuses = enum_variants(t, "QueryStatus")
    if not statuses:
        fail("lifecycle.status_enum", "enum QueryStatus not found")
        return {}
    m0 = re.search(r"pub enum QueryStatus", raw)
    record("lifecycle.status_enum", REL, raw, m0, statuses)
    m, kinds = enum_variants(t, "QueryState")
    if not kinds:
        fail("lifecycle.state_enum", "enum QueryState not found")
        return {}
    m0 = re.search(r"pub enum QueryState", raw)
    record("lifecycle.state_enum", REL, raw, m0, kinds)

    # ---- min_status
    min_arms = []
    m = re.search(r"pub fn min_status\(a: QueryStatus, b: QueryStatus\) -> QueryStatus\s*\{", t)
    if not m:
        fail("lifecycle.min_status", "fn min_status(a, b) not found")
        ok = False
    else:
        body, _ = block_after(t, m.end() - 1)
        mm = re.search(r"match\s*\(\s*a\s*,\s*b\s*\)\s*\{", body)
        if not mm:
            fail("lifecycle.min_status", "match (a, b) not found in min_status")
            ok = False
        else:
            inner, _ = block_after(body, mm.end() - 1)
            try:
                for pat, expr in match_arms(inner):
                    res = atom(expr)
                    if res not in statuses:
                        raise ValueError("arm result is not a QueryStatus variant: " + expr)
                    for l, r in expand_pair_patterns(pat):
                        for x in (l, r):
                            if x is not None and x not in statuses:
                                raise ValueError("unknown status in pattern: " + str(x))
                        min_arms.append((l, r, res))
            except ValueError as e:
                fail("lifecycle.min_status", str(e))
                ok = False
            m0 = re.search(r"pub fn min_status", raw)
            record("lifecycle.min_status", REL, raw, m0, [[l, r, x] for l, r, x in min_arms])

    # ---- transition
    tr_arms = []
    m = re.search(r"pub fn transition\(cur_state: &Self, new_state: Self\) -> Result<Self, StateError>\s*\{", t)
    if not m:
        fail("lifecycle.transition", "fn QueryState::transition not found")
        ok = False
    else:
        body, _ = block_after(t, m.end() - 1)
        mm = re.search(r"match\s*\(\s*cur_state\s*,\s*&new_state\s*\)\s*\{", body)
        if not mm:
            fail("lifecycle.transition", "match (cur_state, &new_state) not found")
            ok = False
        else:
            inner, _ = block_after(body, mm.end() - 1)
            try:
                for pat, expr in match_arms(inner):
                    e = re.sub(r"\s+", " ", expr)
                    if re.fullmatch(r"Ok\(new_state\)", e):
                        res = "ok"
                    elif re.fullmatch(r"Err\(StateError::AlreadyRunning\)", e):
                        res = "alreadyRunning"
                    elif re.fullmatch(r"Err\(StateError::InvalidState \{ from: cur_state\.into\(\), to: QueryStatus::from\(&new_state\),? \}\)", e):
                        res = "invalidState"
                    else:
                        raise ValueError("unsupported transition arm result: " + e)
                    for l, r in expand_pair_patterns(pat):
                        for x in (l, r):
                            if x is not None and x not in kinds:
                                raise ValueError("unknown state in pattern: " + str(x))
                        tr_arms.append((l, r, res))
            except ValueError as e:
                fail("lifecycle.transition", str(e))
                ok = False
            m0 = re.search(r"pub fn transition", raw)
            record("lifecycle.transition", REL, raw, m0, [[l, r, x] for l, r, x in tr_arms])

    # ---- From<&QueryState> for QueryStatus
    conv = []
    m = re.search(r"impl From<&QueryState> for QueryStatus\s*\{", t)
    if not m:
        fail("lifecycle.state_status", "impl From<&QueryState> for QueryStatus not found")
        ok = False
    else:
        body, _ = block_after(t, m.end() - 1)
        mm = re.search(r"match\s+source\s*\{", body)
        if not mm:
            fail("lifecycle.state_status", "match source not found")
            ok = False
        else:
            inner, _ = block_after(body, mm.end() - 1)
            try:
                for pat, expr in match_arms(inner):
                    k = atom(pat)
                    if k not in kinds:
                        raise ValueError("unknown state " + str(k))
                    if expr.startswith("panic!"):
                        conv.append((k, None))
                    else:
                        s = atom(expr)
                        if s not in statuses:
                            raise ValueError("unknown status " + str(s))
                        conv.append((k, s))
                if sorted(k for k, _ in conv) != sorted(kinds):
                    raise ValueError("conversion does not list every state exactly once")
            except ValueError as e:
                fail("lifecycle.state_status", str(e))
                ok = False
            m0 = re.search(r"impl From<&QueryState> for QueryStatus", raw)
            record("lifecycle.state_status", REL, raw, m0, [[k, s] for k, s in conv])

    # ---- processor.rs: which guard/cleanup calls exist (cheap structural cross-checks of the model)
    praw = read("query/processor.rs")
    p = strip_comments(praw)
    checks = {
        "lifecycle.proc.new_query_guard_after_set": r"handle\.set_state\(QueryState::Preparing\(req\)\)\?;\s*let guard = handle\.remove_query_on_drop\(\);",
        "lifecycle.proc.new_query_restore": r"handle\.set_state\(QueryState::AwaitingInputs\(req, roles\)\)\?;\s*guard\.restore\(\);",
        "lifecycle.proc.complete_completed_removes": r"match queries\.remove\(&query_id\)\s*\{\s*Some\(QueryState::Completed\(result\)\) => return result\.map_err\(Into::into\),",
        "lifecycle.proc.complete_running_guard": r"Some\(QueryState::Running\(handle\)\) => \{\s*let token: CompletionToken = Arc::new\(\(\)\);\s*queries\.insert\(\s*query_id,\s*QueryState::AwaitingCompletion\(Arc::clone\(&token\)\),?\s*\);\s*CompletionHandle::new\(\s*RemoveQuery::for_completion\(query_id, &self\.queries, token\),\s*handle,?\s*\)",
        "lifecycle.proc.kill_removes": r"let Some\(state\) = queries\.remove\(&query_id\) else \{\s*return Err\(QueryKillStatus::NoSuchQuery\(query_id\)\);",
    }
    for name, rx in checks.items():
        mm = re.search(rx, p)
        if mm:
            # position in the raw text (approximate: first line of the pattern)
            first = re.search(re.escape(mm.group(0).split("\n")[0].strip()[:40]), praw)
            record(name, "query/processor.rs", praw, first or re.search(r"impl Processor", praw), True)
        else:
            fail(name, "expected statement sequence not found in query/processor.rs (the lifecycle model mirrors it)")

    if not ok:
        return {}

    def opt(x, ns):
        return "none" if x is None else f"(some {ns}.{lname(x)})"

    L = []
    L.append("/-! GENERATED by tools/extract.py (plugin c18_lifecycle) from ipa-core/src/query/state.rs — do not edit. -/")
    L.append("namespace IpaVerif.Generated.Lifecycle")
    L.append("")
    L.append("/-- `enum QueryStatus` (source order). -/")
    L.append("inductive Status where")
    for s in statuses:
        L.append(f"  | {lname(s)}")
    L.append("  deriving DecidableEq, Repr, Inhabited")
    L.append("")
    L.append("/-- Variants of `enum QueryState` without payload (source order). -/")
    L.append("inductive Kind where")
    for k in kinds:
        L.append(f"  | {lname(k)}")
    L.append("  deriving DecidableEq, Repr, Inhabited")
    L.append("")
    L.append("def allStatuses : List Status := [" + ", ".join("Status." + lname(s) for s in statuses) + "]")
    L.append("def allKinds : List Kind := [" + ", ".join("Kind." + lname(k) for k in kinds) + "]")
    L.append("")
    L.append("def Status.name : Status → String")
    for s in statuses:
        L.append(f'  | .{lname(s)} => "{s}"')
    L.append("def Kind.name : Kind → String")
    for k in kinds:
        L.append(f'  | .{lname(k)} => "{k}"')
    L.append("")
    L.append("/-- Arms of `min_status` in source order (`none` = wildcard); first match wins. -/")
    L.append("def minStatusArms : List (Option Status × Option Status × Status) := [")
    L.append(",\n".join(f"  ({opt(l, 'Status')}, {opt(r, 'Status')}, Status.{lname(x)})" for l, r, x in min_arms))
    L.append("]")
    L.append("")
    L.append("inductive TrResult where")
    L.append("  | ok | alreadyRunning | invalidState")
    L.append("  deriving DecidableEq, Repr, Inhabited")
    L.append("")
    L.append("/-- Arms of `QueryState::transition` in source order (`none` = wildcard); first match wins. -/")
    L.append("def transitionArms : List (Option Kind × Option Kind × TrResult) := [")
    L.append(",\n".join(f"  ({opt(l, 'Kind')}, {opt(r, 'Kind')}, TrResult.{x})" for l, r, x in tr_arms))
    L.append("]")
    L.append("")
    L.append("/-- `impl From<&QueryState> for QueryStatus`; `none` = the arm panics. -/")
    L.append("def kindStatus : Kind → Option Status")
    for k, s in conv:
        L.append(f"  | .{lname(k)} => " + ("none" if s is None else f"some Status.{lname(s)}"))
    L.append("")
    L.append("end IpaVerif.Generated.Lifecycle")
    return {"Lifecycle.lean": "\n".join(L) + "\n"}
