"""Translator plugin (C20): the HTTP route table of ipa-core/src/net/server.

Extracted on every run:
  * every `pub const AXUM_PATH` / `BASE_AXUM_PATH` of net/http_serde.rs (module path -> string),
  * the router expression of every `pub fn router…` / `*_router` in net/server/handlers/**:
    `Router::new()` / `<mod>::router(..)` followed by `.route(PATH, method(handler))`,
    `.merge(..)`, `.nest(PATH, ..)`, `.layer(..)` in source order (so the POSITION of
    `.layer(layer_fn(HelperAuthentication::<_, F>::new))` relative to the merges is part of the
    generated tree),
  * the four `(disable_https, listener)` arms of `IpaHttpServer::start_on` with whether they install
    `SetClientIdentityFromHeader` and whether they use the TLS acceptor
    (`ClientCertRecognizingAcceptor`),
  * a census of every `.route(` occurrence under net/server (must all be reachable from the two
    top-level routers).
Generated: Routes.lean (router trees as data; flattening by axum's rule is done in the model).
"""
import os, re
from extract import read, record, fail, SRC

H = "net/server/handlers"


def strip_comments(t):
    return re.sub(r"//[^\n]*", "", t)


def cut_tests(t):
    """drop everything from the first test-only module on"""
    m = re.search(r"#\[cfg\(all\(test[^\]]*\]\s*(?:#\[[^\]]*\]\s*)*(?:pub )?mod \w+", t)
    return t if not m else t[:m.start()]


def paren_end(t, start, open_ch="(", close_ch=")"):
    assert t[start] == open_ch, (t[start:start + 20])
    depth = 0
    for i in range(start, len(t)):
        if t[i] in "([{":
            depth += 1
        elif t[i] in ")]}":
            depth -= 1
            if depth == 0:
                return i
    raise ValueError("unbalanced")


def split_top(s, sep=","):
    out, depth, cur = [], 0, []
    i = 0
    while i < len(s):
        ch = s[i]
        if ch in "([{":
            depth += 1
        elif ch in ")]}":
            depth -= 1
        elif ch == "<" and i > 0 and s[i - 1] == ":":  # turbofish ::<…>
            j = s.index(">", i)
            cur.append(s[i:j + 1])
            i = j + 1
            continue
        if ch == sep and depth == 0:
            out.append("".join(cur))
            cur = []
        else:
            cur.append(ch)
        i += 1
    out.append("".join(cur))
    return [x.strip() for x in out if x.strip()]


class Bad(Exception):
    pass


def parse_expr(s):
    """Router expression -> nested tuples."""
    s = s.strip()
    if s.startswith("Router::new()"):
        node, rest = ("new",), s[len("Router::new()"):]
    else:
        m = re.match(r"((?:\w+::)*\w+)\s*\(", s)
        if not m:
            raise Bad("unsupported router expression head: " + s[:60])
        e = paren_end(s, m.end() - 1)
        node, rest = ("call", m.group(1)), s[e + 1:]
    while True:
        rest = rest.strip()
        if not rest:
            return node
        m = re.match(r"\.\s*(\w+)\s*\(", rest)
        if not m:
            raise Bad("unsupported continuation: " + rest[:60])
        e = paren_end(rest, m.end() - 1)
        arg = rest[m.end():e].strip()
        name = m.group(1)
        if name == "merge":
            node = ("merge", node, parse_expr(arg))
        elif name == "nest":
            a = split_top(arg)
            if len(a) != 2:
                raise Bad("nest needs (path, router): " + arg[:60])
            node = ("nest", node, a[0], parse_expr(a[1]))
        elif name == "route":
            a = split_top(arg)
            mm = re.fullmatch(r"(get|post|put|delete|patch|head|options)\s*\(\s*([\w:<>, ]+?)\s*\)", a[1]) if len(a) == 2 else None
            if not mm:
                raise Bad("unsupported route(): " + arg[:80])
            node = ("route", node, a[0], mm.group(1), re.sub(r"\s+", "", mm.group(2)))
        elif name == "layer":
            a = re.sub(r"\s+", "", arg)
            mm = re.fullmatch(r"layer_fn\(HelperAuthentication::<_,(\w+)>::new\)", a)
            if mm:
                node = ("layer", node, ("auth", mm.group(1)))
            elif re.fullmatch(r"Extension\(\w+\)", a):
                node = ("layer", node, ("extension",))
            else:
                raise Bad("unknown layer in a router: " + arg[:80])
        else:
            raise Bad("unsupported router method ." + name)
        rest = rest[e + 1:]


def fn_bodies(t):
    """name -> body text of every `pub fn name…(…) -> Router { … }`."""
    out = {}
    for m in re.finditer(r"pub fn (\w+)\s*(?:<[^>]*>)?\s*\(", t):
        e = paren_end(t, m.end() - 1)
        mm = re.match(r"\s*->\s*Router\s*\{", t[e + 1:])
        if not mm:
            continue
        b0 = e + 1 + mm.end() - 1
        b1 = paren_end(t, b0, "{", "}")
        out[m.group(1)] = (t[b0 + 1:b1].strip(), m.start())
    return out


def http_serde_paths():
    rel = "net/http_serde.rs"
    raw = read(rel)
    consts = {}

    def depth0(text, pos):
        return text[:pos].count("{") == text[:pos].count("}")

    def walk(lo, hi, prefix):
        text = raw[lo:hi]
        for m in re.finditer(r"pub mod (\w+)\s*\{", text):
            if depth0(text, m.start()):
                e = paren_end(text, m.end() - 1, "{", "}")
                walk(lo + m.end(), lo + e, prefix + [m.group(1)])
        for m in re.finditer(r'pub const (\w*AXUM_PATH): &str = "([^"]*)";', text):
            if depth0(text, m.start()):
                name = "::".join(prefix + [m.group(1)])
                consts[name] = m.group(2)
                record("routes.path." + name, rel, raw, re.compile(re.escape(m.group(0))).search(raw, lo + m.start()), m.group(2))

    walk(0, len(raw), [])
    return consts


def resolve_path(expr, consts, uses):
    """`http_serde::query::create::AXUM_PATH`, `kill::AXUM_PATH`, … -> literal."""
    segs = [x for x in re.sub(r"\s+", "", expr).split("::") if x]
    if segs and segs[0] in ("crate", "http_serde", "net"):
        pass
    # try longest suffix match against known const paths
    for k in range(len(segs)):
        suf = "::".join(segs[k:])
        hits = [c for c in consts if c == suf or c.endswith("::" + suf)]
        if len(hits) == 1:
            return consts[hits[0]], hits[0]
        if len(hits) > 1:
            raise Bad(f"ambiguous path constant {expr}: {hits}")
    raise Bad("cannot resolve path constant " + expr)


def lean_segs(path):
    out = []
    for seg in path.split("/"):
        if not seg:
            continue
        if seg.startswith(":"):
            out.append("Seg.param")
        elif seg.startswith("*"):
            out.append("Seg.wildcard")
        else:
            out.append("Seg.lit " + lean_str(seg))
    return "[" + ", ".join(out) + "]"


def lean_str(s):
    return '"' + s.replace("\\", "\\\\").replace('"', '\\"') + '"'


# ---------------------------------------------------------------------------------------------
# `IpaHttpServer::start_on`: which service and which server each `(disable_https, listener)` arm
# hands to `spawn_server`. The function body is interpreted abstractly: a *service* value is the
# router (`self.router`) under `.clone()`, `.layer(TraceLayer…)`, `.into_make_service()` and
# `.layer(layer_fn(SetClientIdentityFromHeader::<_, F>::new))` — the last one sets `header`; a
# *server* value is `axum_server::{from_tcp, bind}` (plain) or `axum_server::{from_tcp_rustls,
# bind_rustls}(..).map(|a| ClientCertRecognizingAcceptor::new(a, ..))` (tls). `let` bindings (with
# shadowing) before the `match` and inside the arms are followed, so it does not matter whether the
# header wrapping is written in the arm or once up front.
HEADER_LAYER = re.compile(r"layer_fn\(SetClientIdentityFromHeader::<_,F>::new\)$")
COMBOS = [(True, True), (True, False), (False, True), (False, False)]


def stmt_end(t, i):
    """index of the `;` ending the statement that starts at i (depth 0), or len(t)"""
    depth = 0
    while i < len(t):
        ch = t[i]
        if ch in "([{":
            depth += 1
        elif ch in ")]}":
            depth -= 1
            if depth < 0:
                return i
        elif ch == ";" and depth == 0:
            return i
        i += 1
    return i


def top_level_lets(t):
    """[(name, expr)] for `let [mut] name[: T] = expr;` at brace depth 0 of t, in order"""
    out, depth, i = [], 0, 0
    while i < len(t):
        ch = t[i]
        if ch in "([{":
            depth += 1
        elif ch in ")]}":
            depth -= 1
        elif depth == 0 and t.startswith("let ", i) and (i == 0 or not (t[i - 1].isalnum() or t[i - 1] == "_")):
            m = re.match(r"let\s+(?:mut\s+)?(\w+)\s*(?::[^=;]+)?=(?!=)", t[i:])
            if m:
                e = stmt_end(t, i + m.end())
                out.append((m.group(1), t[i + m.end():e].strip()))
                i = e
                continue
        i += 1
    return out


def chain(expr):
    """`root.m1(a1).m2(a2).await` -> (root, [(m, arg)])"""
    expr = expr.strip()
    m = re.match(r"(self\.router|axum_server::\w+\s*\(|\w+)", expr)
    if not m:
        raise Bad("unsupported expression " + expr[:60])
    root = m.group(1)
    pos = m.end()
    rootarg = None
    if root.startswith("axum_server::"):
        e = paren_end(expr, pos - 1)
        rootarg = expr[pos:e]
        root = re.sub(r"\s*\($", "", root)
        pos = e + 1
    calls = []
    while True:
        rest = expr[pos:]
        mm = re.match(r"\s*\.\s*await\b", rest)
        if mm:
            pos += mm.end()
            calls.append(("await", ""))
            continue
        mm = re.match(r"\s*\.\s*(\w+)\s*(?:::<[^>]*>)?\s*\(", rest)
        if not mm:
            if rest.strip():
                raise Bad("unsupported expression tail " + rest.strip()[:60])
            return root, rootarg, calls
        e = paren_end(expr, pos + mm.end() - 1)
        calls.append((mm.group(1), expr[pos + mm.end():e]))
        pos = e + 1


def eval_value(expr, env):
    """abstract value of expr: ('svc', header) | ('server', tls) | None (something else)"""
    try:
        root, rootarg, calls = chain(expr)
    except Bad:
        if re.search(r"SetClientIdentityFromHeader|ClientCertRecognizingAcceptor|axum_server::|into_make_service|self\.router", expr):
            raise
        return None
    if root == "self.router":
        val = ("svc", False)
    elif root.startswith("axum_server::"):
        ctor = root.split("::")[1]
        if ctor in ("from_tcp", "bind"):
            val = ("server", "plain", ctor)
        elif ctor in ("from_tcp_rustls", "bind_rustls"):
            val = ("server", "rustls-unrecognising", ctor)
        else:
            raise Bad("unknown axum_server constructor " + ctor)
    elif root in env and env[root] is not None:
        val = env[root]
    else:
        if re.search(r"SetClientIdentityFromHeader|ClientCertRecognizingAcceptor", expr):
            raise Bad("identity layer used in an expression that is not understood: " + expr[:80])
        return None
    for name, arg in calls:
        a = re.sub(r"\s+", "", arg)
        if val[0] == "svc":
            if name in ("clone", "into_make_service") and a == "":
                continue
            if name == "layer":
                if HEADER_LAYER.match(a):
                    val = ("svc", True)
                    continue
                if a.startswith("TraceLayer::new_for_http()"):
                    continue
                raise Bad("unknown layer around the router in start_on: " + arg.strip()[:80])
            raise Bad(f"unknown operation .{name}() on the router service in start_on")
        else:
            if name == "map" and re.fullmatch(r"\|(\w+)\|\{?ClientCertRecognizingAcceptor::new\(\1,self\.network_config\.clone\(\)\)\}?", a):
                if val[1] == "plain":
                    raise Bad("ClientCertRecognizingAcceptor over a plain TCP server")
                val = ("server", "tls", val[2])
                continue
            raise Bad(f"unknown operation .{name}() on the axum server in start_on")
    return val


def tls_setup(t):
    """`rustls_config`: trust anchors = the peers' certificates, client authentication optional,
    verifier installed. -> (dict, [why])"""
    why = []
    val = {"anchors_from_peers": True, "client_auth_optional": True, "verifier_installed": True, "recognised": False}
    try:
        m = re.search(r"async fn rustls_config\s*\(", t)
        if not m:
            raise Bad("fn rustls_config not found")
        pe = paren_end(t, m.end() - 1)
        params = re.sub(r"\s+", "", t[m.end():pe])
        if params.rstrip(",") != "config:&ServerConfig,certs:Vec<PeerConfig>":
            raise Bad("unexpected parameters of rustls_config: " + params[:80])
        b0 = t.index("{", pe)
        body = t[b0 + 1:paren_end(t, b0, "{", "}")]
        flat = re.sub(r"\s+", "", body)
        anchors = ("letmuttrusted_certs=RootCertStore::empty();" in flat
                   and "forcertincerts.into_iter().filter_map(|peer|peer.certificate){trusted_certs.add(cert)?;}" in flat
                   and len(re.findall(r"trusted_certs\.", flat)) == 2          # the one `.add` and the `.into()`
                   and len(re.findall(r"RootCertStore", flat)) == 1)
        vm = re.search(r"letclient_verifier=WebPkiClientVerifier::builder_with_provider\(trusted_certs\.into\(\),Arc::clone\(&CRYPTO_PROVIDER\),?\)((?:\.\w+\((?:\"[^\"]*\")?\))*);", flat)
        if not vm:
            raise Bad("client verifier is not WebPkiClientVerifier::builder_with_provider(trusted_certs.into(), ..)")
        calls = re.findall(r"\.(\w+)\(", vm.group(1))
        if [c for c in calls if c not in ("allow_unauthenticated", "build", "expect")]:
            raise Bad("unknown option on the client verifier builder: " + vm.group(1)[:80])
        optional = "allow_unauthenticated" in calls
        installed = (len(re.findall(r"\.with_client_cert_verifier\(client_verifier\)", flat)) == 1
                     and "with_no_client_auth" not in flat
                     and len(re.findall(r"client_verifier", flat)) == 2
                     and len(re.findall(r"ServerConfig::builder", flat)) == 1)
        if len(re.findall(r"ClientCertVerifier|dangerous\(\)", flat)) > 0:
            raise Bad("custom certificate verifier in rustls_config")
        val = {"anchors_from_peers": anchors, "client_auth_optional": optional, "verifier_installed": installed, "recognised": True}
    except (Bad, ValueError) as ex:
        why.append(str(ex))
    return val, why


def start_on_arms(t):
    """-> (arms for the four combos, [reasons why something was not recognised], number of
    `SetClientIdentityFromHeader` occurrences understood)"""
    why = []
    found = {}
    n_header_src = 0
    n_header_seen = [0]
    try:
        m = re.search(r"pub async fn start_on\b", t)
        if not m:
            raise Bad("IpaHttpServer::start_on not found")
        b0 = t.index("{", t.index("->", m.end()))
        b1 = paren_end(t, b0, "{", "}")
        body = t[b0 + 1:b1]
        n_header_src = len(re.findall(r"SetClientIdentityFromHeader", body))
        mm = re.search(r"match \(self\.config\.disable_https, listener\)\s*\{", body)
        if not mm:
            raise Bad("match (self.config.disable_https, listener) not found in start_on")
        env = {}

        def bind(lets, env):
            for name, expr in lets:
                n_header_seen[0] += len(re.findall(r"SetClientIdentityFromHeader", expr))
                env[name] = eval_value(expr, env)

        # the `let` that holds the match itself is not a binding of interest
        pre = body[:mm.start()]
        pre = pre[:pre.rfind("let ")] if re.search(r"let\s+\w+\s*=\s*$", pre) else pre
        bind(top_level_lets(pre), env)
        e = paren_end(body, mm.end() - 1, "{", "}")
        mbody = body[mm.end():e]
        pos = 0
        while True:
            am = re.compile(r"\(\s*(true|false|_)\s*,\s*(Some\(\s*\w+\s*\)|None|_)\s*\)\s*=>\s*").search(mbody, pos)
            if not am:
                break
            if "_" in (am.group(1), am.group(2)):
                why.append("wildcard arm in the (disable_https, listener) match")
                pos = am.end()
                continue
            if mbody[am.end()] == "{":
                ae = paren_end(mbody, am.end(), "{", "}")
                ab = mbody[am.end() + 1:ae]
            else:
                ae = stmt_end(mbody.replace(",", ";"), am.end())   # brace-less arm ends at the next top-level comma
                ab = mbody[am.end():ae]
            pos = ae
            key = (am.group(1) == "true", am.group(2) != "None")
            try:
                aenv = dict(env)
                sp = re.search(r"\bspawn_server\s*\(", ab)
                if not sp:
                    raise Bad("no spawn_server(..) call")
                bind(top_level_lets(ab[:sp.start()]), aenv)
                args = split_top(ab[sp.end():paren_end(ab, sp.end() - 1)])
                if len(args) != 4:
                    raise Bad(f"spawn_server called with {len(args)} arguments")
                n_header_seen[0] += len(re.findall(r"SetClientIdentityFromHeader", args[3]))
                server, svc = eval_value(args[1], aenv), eval_value(args[3], aenv)
                if not svc or svc[0] != "svc":
                    raise Bad("service argument of spawn_server is not derived from self.router: " + args[3][:60])
                if not server or server[0] != "server":
                    raise Bad("server argument of spawn_server is not an axum_server constructor: " + args[1][:60])
                if server[1] == "rustls-unrecognising":
                    raise Bad("rustls server without ClientCertRecognizingAcceptor")
                if server[1] == "tls" and not re.search(r"\brustls_config\(\s*&self\.config,\s*self\.network_config\.vec_peers\(\)\s*\)", ab):
                    raise Bad("TLS arm does not build its rustls config with rustls_config(&self.config, self.network_config.vec_peers())")
                if (server[2] in ("from_tcp", "from_tcp_rustls")) != key[1]:
                    raise Bad(f"arm uses axum_server::{server[2]} although listener is {'given' if key[1] else 'None'}")
                if key in found:
                    raise Bad("duplicate arm")
                found[key] = {"disable_https": key[0], "listener": key[1], "header_layer": svc[1], "tls_acceptor": server[1] == "tls", "recognised": True}
            except (Bad, ValueError) as ex:
                why.append(f"arm ({str(key[0]).lower()}, {'Some(listener)' if key[1] else 'None'}): {ex}")
        if n_header_seen[0] != n_header_src:
            why.append(f"SetClientIdentityFromHeader occurs {n_header_src} times in start_on but only {n_header_seen[0]} occurrences were understood")
            found = {}
    except (Bad, ValueError) as ex:
        why.append(str(ex))
    arms = []
    for d, l in COMBOS:
        if (d, l) in found:
            arms.append(found[(d, l)])
        else:
            if not any(w.startswith(f"arm ({str(d).lower()}, {'Some(listener)' if l else 'None'})") for w in why):
                why.append(f"arm ({str(d).lower()}, {'Some(listener)' if l else 'None'}) not recognised")
            # fallback: what the property demands, flagged, so that the model stays executable
            arms.append({"disable_https": d, "listener": l, "header_layer": d, "tls_acceptor": not d, "recognised": False})
    return arms, why, n_header_seen[0]


def extract():
    try:
        consts = http_serde_paths()
    except Exception as e:  # noqa
        fail("routes.paths", f"{type(e).__name__}: {e}")
        return {}
    files = []
    for root, _, fns in os.walk(os.path.join(SRC, H)):
        for fn in sorted(fns):
            if fn.endswith(".rs"):
                files.append(os.path.relpath(os.path.join(root, fn), SRC))
    files.sort()
    routers = {}   # qualified name -> (tree, rel)
    route_census = 0
    for rel in files:
        raw = read(rel)
        t = strip_comments(cut_tests(raw))
        route_census += len(re.findall(r"\.route\s*\(", t))
        mod = rel[len(H) + 1:-3].replace("/", "::")      # e.g. query::create, query::mod, mod, echo
        mod = re.sub(r"(^|::)mod$", "", mod)               # query::mod -> query ; mod -> ""
        for name, (body, pos) in fn_bodies(t).items():
            if not (name == "router" or name.endswith("_router")):
                continue
            try:
                tree = parse_expr(body)
            except Bad as e:
                fail("routes.router." + (mod + "::" if mod else "") + name, str(e))
                continue
            q = (mod + "::" if mod else "") + name
            routers[q] = (tree, rel)
            m0 = re.search(r"pub fn " + name + r"\b", raw)
            record("routes.router." + q, rel, raw, m0, repr(tree))
    for want in ("mpc_router", "shard_router", "query::query_router", "query::h2h_router", "query::s2s_router"):
        if want not in routers:
            fail("routes.router." + want, "router function not found / not parsed")
    if any(w not in routers for w in ("mpc_router", "shard_router", "query::query_router", "query::h2h_router", "query::s2s_router")):
        return {}

    # ---- resolve calls and paths, emit Lean terms
    problems = []
    reachable_routes = [0]

    def emit(tree, mod, src):
        kind = tree[0]
        if kind == "new":
            return "RouterExpr.new"
        if kind == "call":
            callee = tree[1]
            segs = callee.split("::")
            # candidates: relative to current module, then absolute under handlers
            cands = []
            base = mod.split("::") if mod else []
            cands.append("::".join(base + segs))
            cands.append("::".join(segs))
            for c in cands:
                if c in routers:
                    sub_mod = "::".join(c.split("::")[:-1])
                    return "(" + emit(routers[c][0], sub_mod, c) + ")"
            problems.append(f"router call {callee} in {src} does not resolve to an extracted router")
            return "RouterExpr.new"
        if kind == "merge":
            return f"(RouterExpr.merge {emit(tree[1], mod, src)} {emit(tree[2], mod, src)})"
        if kind == "nest":
            try:
                p, _ = resolve_path(tree[2], consts, None)
            except Bad as e:
                problems.append(str(e))
                p = "?"
            return f"(RouterExpr.nest {emit(tree[1], mod, src)} {lean_segs(p)} {emit(tree[3], mod, src)})"
        if kind == "route":
            try:
                p, _ = resolve_path(tree[2], consts, None)
            except Bad as e:
                problems.append(str(e))
                p = "?"
            reachable_routes[0] += 1
            return f"(RouterExpr.route {emit(tree[1], mod, src)} {lean_segs(p)} Method.{tree[3]} {lean_str(src + ':' + tree[4])})"
        if kind == "layer":
            l = tree[2]
            lt = f"(Layer.auth Flavor.{l[1].lower()})" if l[0] == "auth" else "Layer.extension"
            if l[0] == "auth" and l[1] not in ("Helper", "Shard"):
                problems.append("unknown connection flavor " + l[1])
            return f"(RouterExpr.layer {emit(tree[1], mod, src)} {lt})"
        raise AssertionError(kind)

    defs = {}
    for q, lean_name in (("query::query_router", "queryRouter"), ("query::h2h_router", "h2hRouter"), ("query::s2s_router", "s2sRouter")):
        defs[lean_name] = emit(routers[q][0], "query", q)
    reachable_routes[0] = 0
    defs["mpcRouter"] = emit(routers["mpc_router"][0], "", "mpc_router")
    n_mpc = reachable_routes[0]
    reachable_routes[0] = 0
    defs["shardRouter"] = emit(routers["shard_router"][0], "", "shard_router")
    n_shard = reachable_routes[0]
    for pr in sorted(set(problems)):
        fail("routes.resolve", pr)
    if problems:
        return {}

    # census: every `.route(` in handlers/** belongs to a `router` fn that is mounted by a top-level router
    mounted = set()

    def mounted_of(tree, mod):
        kind = tree[0]
        if kind == "call":
            segs = tree[1].split("::")
            base = mod.split("::") if mod else []
            for c in ("::".join(base + segs), "::".join(segs)):
                if c in routers:
                    if c not in mounted:
                        mounted.add(c)
                        mounted_of(routers[c][0], "::".join(c.split("::")[:-1]))
                    break
        for x in tree[1:]:
            if isinstance(x, tuple) and x and x[0] in ("new", "call", "merge", "nest", "route", "layer"):
                mounted_of(x, mod)

    for top in ("mpc_router", "shard_router"):
        mounted.add(top)
        mounted_of(routers[top][0], "")
    unmounted = sorted(q for q in routers if q not in mounted)

    def count_routes(tree):
        return (1 if tree[0] == "route" else 0) + sum(count_routes(x) for x in tree[1:] if isinstance(x, tuple) and x and x[0] in ("new", "call", "merge", "nest", "route", "layer"))

    in_router_fns = sum(count_routes(tr) for tr, _ in routers.values())
    raw0 = read(H + "/mod.rs")
    m0 = re.search(r"pub fn mpc_router", raw0)
    record("routes.census", H + "/mod.rs", raw0, m0, {"route_calls_in_source": route_census, "route_calls_in_router_fns": in_router_fns,
                                                      "unmounted_routers": unmounted, "mpc_routes": n_mpc, "shard_routes": n_shard})
    if route_census != in_router_fns:
        fail("routes.census", f"{route_census} .route( calls under {H} but only {in_router_fns} inside extracted router functions")
    if unmounted:
        fail("routes.census", "router functions not mounted by mpc_router/shard_router: " + ", ".join(unmounted))

    # ---- flattened table for the harness / oracle (group = the composition function that mounts the route)
    def flat(tree, mod, group):
        kind = tree[0]
        if kind == "new":
            return []
        if kind == "call":
            segs = tree[1].split("::")
            base = mod.split("::") if mod else []
            for c in ("::".join(base + segs), "::".join(segs)):
                if c in routers:
                    g = {"query::query_router": "query", "query::h2h_router": "h2h", "query::s2s_router": "s2s"}.get(c, group)
                    return flat(routers[c][0], "::".join(c.split("::")[:-1]), g)
            return []
        if kind == "merge":
            return flat(tree[1], mod, group) + flat(tree[2], mod, group)
        if kind == "nest":
            pre = resolve_path(tree[2], consts, None)[0]
            return flat(tree[1], mod, group) + [dict(r, path=pre.rstrip("/") + (r["path"] if r["path"] != "/" else "")) for r in flat(tree[3], mod, group)]
        if kind == "route":
            return flat(tree[1], mod, group) + [{"path": resolve_path(tree[2], consts, None)[0], "method": tree[3].upper(), "group": group, "auth": []}]
        if kind == "layer":
            rs = flat(tree[1], mod, group)
            if tree[2][0] == "auth":
                for r in rs:
                    r["auth"] = [tree[2][1].lower()] + r["auth"]
            return rs
        raise AssertionError(kind)

    table = [dict(r, server="mpc") for r in flat(routers["mpc_router"][0], "", "top")] + \
            [dict(r, server="shard") for r in flat(routers["shard_router"][0], "", "top")]
    record("routes.table", H + "/mod.rs", raw0, m0, table)

    # ---- start_on arms
    rel = "net/server/mod.rs"
    raw = read(rel)
    t = strip_comments(cut_tests(raw))
    arms, why, n_understood = start_on_arms(t)
    # census over net/server/** (non-test code): the header layer is constructed nowhere but at the
    # sites understood inside start_on, and request extensions are inserted in exactly two places
    n_ctor, n_ins = 0, 0
    for root, _, fns in os.walk(os.path.join(SRC, "net/server")):
        for fn in sorted(fns):
            if fn.endswith(".rs"):
                ft = strip_comments(cut_tests(read(os.path.relpath(os.path.join(root, fn), SRC))))
                n_ctor += len(re.findall(r"SetClientIdentityFromHeader\s*::\s*(?:<[^>]*>\s*::\s*)?new\b|SetClientIdentityFromHeader\s*\{\s*inner", ft))
                n_ins += len(re.findall(r"extensions_mut\(\)", ft))
    if n_ctor != n_understood:
        why.append(f"SetClientIdentityFromHeader is constructed at {n_ctor} sites under net/server but only {n_understood} are understood (inside start_on)")
    for w in why:
        fail("routes.start_on", w)
    m0 = re.search(r"match \(self\.config\.disable_https, listener\)", raw) or re.search(r"pub async fn start_on", raw) or re.search(r"mod ", raw)
    record("routes.start_on", rel, raw, m0, arms)
    setup, swhy = tls_setup(t)
    for w in swhy:
        fail("routes.tls_setup", w)
    record("routes.tls_setup", rel, raw, re.search(r"async fn rustls_config", raw) or m0, setup)
    # the only places that may insert a ClientIdentity extension
    ins = re.findall(r"extensions_mut\(\)\s*\.insert\(", t)
    record("routes.identity_inserts", rel, raw, re.search(r"extensions_mut\(\)", raw), {"mod.rs": len(ins), "net/server/**": n_ins})
    if len(ins) != 2 or n_ins != 2:
        fail("routes.identity_inserts", f"expected exactly 2 places touching request extensions under net/server (certificate, header; both in mod.rs), found {len(ins)} in mod.rs, {n_ins} in total")
    # HelperAuthentication: extension present ? forward : 401
    qraw = read(H + "/query/mod.rs")
    qt = strip_comments(cut_tests(qraw))
    # the whole body of HelperAuthentication::call must be the single match
    ok_shape = False
    mi = re.search(r"impl<[^>]*>\s*Service<Request<B>>\s*for\s*HelperAuthentication<S,\s*F>", qt)
    mc = re.search(r"fn call\s*\(\s*&mut self\s*,\s*(mut\s+)?req\s*:\s*Request<B>\s*\)\s*->\s*Self::Future\s*\{", qt[mi.end():]) if mi else None
    if mc:
        c0 = mi.end() + mc.end() - 1
        cbody = re.sub(r"\s+", "", qt[c0 + 1:paren_end(qt, c0, "{", "}")])
        ok_shape = mc.group(1) is None and re.fullmatch(
            r"matchreq\.extensions\(\)\.get::<ClientIdentity<F::Identity>>\(\)\{"
            r"Some\(ClientIdentity\(_\)\)=>self\.inner\.call\(req\)\.left_future\(\),"
            r"None=>ready\(Ok\(\(StatusCode::UNAUTHORIZED,\"[^\"]*\",?\)\.into_response\(\)\)\)\.right_future\(\),?\}", cbody) is not None
    if ok_shape:
        record("routes.auth_layer", H + "/query/mod.rs", qraw, re.search(r"for HelperAuthentication<S, F>", qraw) or re.search(r"HelperAuthentication", qraw), "extension present ? forward : 401")
    else:
        fail("routes.auth_layer", "HelperAuthentication::call no longer has the shape `match extension { Some(ClientIdentity(_)) => inner.call(req), None => 401 }`")

    L = []
    L.append("import IpaVerif.Model.AuthTypes")
    L.append("/-! GENERATED by tools/extract.py (plugin c20_routes) from ipa-core/src/net/server/** and net/http_serde.rs — do not edit. -/")
    L.append("namespace IpaVerif.Generated.Routes")
    L.append("open IpaVerif.Auth")
    L.append("")
    for name in ("queryRouter", "h2hRouter", "s2sRouter", "mpcRouter", "shardRouter"):
        L.append(f"def {name} : RouterExpr :=\n  {defs[name]}")
        L.append("")
    L.append("/-- arms of `start_on`: (disable_https, listener given, the service handed to spawn_server is wrapped in SetClientIdentityFromHeader, the server uses the TLS acceptor, arm recognised by the translator) -/")
    L.append("def startOnArms : List StartArm := [")
    L.append(",\n".join(
        f"  {{ disableHttps := {str(a['disable_https']).lower()}, listener := {str(a['listener']).lower()}, headerLayer := {str(a['header_layer']).lower()}, tlsAcceptor := {str(a['tls_acceptor']).lower()}, recognised := {str(a['recognised']).lower()} }}"
        for a in arms))
    L.append("]")
    L.append("")
    b = lambda x: str(bool(x)).lower()
    L.append("/-- `rustls_config`: trust anchors are exactly the peers' certificates; `allow_unauthenticated`; the verifier is installed in the server config -/")
    L.append(f"def tlsSetup : TlsSetup :=\n  {{ anchorsFromPeers := {b(setup['anchors_from_peers'])}, clientAuthOptional := {b(setup['client_auth_optional'])}, verifierInstalled := {b(setup['verifier_installed'])}, recognised := {b(setup['recognised'])} }}")
    L.append("")
    L.append("end IpaVerif.Generated.Routes")
    return {"Routes.lean": "\n".join(L) + "\n"}
