"""Translator plugin for C14: constants and the small pure function bodies of
ipa-core/src/helpers/buffers/{circular,ordering_sender,unordered_receiver}.rs the Lean models were
transcribed from.  Constants are regenerated into Generated/Buffers.lean; the bodies of the cursor
arithmetic are compared (comments stripped, whitespace collapsed) with the text the model mirrors,
so that an edit of e.g. `wrap`, `len`, `can_read`, `WaitingShard::wake` or `wake_next` breaks the
obligation `translator:buffers.*` even if no generated constant changes."""
import re
from extract import read, record, fail


def norm(body):
    body = re.sub(r"//[^\n]*", "", body)
    return re.sub(r"\s+", " ", body).strip()


def fn_body(text, sig_regex):
    """Return (match, body) of the first fn whose signature matches, using brace matching."""
    m = re.search(sig_regex, text)
    if not m:
        return None, None
    i = text.index("{", m.end() - 1)
    depth, j = 0, i
    while j < len(text):
        if text[j] == "{":
            depth += 1
        elif text[j] == "}":
            depth -= 1
            if depth == 0:
                break
        j += 1
    return m, text[i + 1:j]


CIRC = {
    "len": (r"pub fn len\(&self\) -> usize \{",
            "if self.write >= self.read { self.wrap(self.write - self.read) } else { self.capacity() + self.mask(self.write) - self.mask(self.read) }"),
    "can_read": (r"pub fn can_read\(&self\) -> bool \{", "(self.closed && !self.is_empty()) || self.len() >= self.read_size"),
    "can_write": (r"pub fn can_write\(&self\) -> bool \{", "!self.closed && self.remaining() >= self.write_size"),
    "is_empty": (r"fn is_empty\(&self\) -> bool \{", "self.read == self.write"),
    "remaining": (r"fn remaining\(&self\) -> usize \{", "self.capacity() - self.len()"),
    "mask": (r"fn mask\(&self, val: usize\) -> usize \{", "val % self.data.len()"),
    "inc": (r"fn inc\(&self, val: usize, delta: usize\) -> usize \{", "self.wrap(val + delta)"),
    "range": (r"fn range\(&self, ptr: usize, unit: usize\) -> RangeInclusive<usize> \{", "self.mask(ptr)..=self.mask(ptr + unit - 1)"),
    "take": (r"pub fn take\(&mut self\) -> Vec<u8> \{",
             "if !self.can_read() { return Vec::new(); } let delta = std::cmp::min(self.read_size, self.len()); let mut ret = Vec::with_capacity(delta); let range = self.range(self.read, delta); if range.end() < range.start() { ret.extend_from_slice(&self.data[*range.start()..]); ret.extend_from_slice(&self.data[..=*range.end()]); } else { ret.extend_from_slice(&self.data[range]); } self.read = self.inc(self.read, delta); ret"),
}

SENDER = {
    "shard_add": (r"fn add\(&mut self, current: usize, i: usize, w: &Waker\) -> Result<\(\), \(\)> \{",
                  "if current < self.woken_at { Err(())?; } let item = WakerItem { i, w: w.clone() }; for j in (0..self.wakers.len()).rev() { match self.wakers[j].i.cmp(&i) { Ordering::Greater => (), Ordering::Equal => { self.wakers[j] = item; return Ok(()); } Ordering::Less => { self.wakers.insert(j + 1, item); return Ok(()); } } } self.wakers.insert(0, item); Ok(())"),
    "shard_wake": (r"fn wake\(&mut self, i: usize\) \{",
                   "self.woken_at = std::cmp::max(self.woken_at, i); if let Some(idx) = self .wakers .iter() .take_while(|wi| wi.i <= i) .position(|wi| wi.i == i) { drop(self.wakers.drain(0..idx)); self.wakers.pop_front().unwrap().w.wake(); }"),
    "state_write": (r"fn write<M: Message>\(&mut self, m: &M, cx: &Context<'_>\) -> Poll<\(\)> \{",
                    "if !self.buf.can_write() { Self::save_waker(&mut self.write_ready, cx); return Poll::Pending; } self.buf.next().write(m); if self.buf.can_read() { Self::wake(&mut self.stream_ready); } Poll::Ready(())"),
    "state_take": (r"fn take\(&mut self, cx: &Context<'_>\) -> Poll<Vec<u8>> \{",
                   "if self.buf.can_read() { let can_write = self.buf.can_write(); let next = self.buf.take(); if !can_write { Self::wake(&mut self.write_ready); } Poll::Ready(next) } else { Self::save_waker(&mut self.stream_ready, cx); Poll::Pending }"),
    "state_close": (r"fn close\(&mut self\) \{(?=\s*self\.buf\.close)", "self.buf.close(); Self::wake(&mut self.stream_ready);"),
}

RECEIVER = {
    "is_next": (r"fn is_next\(&self, i: usize\) -> bool \{", "i == self.next"),
    "wake_next": (r"fn wake_next\(&mut self\) \{",
                  "self.next += 1; let index = self.next % self.wakers.len(); if let Some(w) = self.wakers[index].take() { w.wake(); } if self.next % (self.wakers.len() / 2) == 0 { #[cfg(feature = \"stall-detection\")] for (w, _) in take(&mut self.overflow_wakers) { w.wake(); } #[cfg(not(feature = \"stall-detection\"))] for w in take(&mut self.overflow_wakers) { w.wake(); } }"),
    "spare_read": (r"fn read<M: Message>\(&mut self\) -> Option<Result<M, M::DeserializationError>> \{",
                   "let end = self.offset + M::Size::USIZE; if end <= self.buf.len() { let m = M::deserialize(GenericArray::from_slice(&self.buf[self.offset..end])); self.offset = end; Some(m) } else { None }"),
}


def check_bodies(prefix, rel, text, table):
    for name, (sig, want) in table.items():
        item = f"{prefix}.{name}"
        m, body = fn_body(text, sig)
        if m is None:
            fail(item, f"function not found in {rel}")
            continue
        got = norm(body)
        record(item, rel, text, m, got[:200])
        if got != norm(want):
            fail(item, f"body changed: now `{got[:240]}`; the Lean model mirrors `{norm(want)[:240]}`")


def extract():
    consts = {}
    # ---- circular.rs
    rel = "helpers/buffers/circular.rs"
    t = read(rel)
    m = re.search(r"fn wrap\(&self, val: usize\) -> usize \{\s*val % \(self\.data\.len\(\) \* (\d+)\)\s*\}", t)
    if m:
        consts["circWrapFactor"] = int(m.group(1))
        record("buffers.circ.wrap_factor", rel, t, m, int(m.group(1)))
    else:
        fail("buffers.circ.wrap_factor", "fn wrap: `val % (self.data.len() * K)` not found")
    check_bodies("buffers.circ", rel, t, CIRC)
    # ---- ordering_sender.rs
    rel = "helpers/buffers/ordering_sender.rs"
    t = read(rel)
    for key, rx, nm in (("senderShards", r"const SHARDS: usize = (\d+);", "buffers.sender.shards"),
                        ("senderContiguousBits", r"const CONTIGUOUS_BITS: u32 = (\d+);", "buffers.sender.contiguous_bits")):
        m = re.search(rx, t)
        if m:
            consts[key] = int(m.group(1))
            record(nm, rel, t, m, int(m.group(1)))
        else:
            fail(nm, "constant not found")
    m = re.search(r"let idx = \(i >> Self::CONTIGUOUS_BITS\) % Self::SHARDS;", t)
    if m:
        record("buffers.sender.shard_index", rel, t, m, "(i >> CONTIGUOUS_BITS) % SHARDS")
    else:
        fail("buffers.sender.shard_index", "shard index formula changed")
    check_bodies("buffers.sender", rel, t, SENDER)
    # ---- unordered_receiver.rs
    rel = "helpers/buffers/unordered_receiver.rs"
    t = read(rel)
    m = re.search(r"assert!\(capacity\.get\(\) > (\d+), \"a capacity of 1 is too small\"\);", t)
    if m:
        consts["receiverMinCapacity"] = int(m.group(1)) + 1
        record("buffers.receiver.min_capacity", rel, t, m, int(m.group(1)) + 1)
    else:
        fail("buffers.receiver.min_capacity", "capacity assertion not found")
    m = re.search(r"if self\.next % \(self\.wakers\.len\(\) / (\d+)\) == 0 \{", t)
    if m:
        consts["receiverOverflowDiv"] = int(m.group(1))
        record("buffers.receiver.overflow_div", rel, t, m, int(m.group(1)))
    else:
        fail("buffers.receiver.overflow_div", "overflow wake cadence `next % (len / K) == 0` not found")
    m = re.search(r"if i > self\.next \+ self\.wakers\.len\(\) \{", t)
    if m:
        record("buffers.receiver.overflow_cond", rel, t, m, "i > next + wakers.len()")
    else:
        fail("buffers.receiver.overflow_cond", "overflow condition changed")
    check_bodies("buffers.receiver", rel, t, RECEIVER)

    lines = ["/-! GENERATED by tools/extract.py (tools/extractors/c14_buffers.py) from",
             "ipa-core/src/helpers/buffers/{circular,ordering_sender,unordered_receiver}.rs — do not edit. -/",
             "namespace IpaVerif.Generated.Buffers", ""]
    for k in ("circWrapFactor", "senderShards", "senderContiguousBits", "receiverMinCapacity", "receiverOverflowDiv"):
        lines.append(f"def {k} : Nat := {consts.get(k, 0)}")
    lines += ["", "end IpaVerif.Generated.Buffers", ""]
    return {"Buffers.lean": "\n".join(lines)}
