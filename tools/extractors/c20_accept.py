"""Translator plugin (C20): which of the presented certificates decides the TLS peer identity.

`ClientCertRecognizingAcceptor::accept` (net/server/mod.rs) runs once per accepted TLS connection,
after rustls completed the handshake. `peer_certificates()` is the client's whole Certificate
message: the end-entity certificate first (validated by webpki against the trust anchors; the
client proved possession of its key in CertificateVerify), followed by whatever other
certificates the client chose to append (unauthenticated bytes). Pinned on every run:

  accept.select          the certificate handed to identify_cert is
                         `stream.get_ref().1.peer_certificates().and_then(<[_]>::first)`;
                         `peer_certificates` is read nowhere else under net/server
  accept.identify_once   `network_config.identify_cert(opt_cert)` is the only call of identify_cert in
                         ipa-core/src, its result alone (`option_id.map(ClientIdentity)`) becomes the
                         `id` of the only `SetClientIdentityFromCertificate { .. }` constructed, and
                         `SetClientIdentityFromCertificate::call` inserts exactly that id
  accept.identify_cert   `NetworkConfig::identify_cert` (config.rs): `let cert = cert?;` then the first
                         `(id, p)` of `zip(identities, peers)` with `p.certificate.as_ref() == Some(cert)`
                         (exact DER equality), else `None`; `identities` is built in peer order by
                         `new_mpc` / `new_shards`

Generated: AcceptCert.lean (`acceptSelect : AcceptSelect`). An unrecognised shape is reported as a
broken item and generates the fallback flagged `recognised := false` (model stays executable, the
theorem `accept_selection_ok` fails, the suites still run and exhibit the failing chain).
"""
import os, re
from extract import read, record, fail, SRC


def strip_comments(t):
    return re.sub(r"//[^\n]*", "", t)


def cut_tests(t):
    m = re.search(r"#\[cfg\(all\(test[^\]]*\]\s*(?:#\[[^\]]*\]\s*)*(?:pub )?mod \w+", t)
    return t if not m else t[:m.start()]


def brace_end(t, start):
    assert t[start] == "{"
    depth = 0
    for i in range(start, len(t)):
        if t[i] == "{":
            depth += 1
        elif t[i] == "}":
            depth -= 1
            if depth == 0:
                return i
    raise ValueError("unbalanced")


def flat(s):
    return re.sub(r"\s+", "", s)


def fn_body(t, header_re, start=0):
    """body (without braces) of the first fn whose header matches, searching from `start`"""
    m = re.compile(header_re).search(t, start)
    if not m:
        return None, None
    b0 = t.index("{", m.end() - 1)
    return t[b0 + 1:brace_end(t, b0)], m


FIRST = r"(?:\.and_then\(<\[_\]>::first\)|\.and_then\(\|(\w+)\|\1\.first\(\)\))"


def extract():
    sel = {"first_only": True, "identify_once": True, "exact_match": True, "recognised": True}
    rel = "net/server/mod.rs"
    raw = read(rel)
    t = strip_comments(cut_tests(raw))

    # ---- accept: selection of the certificate
    mi = re.search(r"impl<[^>]*>\s*Accept<I,\s*S>\s*for\s*ClientCertRecognizingAcceptor<F>", t)
    body = None
    if mi:
        body, _ = fn_body(t, r"fn accept\s*\(\s*&self\s*,\s*stream\s*:\s*I\s*,\s*service\s*:\s*S\s*\)\s*->\s*Self::Future\s*\{", mi.end())
    if body is None:
        fail("accept.select", "impl Accept for ClientCertRecognizingAcceptor / fn accept not found")
        fail("accept.identify_once", "fn accept not found")
        sel["recognised"] = False
    else:
        fb = flat(body)
        n_pc = 0
        for root, _, fns in os.walk(os.path.join(SRC, "net/server")):
            for fn in sorted(fns):
                if fn.endswith(".rs"):
                    ft = strip_comments(cut_tests(read(os.path.relpath(os.path.join(root, fn), SRC))))
                    n_pc += len(re.findall(r"\bpeer_certificates\b", ft))
        ms = re.search(r"letopt_cert=stream\.get_ref\(\)\.1\.peer_certificates\(\)" + FIRST + r";", fb)
        why = None
        if not ms:
            why = ("the certificate handed to identify_cert is no longer `stream.get_ref().1.peer_certificates()"
                   ".and_then(<[_]>::first)` (the authenticated end-entity certificate)")
        elif n_pc != 1:
            why = f"peer_certificates is read at {n_pc} places under net/server (expected: once, in accept)"
        elif len(re.findall(r"\bopt_cert\b", body)) != 2:
            why = "opt_cert is used other than once as the argument of identify_cert"
        if why:
            fail("accept.select", why)
            sel["first_only"], sel["recognised"] = True, False
        mraw = re.search(r"\.peer_certificates\(\)", raw)
        record("accept.select", rel, raw, mraw or re.search(r"fn accept", raw) or re.search(r"mod ", raw),
               "first" if not why else "unrecognised")

        # ---- identify_cert applied exactly once, its result alone is the identity
        why = None
        n_calls = 0
        for root, _, fns in os.walk(SRC):
            for fn in sorted(fns):
                if fn.endswith(".rs"):
                    ft = strip_comments(cut_tests(read(os.path.relpath(os.path.join(root, fn), SRC))))
                    n_calls += len(re.findall(r"\.\s*identify_cert\s*\(", ft))
        n_ctor = len(re.findall(r"SetClientIdentityFromCertificate\s*(?:::\s*<[^>]*>\s*)?\{\s*inner", t))
        if len(re.findall(r"identify_cert", fb)) != 1 or "letoption_id:Option<F::Identity>=network_config.identify_cert(opt_cert);" not in fb:
            why = "accept no longer calls `network_config.identify_cert(opt_cert)` exactly once"
        elif n_calls != 1:
            why = f"identify_cert is called at {n_calls} places in ipa-core/src (expected: once, in accept)"
        elif "letclient_id=option_id.map(ClientIdentity);" not in fb or len(re.findall(r"\boption_id\b", body)) != 2:
            why = "the identity is no longer `option_id.map(ClientIdentity)` alone"
        elif not re.search(r"letservice=SetClientIdentityFromCertificate\{inner:service,id:client_id,?\};Ok\(\(stream,service\)\)", fb) \
                or len(re.findall(r"\bclient_id\b", body)) != 2:
            why = "SetClientIdentityFromCertificate is no longer built as { inner: service, id: client_id } and returned"
        elif n_ctor != 1:
            why = f"SetClientIdentityFromCertificate is constructed at {n_ctor} places in net/server/mod.rs (expected: once)"
        else:
            ms2 = re.search(r"impl<[^>]*>\s*Service<Request<B>>\s*for\s*SetClientIdentityFromCertificate<S,\s*F>", t)
            cb = None
            if ms2:
                cb, _ = fn_body(t, r"fn call\s*\(\s*&mut self\s*,\s*mut\s+req\s*:\s*Request<B>\s*\)\s*->\s*Self::Future\s*\{", ms2.end())
            if cb is None or flat(cb) != "ifletSome(id)=self.id{req.extensions_mut().insert(id);}self.inner.call(req)":
                why = "SetClientIdentityFromCertificate::call no longer is `if let Some(id) = self.id { insert(id) } inner.call(req)`"
        if why:
            fail("accept.identify_once", why)
            sel["recognised"] = False
        record("accept.identify_once", rel, raw, re.search(r"network_config\s*\.\s*identify_cert\s*\(", raw) or re.search(r"fn accept", raw) or re.search(r"mod ", raw),
               {"identify_cert_calls": n_calls, "constructed": n_ctor, "ok": why is None})

    # ---- identify_cert: exact DER equality, peer order, early return without certificate
    rel = "config.rs"
    raw = read(rel)
    t = strip_comments(cut_tests(raw))
    why = None
    body, m = fn_body(t, r"pub fn identify_cert\s*\(\s*&self\s*,\s*cert\s*:\s*Option<&CertificateDer>\s*\)\s*->\s*Option<F::Identity>\s*\{")
    if body is None:
        why = "pub fn identify_cert(&self, cert: Option<&CertificateDer>) -> Option<F::Identity> not found"
    else:
        fb = flat(body)
        if not re.fullmatch(r"letcert=cert\?;for\(id,p\)inzip\(self\.identities\.iter\(\),self\.peers\.iter\(\)\)\{"
                            r"ifp\.certificate\.as_ref\(\)==Some\(cert\)\{returnSome\(\*id\);\}\}"
                            r"(?:tracing::error!\((?:[^;\"]|\"[^\"]*\")*\);)?None", fb):
            why = ("identify_cert no longer is `let cert = cert?; for (id, p) in zip(identities, peers) { if p.certificate.as_ref() == "
                   "Some(cert) { return Some(*id); } } None`")
        else:
            ft = flat(t)
            if "Self{peers:ring,client,identities:HelperIdentity::make_three().to_vec(),}" not in ft:
                why = "new_mpc no longer pairs the ring with HelperIdentity::make_three() in order"
            elif "letidentities=(0u32..peers.len().try_into().unwrap()).map(ShardIndex::from).collect();Self{peers,client,identities,}" not in ft:
                why = "new_shards no longer pairs peer i with ShardIndex i"
            else:
                n_use = 0
                for root, _, fns in os.walk(SRC):
                    for fn in sorted(fns):
                        if fn.endswith(".rs"):
                            n_use += len(re.findall(r"\.\s*identities\b", strip_comments(cut_tests(read(os.path.relpath(os.path.join(root, fn), SRC))))))
                if len(re.findall(r"\bidentities\s*:", t)) != 2 or n_use != 1:
                    why = (f"NetworkConfig.identities is built or touched somewhere else than new_mpc / new_shards / identify_cert "
                           f"({n_use} field accesses in ipa-core/src, expected 1)")
    if why:
        fail("accept.identify_cert", why)
        sel["exact_match"], sel["recognised"] = True, False
    record("accept.identify_cert", rel, raw, re.search(r"pub fn identify_cert", raw) or re.search(r"struct NetworkConfig", raw) or re.search(r"use ", raw),
           "exact DER equality, first configured peer, None without certificate" if not why else "unrecognised")

    b = lambda x: str(bool(x)).lower()
    L = ["import IpaVerif.Model.AuthTypes",
         "/-! GENERATED by tools/extract.py (plugin c20_accept) from ipa-core/src/net/server/mod.rs and config.rs — do not edit. -/",
         "namespace IpaVerif.Generated.AcceptCert",
         "open IpaVerif.Auth",
         "",
         "/-- `ClientCertRecognizingAcceptor::accept`: identify_cert is applied once, to the FIRST presented certificate only; "
         "`identify_cert` compares by exact DER equality in peer order -/",
         "def acceptSelect : AcceptSelect :=",
         f"  {{ firstOnly := {b(sel['first_only'])}, identifyOnce := {b(sel['identify_once'])}, exactMatch := {b(sel['exact_match'])}, recognised := {b(sel['recognised'])} }}",
         "",
         "end IpaVerif.Generated.AcceptCert"]
    return {"AcceptCert.lean": "\n".join(L) + "\n"}
