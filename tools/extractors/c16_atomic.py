"""Translator plugin for C16 (b21): "record the request, decide readiness, take the batch out" is ONE critical section.

`DZKPUpgraded::validate_record` / `Upgraded::validate_record` lock the batcher mutex ONCE and call
`Batcher::validate_record(&mut self, ..)` on the guard; that function calls `is_ready_for_validation(&mut self, ..)` exactly once
before building the returned future, and `is_ready_for_validation` sets the pending bit, increments `pending_count`, compares it
with the batch's record count and pops / takes the batch — all on the same `&mut self`, i.e. under the caller's single guard.
The batcher never locks anything itself. `Model/BatcherAtomic.lean` makes a `validate_record` call one atomic step exactly when
this plugin finds that shape (theorems `at_most_one_validator`, `exactly_one_validator`, `code_validate_is_atomic`; the
check-then-act split is the `decide`d `split_two_validators`; the concrete input comes from suite `c16_race`). Items `batcher.atomic.*`."""
import re
from extract import read, record, fail

PFX = "batcher.atomic."
LOCKS = r"\.lock\(\)|\.try_lock\(\)|\.write\(\)|\.read\(\)"


def norm(body):
    body = re.sub(r"//[^\n]*", "", body)
    return re.sub(r"\s+", " ", body).strip()


def block_after(text, start):
    i = text.index("{", start)
    depth, j = 0, i
    while j < len(text):
        if text[j] == "{":
            depth += 1
        elif text[j] == "}":
            depth -= 1
            if depth == 0:
                break
        j += 1
    return text[i + 1:j]


def wrapper(name, rel, sig_re, chain_re):
    t = read(rel)
    m = re.search(sig_re, t, re.S)
    if not m:
        fail(name, "validate_record wrapper not found")
        return 0, False
    body = norm(block_after(t, m.end() - 1))
    locks = len(re.findall(LOCKS, body))
    calls = len(re.findall(r"\.validate_record\(", body))
    chained = re.search(chain_re, body) is not None
    record(name, rel, t, m, {"lock_acquisitions": locks, "batcher_calls": calls, "call_on_the_guard": chained})
    if locks != 1 or calls != 1 or not chained:
        fail(name, f"{locks} lock acquisitions, {calls} Batcher calls, Batcher::validate_record called on the guard of that one "
                   f"acquisition = {chained}: noting the request and deciding readiness are no longer under one guard; body now `{body[:300]}`")
    return locks, chained and calls == 1


def extract():
    rel = "protocol/context/batcher.rs"
    b = read(rel)
    code = b.split("#[cfg(all(test, unit_test))]")[0]
    self_locks = len(re.findall(LOCKS, norm(code)))
    m0 = re.search(r"pub\(super\) struct Batcher<'a, B> \{", b)
    if m0 and self_locks == 0:
        record(PFX + "no_inner_lock", rel, b, m0, {"lock_calls_in_batcher_rs": 0})
    else:
        fail(PFX + "no_inner_lock", f"{self_locks} lock acquisitions inside batcher.rs (the model: the caller's guard is the only lock)")
    # Batcher::validate_record: &mut self, exactly one readiness call, made before the future is built
    ready_calls, before_future = 0, False
    m = re.search(r"pub fn validate_record<VF, Fut>\(\s*&mut self,\s*record_id: RecordId,\s*validate_batch: VF,\s*\)", b)
    if not m:
        fail(PFX + "validate_record.one_readiness_call", "Batcher::validate_record(&mut self, ..) not found")
    else:
        body = norm(block_after(b, b.index("{", b.index("Fut: Future<Output = Result<(), Error>>,", m.end())) ))
        ready_calls = len(re.findall(r"self\.is_ready_for_validation\(", body))
        other_self = [x for x in re.findall(r"self\.(\w+)", body) if x != "is_ready_for_validation"]
        i_ready, i_async = body.find("self.is_ready_for_validation("), body.find("async move")
        before_future = 0 <= i_ready < i_async and "self" not in body[i_async:]
        record(PFX + "validate_record.one_readiness_call", rel, b, m,
               {"readiness_calls": ready_calls, "before_the_future": before_future, "other_uses_of_self": other_self})
        if ready_calls != 1 or not before_future or other_self:
            fail(PFX + "validate_record.one_readiness_call",
                 f"{ready_calls} is_ready_for_validation calls, made before the future = {before_future}, other uses of self {other_self}")
    # is_ready_for_validation: &mut self; set bit, count += 1, compare, take — in this order in ONE function body
    together = False
    m = re.search(r"fn is_ready_for_validation\(&mut self, record_id: RecordId\) -> Result<Ready<B>, Error> \{", b)
    if not m:
        fail(PFX + "is_ready.count_decide_take", "is_ready_for_validation(&mut self, ..) not found")
    else:
        body = norm(block_after(b, m.end() - 1))
        idx = [body.find(x) for x in ("batch.pending_records.set(record_offset_in_batch, true);", "batch.pending_count += 1;",
                                      "if batch.pending_count == total_count {", "self.batches.pop_front()", "self.batches[batch_offset].take()",
                                      "Ok(Ready::Yes { batch_index, batch })", "Ok(Ready::No(batch.validation_result.subscribe()))")]
        writes = len(re.findall(r"pending_count\s*(?:\+=|-=|=[^=])", body))
        together = all(i >= 0 for i in idx) and idx == sorted(idx) and writes == 1
        record(PFX + "is_ready.count_decide_take", rel, b, m, {"in_order": together, "pending_count_writes": writes})
        if not together:
            fail(PFX + "is_ready.count_decide_take",
                 f"set bit / pending_count += 1 / compare with total_count / pop or take / Ready::Yes / Ready::No are no longer in ONE body in this order (positions {idx}, {writes} writes of pending_count)")
    n_ready_fns = len(re.findall(r"fn \w+\(&(?:mut )?self[^)]*\)[^{]*Ready<B>", code))
    m = re.search(r"enum Ready<B> \{", b)
    if m and n_ready_fns == 1:
        record(PFX + "ready.one_producer", rel, b, m, "is_ready_for_validation is the only function returning Ready<B>")
    else:
        fail(PFX + "ready.one_producer", f"{n_ready_fns} functions return Ready<B> (the model knows one)")
    dl, dc = wrapper(PFX + "wrapper.dzkp", "protocol/context/dzkp_malicious.rs",
                     r"async fn validate_record\(&self, record_id: RecordId\) -> Result<\(\), Error> \{",
                     r"validator_inner \.batcher \.lock\(\) \.unwrap\(\) \.validate_record\(record_id, \|batch_idx, batch\| batch\.validate\(ctx, batch_idx\)\);")
    ml, mc = wrapper(PFX + "wrapper.mac", "protocol/context/malicious.rs",
                     r"async fn validate_record\(&self, record_id: RecordId\) -> Result<\(\), Error> \{",
                     r"\.expect\(\"Validation batch is active\"\) \.lock\(\) \.unwrap\(\) \.validate_record\(record_id, \|_batch_idx, batch\| batch\.validate\(\)\);")
    bl = lambda x: "true" if x else "false"
    lines = [
        "/-! GENERATED by tools/extract.py (tools/extractors/c16_atomic.py) from ipa-core/src/protocol/context/{batcher,dzkp_malicious,malicious}.rs — do not edit. -/",
        "namespace IpaVerif.Generated.BatcherAtomic",
        "",
        "/-- lock acquisitions inside batcher.rs (non-test code): the caller's guard is the only lock -/",
        f"def batcherInnerLocks : Nat := {self_locks}",
        "/-- `is_ready_for_validation` calls in `Batcher::validate_record(&mut self, ..)` -/",
        f"def readinessCalls : Nat := {ready_calls}",
        "/-- … made before the returned future is built (the future does not capture `self`) -/",
        f"def readinessBeforeFuture : Bool := {bl(before_future)}",
        "/-- `is_ready_for_validation(&mut self, ..)`: set bit, `pending_count += 1`, compare, pop/take, answer — one body, this order -/",
        f"def countDecideTakeTogether : Bool := {bl(together)}",
        "/-- `DZKPUpgraded::validate_record`: acquisitions of the batcher mutex / the Batcher call is made on that guard -/",
        f"def dzkpWrapperLocks : Nat := {dl}",
        f"def dzkpCallOnGuard : Bool := {bl(dc)}",
        "/-- `Upgraded::validate_record` (MAC): the same -/",
        f"def macWrapperLocks : Nat := {ml}",
        f"def macCallOnGuard : Bool := {bl(mc)}",
        "",
        "end IpaVerif.Generated.BatcherAtomic",
    ]
    return {"BatcherAtomic.lean": "\n".join(lines) + "\n"}
