"""Translator plugin (C20): the serving mode of an `IpaHttpServer` is decided by the `ServerConfig` its
caller handed in -- nothing between the constructor and `start_on` rewrites it.

`start_on` matches on `self.config.disable_https` (items `routes.start_on`): the header layer exists
only in the `true` arms. "The header is honoured only when TLS is explicitly disabled" therefore needs
`self.config.disable_https` to BE what the caller wrote. Pinned on every run:

  srvcfg.ctor_stores_config   `new_mpc` / `new_shards` take `config: ServerConfig` (not `mut`), do not mention
                              it before the final `IpaHttpServer { config, network_config, router }`, and these
                              two are the only struct literals of `IpaHttpServer` in non-test code of ipa-core/src
  srvcfg.never_assigned       no assignment (`=`, `|=`, `&=`, `^=`) to a `disable_https` or `tls` field/binding
                              anywhere under net/server/** (non-test code), no `&mut` borrow of a server config
                              and no `mem::replace/swap/take` there; every use of `self.config` in mod.rs is a read
                              (`self.config.disable_https`, `self.config.port`, `&self.config`)
  srvcfg.tls_needs_material   every `*_rustls` arm of `start_on` builds its config with
                              `rustls_config(&self.config, ..).await.expect("invalid TLS configuration")`,
                              `rustls_config` starts with `certificate_and_key(config).await?` and
                              `certificate_and_key` answers `Err` for `config.tls == None`: HTTPS without key material
                              refuses to start

Generated: ServerCtor.lean (`serverCtor : ServerCtor`). An unrecognised shape is reported as a broken item
and generates the fallback (what the property demands) flagged `recognised := false`: the model stays
executable, theorem `server_ctor_ok` fails, the suite `c20_live` (op `c20.ctor`) exhibits the configuration.
"""
import os, re
from extract import read, record, fail, SRC


def strip_comments(t):
    return re.sub(r"//[^\n]*", "", t)


def cut_tests(t):
    m = re.search(r"#\[cfg\(all\(test[^\]]*\]\s*(?:#\[[^\]]*\]\s*)*(?:pub )?mod \w+", t)
    return t if not m else t[:m.start()]


def brace_end(t, start):
    depth = 0
    for i in range(start, len(t)):
        if t[i] == "{":
            depth += 1
        elif t[i] == "}":
            depth -= 1
            if depth == 0:
                return i
    raise ValueError("unbalanced")


def flat(s):
    return re.sub(r"\s+", "", s)


def fn_parts(t, name):
    """(flattened parameter list, body) of `fn <name>`"""
    m = re.search(r"\bfn\s+" + name + r"\s*(?:<[^>(]*>)?\s*\(", t)
    if not m:
        return None, None
    depth, i = 0, m.end() - 1
    while True:
        if t[i] == "(":
            depth += 1
        elif t[i] == ")":
            depth -= 1
            if depth == 0:
                break
        i += 1
    b0 = t.index("{", i)
    return flat(t[m.end():i]), t[b0 + 1:brace_end(t, b0)]


def server_sources():
    for root, _, fns in os.walk(os.path.join(SRC, "net/server")):
        for fn in sorted(fns):
            if fn.endswith(".rs"):
                rel = os.path.relpath(os.path.join(root, fn), SRC)
                yield rel, strip_comments(cut_tests(read(rel)))


def extract():
    val = {"stores_config": True, "never_assigned": True, "tls_needs_material": True, "recognised": True}
    rel = "net/server/mod.rs"
    raw = read(rel)
    t = strip_comments(cut_tests(raw))

    # ---- the constructors store `config` as handed in
    why = None
    for name in ("new_mpc", "new_shards"):
        params, body = fn_parts(t, name)
        if body is None:
            why = f"IpaHttpServer::{name} not found"
            break
        if not re.search(r"(?:^|,)config:ServerConfig,", params + ","):
            why = f"{name} no longer takes `config: ServerConfig` by value, immutably ({params[:100]})"
            break
        fb = flat(body)
        if not fb.endswith("IpaHttpServer{config,network_config,router,}"):
            why = (f"{name} no longer ends in the struct literal `IpaHttpServer {{ config, network_config, router }}` "
                   f"(tail: {fb[-70:]})")
            break
        before = fb[:-len("IpaHttpServer{config,network_config,router,}")]
        if re.search(r"(?<![A-Za-z0-9_])config\b", before):
            why = f"{name} touches `config` before storing it"
            break
    if why is None:
        n_lit = 0
        for root, _, fns in os.walk(SRC):
            for fn in sorted(fns):
                if fn.endswith(".rs"):
                    ft = strip_comments(cut_tests(read(os.path.relpath(os.path.join(root, fn), SRC))))
                    n_lit += len(re.findall(r"\bIpaHttpServer\s*(?:::\s*<[^>]*>\s*)?\{\s*config\b", ft))
        if n_lit != 2:
            why = f"IpaHttpServer is built by a struct literal at {n_lit} places in non-test code (expected 2: new_mpc, new_shards)"
    if why:
        fail("srvcfg.ctor_stores_config", why)
        val["recognised"] = False
    record("srvcfg.ctor_stores_config", rel, raw, re.search(r"pub fn new_mpc", raw) or re.search(r"mod ", raw),
           "config stored unmodified" if not why else "unrecognised")

    # ---- nothing under net/server rewrites a server config
    why = None
    for frel, ft in server_sources():
        m = re.search(r"\b(disable_https|tls)\s*(\|=|&=|\^=|=(?![=>]))", ft)
        if m:
            why = f"{frel}: assignment to `{m.group(1)}` (`{flat(ft[max(0, m.start() - 30):m.end() + 40])}`)"
            break
        m = re.search(r"&mut\s+(?:self\.)?config\b|\bmut\s+config\s*:\s*ServerConfig|mem::(?:replace|swap|take)\s*\(\s*&mut\s+\w*\.?config", ft)
        if m:
            why = f"{frel}: a server config is borrowed / bound mutably (`{flat(m.group(0))}`)"
            break
    if why is None:
        uses = re.findall(r"\bself\.config\b(\.\w+)?", t)
        bad = [u for u in uses if u not in (".disable_https", ".port", "")]
        n_ref = len(re.findall(r"&self\.config\b(?!\.)", t))
        n_bare = len([u for u in uses if u == ""])
        if bad:
            why = f"self.config is used as `self.config{bad[0]}` (expected reads of .disable_https / .port and `&self.config` only)"
        elif n_bare != n_ref:
            why = "self.config is moved or used other than through `&self.config`"
    if why:
        fail("srvcfg.never_assigned", why)
        val["recognised"] = False
    record("srvcfg.never_assigned", rel, raw, re.search(r"config: ServerConfig,", raw) or re.search(r"mod ", raw),
           "no assignment to disable_https / tls under net/server" if not why else "unrecognised")

    # ---- HTTPS without key material refuses to start
    why = None
    _, so = fn_parts(t, "start_on")
    if so is None:
        why = "start_on not found"
    else:
        fso = flat(so)
        n_rustls = len(re.findall(r"axum_server::(?:from_tcp_rustls|bind_rustls)\(", fso))
        n_cfg = len(re.findall(r"letrustls_config=rustls_config\(&self\.config,self\.network_config\.vec_peers\(\)\)\.await\.expect\(\"invalid TLS configuration\"\);".replace(" ", ""), fso))
        if n_rustls == 0 or n_rustls != n_cfg:
            why = (f"{n_rustls} rustls servers in start_on but {n_cfg} `rustls_config(&self.config, ..).await.expect(\"invalid TLS configuration\")`")
    if why is None:
        _, rc = fn_parts(t, "rustls_config")
        if rc is None or not flat(rc).startswith("let(cert,key)=certificate_and_key(config).await?;"):
            why = "rustls_config no longer starts with `let (cert, key) = certificate_and_key(config).await?;`"
    if why is None:
        _, ck = fn_parts(t, "certificate_and_key")
        if ck is None or not flat(ck).startswith("let(cert,key)=match&config.tls{None=>returnErr(\"missingTLSconfiguration\".into()),"):
            why = "certificate_and_key no longer answers `Err` for `config.tls == None` first"
    if why:
        fail("srvcfg.tls_needs_material", why)
        val["recognised"] = False
    record("srvcfg.tls_needs_material", rel, raw, re.search(r"async fn certificate_and_key", raw) or re.search(r"mod ", raw),
           "tls arms expect rustls_config; None => Err" if not why else "unrecognised")

    b = lambda x: str(bool(x)).lower()
    L = ["import IpaVerif.Model.AuthTypes",
         "/-! GENERATED by tools/extract.py (plugin c20_ctor) from ipa-core/src/net/server/** — do not edit. -/",
         "namespace IpaVerif.Generated.ServerCtor",
         "open IpaVerif.Auth",
         "",
         "/-- `IpaHttpServer::new_mpc` / `new_shards` store the caller's `ServerConfig` unmodified; nothing under net/server "
         "assigns to `disable_https` / `tls`; an HTTPS arm of `start_on` without key material panics -/",
         "def serverCtor : ServerCtor :=",
         f"  {{ storesConfig := {b(val['stores_config'])}, neverAssigned := {b(val['never_assigned'])}, tlsNeedsMaterial := {b(val['tls_needs_material'])}, recognised := {b(val['recognised'])} }}",
         "",
         "end IpaVerif.Generated.ServerCtor"]
    return {"ServerCtor.lean": "\n".join(L) + "\n"}
