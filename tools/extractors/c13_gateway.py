"""Translator plugin for C13: the function bodies of the gateway channel the Lean model
(Model/Channel.lean) was transcribed from, compared after normalisation, plus the default gateway
configuration constants (Generated/Gateway.lean)."""
import re
from extract import read, record, fail


def norm(body):
    body = re.sub(r"//[^\n]*", "", body)
    return re.sub(r"\s+", " ", body).strip()


def fn_body(text, sig_regex):
    m = re.search(sig_regex, text)
    if not m:
        return None, None
    i = text.index("{", m.end() - 1)
    depth, j = 0, i
    while j < len(text):
        if text[j] == "{":
            depth += 1
        elif text[j] == "}":
            depth -= 1
            if depth == 0:
                break
        j += 1
    return m, text[i + 1:j]


def check(item, rel, text, sig, want):
    m, body = fn_body(text, sig)
    if m is None:
        fail(item, f"function not found in {rel}")
        return
    got = norm(body)
    record(item, rel, text, m, got[:200])
    if got != norm(want):
        fail(item, f"body changed: now `{got[:300]}`; the Lean model mirrors `{norm(want)[:300]}`")


def extract():
    rel = "helpers/gateway/send.rs"
    t = read(rel)
    check("gateway.config.new_with", rel, t, r"fn new_with\(\s*gateway_config: GatewayConfig,\s*total_records: TotalRecords,\s*record_size: usize,\s*\) -> Self \{",
          """assert!(record_size > 0, "Message size cannot be 0"); let total_capacity = gateway_config.active.get() * record_size;
          let read_size_multiplier = { let target = gateway_config.read_size.get() / record_size; non_zero_prev_power_of_two(target) };
          let this = Self { total_capacity: total_capacity.try_into().unwrap(), record_size: record_size.try_into().unwrap(),
          read_size: if total_records.is_indeterminate() { record_size } else { std::cmp::min(total_capacity, read_size_multiplier * record_size) } .try_into() .unwrap(), total_records, };
          assert!(this.total_capacity.get() >= record_size * gateway_config.active.get());
          assert_eq!(0, this.total_capacity.get() % this.read_size.get()); this""")
    m = re.search(r"if let TotalRecords::Specified\(count\) = self\.total_records \{\s*if usize::from\(record_id\) >= count\.get\(\) \{\s*return Err\(Error::TooManyRecords", t)
    if m:
        record("gateway.send.too_many_records", rel, t, m, "record_id >= count => Err(TooManyRecords)")
    else:
        fail("gateway.send.too_many_records", "the TooManyRecords guard of GatewaySender::send changed")
    m = re.search(r"self\.ordering_tx\.send\(i, msg\)\.await;\s*if self\.total_records\.is_last\(record_id\) \{\s*self\.ordering_tx\.close\(i \+ 1\)\.await;\s*\}", t)
    if m:
        record("gateway.send.close_on_last", rel, t, m, "send(i); if is_last(i) { close(i + 1) }")
    else:
        fail("gateway.send.close_on_last", "send-then-close-on-last sequence of GatewaySender::send changed")
    rel = "helpers/mod.rs"
    t = read(rel)
    check("gateway.total.is_last", rel, t, r"pub fn is_last<I: Into<RecordId>>\(&self, record_id: I\) -> bool \{",
          "match self { Self::Unspecified | Self::Indeterminate => false, Self::Specified(v) => usize::from(record_id.into()) == v.get() - 1, }")
    rel = "utils/power_of_two.rs"
    t = read(rel)
    check("gateway.prev_pow2", rel, t, r"pub fn non_zero_prev_power_of_two\(target: usize\) -> usize \{",
          "let bits = usize::BITS - target.leading_zeros(); 1 << (std::cmp::max(1, bits) - 1)")
    rel = "helpers/transport/stream/collection.rs"
    t = read(rel)
    check("gateway.collection.add_stream", rel, t, r"pub fn add_stream\(&self, key: StreamKey<I>, stream: S\) \{",
          """let mut streams = self.inner.lock().unwrap(); match streams.entry(key) { Entry::Occupied(mut entry) => match entry.get_mut() {
          rs @ StreamState::Waiting(_) => { let StreamState::Waiting(waker) = std::mem::replace(rs, StreamState::Ready(stream)) else { unreachable!() }; waker.wake(); }
          rs @ (StreamState::Ready(_) | StreamState::Completed) => { let state = format!("{rs:?}"); let key = entry.key().clone(); drop(streams);
          panic!("{key:?} entry state expected to be waiting, got {state:?}"); } }, Entry::Vacant(entry) => { entry.insert(StreamState::Ready(stream)); } }""")
    check("gateway.collection.add_waker", rel, t, r"pub fn add_waker\(&self, key: &StreamKey<I>, waker: &Waker\) -> Option<S> \{",
          """let mut streams = self.inner.lock().unwrap(); match streams.entry(key.clone()) { Entry::Occupied(mut entry) => match entry.get_mut() {
          StreamState::Waiting(old_waker) => { old_waker.clone_from(waker); None }
          rs @ StreamState::Ready(_) => { let StreamState::Ready(stream) = std::mem::replace(rs, StreamState::Completed) else { unreachable!(); }; Some(stream) }
          StreamState::Completed => { drop(streams); panic!("{key:?} stream has been consumed already") } },
          Entry::Vacant(entry) => { entry.insert(StreamState::Waiting(waker.clone())); None } }""")
    rel = "helpers/gateway/mod.rs"
    t = read(rel)
    # the per-channel window override: requested window -> GatewayConfig -> SendChannelConfig
    # (Model/Channel.lean: setActiveWork, setActiveWorkFromQuery, mpcSendCfg; theorem window_honoured)
    check("gateway.config.set_active_work", rel, t, r"pub fn set_active_work\(&self, active_work: NonZeroU32PowerOfTwo\) -> Self \{",
          "Self { active: active_work, ..*self }")
    check("gateway.config.set_active_work_from_query_config", rel, t, r"pub fn set_active_work_from_query_config\(&mut self, value: &QueryConfig\) \{",
          """let active = max( 2, min( Self::default().active.get(), usize::from(value.size), ), ) .next_power_of_two();
          self.active = NonZeroU32PowerOfTwo::try_from(active).unwrap();""")
    m = re.search(r"let channel = self\.inner\.mpc_senders\.get::<M, _>\(\s*channel_id,\s*transport,\s*(?://[^\n]*\n\s*)*self\.config\.set_active_work\(active_work\),\s*self\.query_id,\s*total_records,\s*\);", t)
    if m:
        record("gateway.mpc_sender_uses_window", rel, t, m, "get_mpc_sender: mpc_senders.get(.., self.config.set_active_work(active_work), ..)")
    else:
        fail("gateway.mpc_sender_uses_window", "get_mpc_sender no longer configures the channel with self.config.set_active_work(active_work)")
    rel_s = "helpers/gateway/send.rs"
    t_s = read(rel_s)
    m = re.search(r"fn new<M: Message>\(gateway_config: GatewayConfig, total_records: TotalRecords\) -> Self \{\s*Self::new_with\(gateway_config, total_records, M::Size::USIZE\)\s*\}", t_s)
    if m:
        record("gateway.config.new_uses_message_size", rel_s, t_s, m, "SendChannelConfig::new::<M> = new_with(cfg, total, M::Size)")
    else:
        fail("gateway.config.new_uses_message_size", "SendChannelConfig::new no longer forwards (gateway_config, total_records, M::Size::USIZE) to new_with")
    consts = {}
    m = re.search(r"active: (\d+)\.try_into\(\)\.unwrap\(\),\s*read_size: (\d+)\.try_into\(\)\.unwrap\(\),", t)
    if m:
        consts = {"defaultActive": int(m.group(1)), "defaultReadSize": int(m.group(2))}
        record("gateway.default_config", rel, t, m, consts)
    else:
        fail("gateway.default_config", "GatewayConfig::default active/read_size not found")
    m = re.search(r"pub active: NonZeroU32PowerOfTwo,", t)
    if m:
        record("gateway.active_is_power_of_two", rel, t, m, "active: NonZeroU32PowerOfTwo")
    else:
        fail("gateway.active_is_power_of_two", "GatewayConfig.active is no longer a NonZeroU32PowerOfTwo: config_aligned's hypothesis active = 2^a is not guaranteed by the type")
    lines = ["/-! GENERATED by tools/extract.py (tools/extractors/c13_gateway.py) from",
             "ipa-core/src/helpers/gateway/mod.rs — do not edit. -/",
             "namespace IpaVerif.Generated.Gateway", "",
             f"def defaultActive : Nat := {consts.get('defaultActive', 0)}",
             f"def defaultReadSize : Nat := {consts.get('defaultReadSize', 0)}",
             "", "end IpaVerif.Generated.Gateway", ""]
    return {"Gateway.lean": "\n".join(lines)}
