"""Translator plugin for C03 (DZKP multiplication proofs).

Re-reads from the current sources:
  * dzkp_field.rs: INVERSE_OF_TWO / MINUS_ONE_HALF / MINUS_TWO, the generating formulas of TABLE_U and
    TABLE_V (loop nesting order and the four pushed expressions, machine-translated into Lean terms),
    the straight-line body of `bits_to_table_indices` (masks, shifts, and/or dataflow; machine-translated),
    which stored intermediates feed `table_indices_prover/_from_right_prover/_from_left_prover`;
  * dzkp_validator.rs: BIT_ARRAY_LEN, TARGET_PROOF_SIZE (both cfgs), MIN/MAX_PROOF_RECURSION,
    the PRSS_RECORDS_PER_BATCH expression;
  * malicious_security/{prover,mod}.rs: ProofGenerator L/P/M of the generator used for the first and the
    compressed proofs;
  * proof_generation.rs: the `max_uv_values` formula;
  * batch-size formulas (conv_proof_chunk, aggregate_values_proof_chunk, aggregate_reports chunk).
"""
import re
from extract import read, record, fail, rust_int

PFX = "dzkp."


def _atom(tok, lets):
    tok = tok.strip()
    m = re.fullmatch(r"Fp61BitPrime::from_bit\((\w+)\)", tok)
    if m:
        return f"(ofBit {m.group(1)})"
    if tok == "Fp61BitPrime::MINUS_TWO":
        return "minusTwo"
    if tok == "Fp61BitPrime::MINUS_ONE_HALF":
        return "minusOneHalf"
    if tok == "Fp61BitPrime::ONE":
        return "1"
    if tok == "Fp61BitPrime::ZERO":
        return "0"
    if re.fullmatch(r"\w+", tok) and tok in lets:
        return tok
    raise ValueError(f"unknown atom {tok!r}")


def _expr(src, lets):
    """sum of products of atoms (no parentheses except from_bit(..)); left-associated like Rust."""
    src = re.sub(r"//.*", "", src)
    src = " ".join(src.split())
    terms = [t for t in src.split(" + ")]
    out = None
    for t in terms:
        prod = None
        for a in t.split(" * "):
            x = _atom(a, lets)
            prod = x if prod is None else f"(fmul {prod} {x})"
        out = prod if out is None else f"(fadd {out} {prod})"
    return out


def _table(t, rel, name, lines):
    m = re.search(r"pub static " + name + r": LazyLock<UVTable<Fp61BitPrime>> = LazyLock::new\(\|\| \{(.*?)\n\}\);", t, re.S)
    if not m:
        fail(PFX + name, "static not found")
        return
    body = m.group(1)
    loops = re.findall(r"for (\w) in \[false, true\] \{", body)
    if len(loops) != 3:
        fail(PFX + name, f"expected 3 nested loops over [false, true], found {loops}")
        return
    inner = body[body.rindex("[false, true] {") + len("[false, true] {"):]
    lets = {}
    let_lines = []
    try:
        for lm in re.finditer(r"let (\w+) =\s*(.*?);", inner, re.S):
            var, rhs = lm.group(1), " ".join(lm.group(2).split())
            bm = re.fullmatch(r"(\w) & (\w)", rhs)
            if bm:
                let_lines.append(f"  let {var} := {bm.group(1)} && {bm.group(2)}")
            else:
                let_lines.append(f"  let {var} := {_expr(rhs, set(lets) | set(loops))}")
            lets[var] = True
        pm = re.search(r"result\.push\(\[(.*?)\]\);", inner, re.S)
        if not pm:
            raise ValueError("result.push([...]) not found")
        raw = re.sub(r"//.*", "", pm.group(1))
        elems = [e.strip() for e in raw.split(",") if e.strip()]
        if len(elems) != 4:
            raise ValueError(f"expected 4 row entries, found {len(elems)}")
        row = [_expr(e, set(lets) | set(loops)) for e in elems]
    except ValueError as e:
        fail(PFX + name, str(e))
        return
    record(PFX + name, rel, t, m, {"loops_outer_to_inner": loops, "row": row, "lets": let_lines})
    fn = "tableURow" if name == "TABLE_U" else "tableVRow"
    tb = "tableU" if name == "TABLE_U" else "tableV"
    lines.append(f"/-- one row of `{name}`; loop variables in source nesting order (outer → inner): {', '.join(loops)} -/")
    lines.append(f"def {fn} ({' '.join(loops)} : Bool) : List Nat :=")
    lines.extend(let_lines)
    lines.append("  [" + ",\n   ".join(row) + "]")
    lines.append(f"def {tb} : List (List Nat) :=")
    lines.append(f"  [false, true].flatMap fun {loops[0]} => [false, true].flatMap fun {loops[1]} => [false, true].map fun {loops[2]} => {fn} {' '.join(loops)}")
    lines.append(f"/-- position of each loop variable in the 3-bit table index (innermost loop = least significant bit) -/")
    lines.append(f"def {tb}IndexOrder : List String := [" + ", ".join(f'"{v}"' for v in reversed(loops)) + "]")
    lines.append("")


def _bits_fn(t, rel, lines):
    m = re.search(r"fn bits_to_table_indices\(b0: u128, b1: u128, b2: u128\) -> \[u128; 4\] \{(.*?)\n\}", t, re.S)
    if not m:
        fail(PFX + "bits_to_table_indices", "function not found")
        return
    body = re.sub(r"//.*", "", m.group(1))
    consts = {}
    out = ["/-- `bits_to_table_indices` (straight-line body translated statement by statement; `u128` shifts truncate) -/",
           "def bitsToTableIndices (b0 b1 b2 : Nat) : List Nat :="]
    try:
        for cm in re.finditer(r"const (\w+): u128 = u128::from_le_bytes\(\[(0x[0-9a-fA-F]+); 16\]\);", body):
            byte = int(cm.group(2), 16)
            consts[cm.group(1)] = int.from_bytes(bytes([byte] * 16), "little")
        known = {"b0", "b1", "b2"} | set(consts)

        def ref(x):
            x = x.strip()
            if x in consts:
                return str(consts[x])
            if x in known:
                return x
            raise ValueError(f"unknown identifier {x}")

        def tr(rhs):
            rhs = " ".join(rhs.split())
            mm = re.fullmatch(r"(\w+) & (\w+)", rhs)
            if mm:
                return f"{ref(mm.group(1))} &&& {ref(mm.group(2))}"
            mm = re.fullmatch(r"(\w+) \| \((\w+) << (\d+)\)", rhs)
            if mm:
                return f"{ref(mm.group(1))} ||| (({ref(mm.group(2))} <<< {mm.group(3)}) % 2 ^ 128)"
            mm = re.fullmatch(r"(\w+) \| \((\w+) >> (\d+)\)", rhs)
            if mm:
                return f"{ref(mm.group(1))} ||| ({ref(mm.group(2))} >>> {mm.group(3)})"
            mm = re.fullmatch(r"(\w+) >> (\d+)", rhs)
            if mm:
                return f"{ref(mm.group(1))} >>> {mm.group(2)}"
            mm = re.fullmatch(r"(\w+) << (\d+)", rhs)
            if mm:
                return f"({ref(mm.group(1))} <<< {mm.group(2)}) % 2 ^ 128"
            mm = re.fullmatch(r"(\w+)", rhs)
            if mm:
                return ref(mm.group(1))
            raise ValueError(f"statement form not supported: {rhs}")

        for lm in re.finditer(r"let (\w+) = (.*?);", body, re.S):
            out.append(f"  let {lm.group(1)} := {tr(lm.group(2))}")
            known.add(lm.group(1))
        rm = re.search(r"\n\s*\[(\w+), (\w+), (\w+), (\w+)\]\s*$", body)
        if not rm:
            raise ValueError("result array not found")
        out.append("  [" + ", ".join(ref(g) for g in rm.groups()) + "]")
    except ValueError as e:
        fail(PFX + "bits_to_table_indices", str(e))
        return
    record(PFX + "bits_to_table_indices", rel, t, m, {"masks": {k: hex(v) for k, v in consts.items()}, "statements": len(out) - 3})
    lines.extend(out)
    lines.append("")


def _xor_terms(b):
    """`let e = T ^ T ^ …;` with T = `self.f` | `(self.f & self.g)`; returns list of tuples of field names."""
    m = re.search(r"let e =\s*(.*?);", b, re.S)
    if not m:
        return None
    terms = []
    for t in " ".join(m.group(1).split()).split(" ^ "):
        mm = re.fullmatch(r"\(self\.(\w+) & self\.(\w+)\)", t) or re.fullmatch(r"self\.(\w+)", t)
        if not mm:
            return None
        terms.append(mm.groups())
    return terms


def _indices_fns(t, rel, lines):
    """Which stored intermediates feed the three table_indices_* functions."""
    spec = {}
    m = re.search(r"pub fn table_indices_prover\(&self\) -> Vec<\(u8, u8\)> \{(.*?)\n    \}", t, re.S)
    if m:
        b = re.sub(r"//.*", "", m.group(1))
        names = dict(re.findall(r"let (\w) = &self\.(\w+);", b))
        em = _xor_terms(b)
        calls = re.findall(r"intermediates_to_table_indices\((\w), (\w), &?(\w), output\.iter_mut\(\)\.map\(\|tup\| &mut tup\.(\d)\)\)", b)
        if em and len(calls) == 2 and set("abcdf") <= set(names):
            spec["prover"] = {"names": names, "e": em, "calls": calls}
            record(PFX + "table_indices_prover", rel, t, m, spec["prover"])
        else:
            fail(PFX + "table_indices_prover", "body shape not recognised")
    else:
        fail(PFX + "table_indices_prover", "function not found")
    m = re.search(r"pub fn table_indices_from_right_prover\(&self\) -> Vec<u8> \{(.*?)\n    \}", t, re.S)
    if m:
        b = re.sub(r"//.*", "", m.group(1))
        names = dict(re.findall(r"let (\w) = &self\.(\w+);", b))
        em = _xor_terms(b)
        calls = re.findall(r"intermediates_to_table_indices\((\w), (\w), &?(\w), output\.iter_mut\(\)\)", b)
        if em and len(calls) == 1:
            spec["right"] = {"names": names, "e": em, "calls": calls}
            record(PFX + "table_indices_from_right_prover", rel, t, m, spec["right"])
        else:
            fail(PFX + "table_indices_from_right_prover", "body shape not recognised")
    else:
        fail(PFX + "table_indices_from_right_prover", "function not found")
    m = re.search(r"pub fn table_indices_from_left_prover\(&self\) -> Vec<u8> \{(.*?)\n    \}", t, re.S)
    if m:
        b = re.sub(r"//.*", "", m.group(1))
        names = dict(re.findall(r"let (\w) = &self\.(\w+);", b))
        calls = re.findall(r"intermediates_to_table_indices\((\w), (\w), &?(\w), output\.iter_mut\(\)\)", b)
        if len(calls) == 1:
            spec["left"] = {"names": names, "calls": calls}
            record(PFX + "table_indices_from_left_prover", rel, t, m, spec["left"])
        else:
            fail(PFX + "table_indices_from_left_prover", "body shape not recognised")
    else:
        fail(PFX + "table_indices_from_left_prover", "function not found")
    if len(spec) != 3:
        return
    fld = {"x_left": "xl", "x_right": "xr", "y_left": "yl", "y_right": "yr", "prss_left": "pl", "prss_right": "pr", "z_right": "zr"}

    def f(n):
        return "B." + fld[n]

    def xor(terms):
        return " ^^^ ".join(f"({f(t[0])} &&& {f(t[1])})" if len(t) == 2 else f(t[0]) for t in terms)

    p = spec["prover"]
    e = p["e"]
    lines.append("/-- `table_indices_prover`: (u-index triple, v-index triple) as 256-bit words, least significant index bit first -/")
    lines.append("def proverTriples (B : Block) : (Nat × Nat × Nat) × (Nat × Nat × Nat) :=")
    lines.append("  let e := " + xor(e))
    ren = {k: f(v) for k, v in p["names"].items()}
    ren["e"] = "e"
    calls = sorted(p["calls"], key=lambda c: c[3])
    lines.append("  ((" + ", ".join(ren[x] for x in calls[0][:3]) + "), (" + ", ".join(ren[x] for x in calls[1][:3]) + "))")
    r = spec["right"]
    e = r["e"]
    lines.append("/-- `table_indices_from_right_prover` (this helper is the verifier to the LEFT of the prover): u-index triple -/")
    lines.append("def fromRightProverTriple (B : Block) : Nat × Nat × Nat :=")
    lines.append("  let e := " + xor(e))
    ren = {k: f(v) for k, v in r["names"].items()}
    ren["e"] = "e"
    lines.append("  (" + ", ".join(ren[x] for x in r["calls"][0][:3]) + ")")
    l = spec["left"]
    ren = {k: f(v) for k, v in l["names"].items()}
    lines.append("/-- `table_indices_from_left_prover` (this helper is the verifier to the RIGHT of the prover): v-index triple -/")
    lines.append("def fromLeftProverTriple (B : Block) : Nat × Nat × Nat :=")
    lines.append("  (" + ", ".join(ren[x] for x in l["calls"][0][:3]) + ")")
    lines.append("")



# ---- compute_g_differences: the two chains and the recombination (pinned link by link)
_EXP_LINKS = {
    "iter::once(sum_of_uv)": "sumOfUv",
    "iter::once(interpolate_at_r(first_zkp,&challenges[0],&first_lagrange_denominator))": "firstAtC0",
    "challenges[1..].iter().zip(zkps).map(|(challenge,zkp)|interpolate_at_r(zkp,challenge,&lagrange_denominator))": "zkpsAtTail",
}
_GS_LINKS = {
    "iter::once(compute_sum_share::<F,L_FIRST,P_FIRST>(first_zkp))": "firstSum",
    "zkps.iter().take(zkps.len()-1).map(compute_sum_share::<F,L,P>)": "initSums",
    "iter::once(compute_final_sum_share::<F,L,P>(zkps.last().unwrap()))": "lastFinalSum",
    "iter::once(p_times_q)": "pTimesQ",
}


def _squash(src):
    src = re.sub(r"//[^\n]*", "", src)
    src = re.sub(r"\s+", "", src)
    # trailing commas before a closing parenthesis are not significant
    return re.sub(r",\)", ")", src)


def _split_chain(expr):
    """`head.chain(a).chain(b)` -> [head, a, b] (top-level `.chain(` only); None if anything else follows."""
    links, depth, i, start = [], 0, 0, 0
    head_done = False
    while i < len(expr):
        ch = expr[i]
        if depth == 0 and expr.startswith(".chain(", i):
            if not head_done:
                links.append(expr[start:i])
                head_done = True
            j, d = i + len(".chain("), 1
            while j < len(expr) and d > 0:
                d += expr[j] == "("
                d -= expr[j] == ")"
                j += 1
            if d != 0:
                return None
            links.append(expr[i + len(".chain("):j - 1])
            i = j
            start = i
            continue
        if ch in "([{":
            depth += 1
        elif ch in ")]}":
            depth -= 1
        i += 1
    if not head_done:
        links.append(expr)
    elif start != len(expr):
        return None
    return links


def _gdiff(lines_out):
    rel = "protocol/ipa_prf/malicious_security/verifier.rs"
    t = read(rel)
    out = {"expected": None, "gsums": None, "minus": None}
    m = re.search(r"pub fn compute_g_differences<.*?\n\}\n", t, re.S)
    if not m:
        fail(PFX + "gdiff.fn", "compute_g_differences not found")
        return None
    body = m.group(0)
    for key, var, table in (("expected", "expected_sums", _EXP_LINKS), ("gsums", "g_sums", _GS_LINKS)):
        mm = re.search(r"let " + var + r" = (.*?)\.collect::<Vec<_>>\(\);", body, re.S)
        if not mm:
            fail(PFX + "gdiff." + var, "chain statement not found")
            continue
        links = _split_chain(_squash(mm.group(1)))
        if links is None:
            fail(PFX + "gdiff." + var, "not a plain once/chain expression")
            continue
        names = []
        for l in links:
            if l not in table:
                fail(PFX + "gdiff." + var, f"unknown link {l[:120]!r}")
                names = None
                break
            names.append(table[l])
        if names is not None:
            out[key] = names
            record(PFX + "gdiff." + var, rel, t, re.search(r"let " + var + r" =", t), names)
    mm = re.search(r"g_sums\s*\.iter\(\)\s*\.zip\(expected_sums\)\s*\.map\(\|\(g_sum, expected_sum\)\| \*g_sum - expected_sum\)\s*\.collect\(\)\s*\}", body)
    if mm:
        out["minus"] = True
        record(PFX + "gdiff.combine", rel, t, re.search(r"g_sums\s*\.iter\(\)\s*\.zip\(expected_sums\)", t), "g_sum - expected_sum, zipped in order")
    else:
        fail(PFX + "gdiff.combine", "final zip/map (g_sum - expected_sum) not recognised")
    # nothing else may happen in the body: denominators, the two chains, the combination
    stmts = re.findall(r"\n    let (\w+)", body)
    if stmts == ["first_lagrange_denominator", "lagrange_denominator", "expected_sums", "g_sums"]:
        record(PFX + "gdiff.statements", rel, t, m, stmts)
    else:
        fail(PFX + "gdiff.statements", f"unexpected statements {stmts}")
    for name, pat, val in (
        ("gdiff.denominators", r"let first_lagrange_denominator: CanonicalLagrangeDenominator<F, P_FIRST> =\s*CanonicalLagrangeDenominator::<F, P_FIRST>::new\(\);\s*let lagrange_denominator: CanonicalLagrangeDenominator<F, P> =\s*CanonicalLagrangeDenominator::<F, P>::new\(\);", "P_FIRST / P points"),
        ("gdiff.interpolate_at_r", r"let lagrange_table_g = LagrangeTable::<F, P, 1>::new\(lagrange_denominator, r\);\s*lagrange_table_g\.eval\(zkp\)\[0\]", "table row at r, dot with the proof"),
        ("gdiff.compute_sum_share", r"pub fn compute_sum_share<F: PrimeField, const L: usize, const P: usize>\(zkp: &\[F; P\]\) -> F \{\s*\(0\.\.L\)\.fold\(F::ZERO, \|acc, i\| acc \+ zkp\[i\]\)\s*\}", "sum of entries 0..L"),
        ("gdiff.compute_final_sum_share", r"pub fn compute_final_sum_share<F: PrimeField, const L: usize, const P: usize>\(zkp: &\[F; P\]\) -> F \{\s*\(1\.\.L\)\.fold\(F::ZERO, \|acc, i\| acc \+ zkp\[i\]\)\s*\}", "sum of entries 1..L"),
        ("gdiff.last_array", r"last_array\[L - 1\] = last_u_or_v_values\[0\];\s*last_array\[0\] = p_or_q_0;\s*last_array\[1\.\.last_u_or_v_values\.len\(\)\]\.copy_from_slice\(&last_u_or_v_values\[1\.\.\]\);", "[mask, v1.., v0]"),
        ("gdiff.final_recursions", r"for lagrange_table in tables\.iter\(\)\.take\(recursions_after_first - 1\) \{\s*iterator = Box::new\(recurse_u_or_v\(iterator, lagrange_table\)\);\s*\}", "challenges.len() - 2 plain recursions"),
    ):
        mm = re.search(pat, t)
        if mm:
            record(PFX + name, rel, t, mm, val)
        else:
            fail(PFX + name, "shape not recognised")
    # how BatchToVerify::verify calls it and recombines
    rel2 = "protocol/ipa_prf/validation_protocol/validation.rs"
    t2 = read(rel2)
    for name, pat, val in (
        ("verify.diff_left", r"let diff_left = compute_g_differences::<_, CPL, CRF, FPL, FRF>\(\s*&self\.first_proof_from_left_prover,\s*&self\.proofs_from_left_prover,\s*challenges_for_left_prover,\s*Fp61BitPrime::ZERO,\s*Fp61BitPrime::ZERO,\s*\);", "right verifier: shares of the left prover, sum 0, p*q 0"),
        ("verify.diff_right", r"let diff_right = compute_g_differences::<_, CPL, CRF, FPL, FRF>\(\s*&self\.first_proof_from_right_prover,\s*&self\.proofs_from_right_prover,\s*challenges_for_right_prover,\s*sum_of_uv_right,\s*p_times_q_right,\s*\);", "left verifier: shares of the right prover, claimed sum, p(r)*q(r)"),
        ("verify.recombine", r"let diff = zip\(diff_right, diff_right_from_other_verifier\)\s*\.map\(\|\(a, b\)\| a \+ b\)\s*\.collect::<Vec<_>>\(\);\s*if diff\.ct_ne\(&vec!\[Fp61BitPrime::ZERO; length\]\)\.into\(\) \{\s*return Err\(Error::DZKPValidationFailed\);\s*\}", "sum of the two difference vectors must be all zero"),
        ("verify.p_times_q", r"Ok\(p_r_right_prover \* q_r_right_prover\)", "p(r) * q(r)"),
    ):
        mm = re.search(pat, t2)
        if mm:
            record(PFX + name, rel2, t2, mm, val)
        else:
            fail(PFX + name, "shape not recognised")
    # prover side: share splitting and the order of the loop body
    rel3 = "protocol/ipa_prf/malicious_security/prover.rs"
    t3 = read(rel3)
    for name, pat, val in (
        ("prover.share_split", r"proof_other_share\[i\] = proof\[i\] - proof_prss_share\[i\];", "left share = proof - PRSS share"),
        ("prover.challenge", r"let r: F = hash_to_field\(\s*&compute_hash\(proof_left\),\s*&compute_hash\(proof_right\),\s*L\.try_into\(\)\.unwrap\(\),\s*\);", "r = H(left share, right share), excluding 0..L"),
        ("prover.set_masks", r"u_values\[CompressedProofGenerator::RECURSION_FACTOR - 1\] = u_values\[0\];\s*v_values\[CompressedProofGenerator::RECURSION_FACTOR - 1\] = v_values\[0\];\s*// set masks in first position\s*u_values\[0\] = my_p_mask;\s*v_values\[0\] = my_q_mask;", "u[L-1] = u[0]; u[0] = mask"),
    ):
        mm = re.search(pat, t3)
        if mm:
            record(PFX + name, rel3, t3, mm, val)
        else:
            fail(PFX + name, "shape not recognised")
    return out


def _gdiff_file():
    out = _gdiff(None)
    exp = (out or {}).get("expected") or []
    gs = (out or {}).get("gsums") or []
    minus = bool((out or {}).get("minus"))
    L = [
        "/-! GENERATED by tools/extract.py (tools/extractors/c03_dzkp.py) from",
        "ipa-core/src/protocol/ipa_prf/malicious_security/verifier.rs (`compute_g_differences`) — do not edit.",
        "Each constructor names one recognised link of the `expected_sums` / `g_sums` iterator chains; the lists give the",
        "links in source order. -/",
        "namespace IpaVerif.Generated.DzkpGDiff",
        "",
        "/-- links of `expected_sums`: `iter::once(sum_of_uv)`, `iter::once(interpolate_at_r(first_zkp, &challenges[0], ..))`,",
        "`challenges[1..].iter().zip(zkps).map(|(challenge, zkp)| interpolate_at_r(zkp, challenge, ..))` -/",
        "inductive Exp | sumOfUv | firstAtC0 | zkpsAtTail",
        "  deriving DecidableEq, Repr",
        "/-- links of `g_sums`: `iter::once(compute_sum_share(first_zkp))`, `zkps.iter().take(zkps.len() - 1).map(compute_sum_share)`,",
        "`iter::once(compute_final_sum_share(zkps.last().unwrap()))`, `iter::once(p_times_q)` -/",
        "inductive GS | firstSum | initSums | lastFinalSum | pTimesQ",
        "  deriving DecidableEq, Repr",
        "",
        "def expectedChain : List Exp := [" + ", ".join("." + x for x in exp) + "]",
        "def gChain : List GS := [" + ", ".join("." + x for x in gs) + "]",
        "/-- `g_sums.iter().zip(expected_sums).map(|(g_sum, expected_sum)| *g_sum - expected_sum)` -/",
        "def diffIsGMinusE : Bool := " + ("true" if minus else "false"),
        "",
        "end IpaVerif.Generated.DzkpGDiff",
    ]
    return "\n".join(L) + "\n"


def extract():
    lines = [
        "import IpaVerif.Model.PrimeField",
        "import IpaVerif.Generated.PrimeFields",
        "/-! GENERATED by tools/extract.py (tools/extractors/c03_dzkp.py) from",
        "ipa-core/src/protocol/context/{dzkp_field,dzkp_validator}.rs,",
        "ipa-core/src/protocol/ipa_prf/malicious_security/{mod,prover}.rs,",
        "ipa-core/src/protocol/ipa_prf/validation_protocol/proof_generation.rs — do not edit. -/",
        "namespace IpaVerif.Generated.Dzkp",
        "open IpaVerif.PrimeField IpaVerif.Generated",
        "",
        "def fadd (a b : Nat) : Nat := add fp61 a b",
        "def fsub (a b : Nat) : Nat := sub fp61 a b",
        "def fmul (a b : Nat) : Nat := mul fp61 a b",
        "def ofBit (b : Bool) : Nat := if b then 1 else 0",
        "",
        "/-- `MultiplicationInputsBlock`: seven 256-bit words (bit `j` of the `Array256Bit` = `testBit j`). -/",
        "structure Block where",
        "  xl : Nat",
        "  xr : Nat",
        "  yl : Nat",
        "  yr : Nat",
        "  pl : Nat",
        "  pr : Nat",
        "  zr : Nat",
        "  deriving Repr, DecidableEq",
        "",
    ]
    # ---- dzkp_field.rs
    rel = "protocol/context/dzkp_field.rs"
    t = read(rel)
    consts = {}
    for name, lean in (("INVERSE_OF_TWO", "inverseOfTwo"), ("MINUS_ONE_HALF", "minusOneHalf"), ("MINUS_TWO", "minusTwo")):
        m = re.search(r"const " + name + r": Self = Fp61BitPrime::const_truncate\(([\d_]+)u64\);", t)
        if m:
            consts[lean] = rust_int(m.group(1))
            record(PFX + name, rel, t, m, consts[lean])
        else:
            fail(PFX + name, "constant not found in impl DZKPBaseField for Fp61BitPrime")
            consts[lean] = 0
        lines.append(f"def {lean} : Nat := {consts[lean]}")
    lines.append("")
    _table(t, rel, "TABLE_U", lines)
    _table(t, rel, "TABLE_V", lines)
    _bits_fn(t, rel, lines)
    _indices_fns(t, rel, lines)
    # the output interleaving of intermediates_to_table_indices
    m = re.search(r"fn intermediates_to_table_indices<'a>\((.*?)\n\}", t, re.S)
    if m:
        b = m.group(1)
        halves = re.findall(r"let i(\d)(\d) = i(\d)\[(\.\.128|128\.\.)\]\.load_le::<u128>\(\);", b)
        loops = re.findall(r"for _ in 0\.\.(\d+) \{", b)
        emits = re.findall(r"\*out\.next\(\)\.unwrap\(\) = \((z\d\d) as u8\) & (0x[0-9a-f]+);\s*\1 >>= (\d+);", b)
        ok = len(halves) == 6 and loops == ["32", "32"] and [e[0] for e in emits] == ["z00", "z01", "z02", "z03", "z10", "z11", "z12", "z13"] \
            and all(e[1] == "0x7" and e[2] == "4" for e in emits)
        if ok:
            record(PFX + "intermediates_to_table_indices", rel, t, m, {"halves": 2, "iterations": 32, "mask": 7, "shift": 4, "order": [e[0] for e in emits]})
            lines.append("/-- `intermediates_to_table_indices`: two u128 halves, 32 iterations each, one index from each of the")
            lines.append("four output words in turn, index = low nibble &&& 7, words shifted right by 4. -/")
            lines.append("def idxIterations : Nat := 32")
            lines.append("def idxMask : Nat := 7")
            lines.append("def idxShift : Nat := 4")
        else:
            fail(PFX + "intermediates_to_table_indices", "body shape not recognised (halves/loops/emission order)")
    else:
        fail(PFX + "intermediates_to_table_indices", "function not found")
    lines.append("")
    # ---- dzkp_validator.rs
    rel = "protocol/context/dzkp_validator.rs"
    t = read(rel)
    vals = {}
    for name, pat in (("BIT_ARRAY_LEN", r"pub const BIT_ARRAY_LEN: usize = (\d+);"),
                      ("TARGET_PROOF_SIZE_TEST", r"#\[cfg\(test\)\]\s*pub const TARGET_PROOF_SIZE: usize = ([\d_]+);"),
                      ("TARGET_PROOF_SIZE_PROD", r"#\[cfg\(not\(test\)\)\]\s*pub const TARGET_PROOF_SIZE: usize = ([\d_]+);"),
                      ("MIN_PROOF_RECURSION", r"pub const MIN_PROOF_RECURSION: usize = (\d+);"),
                      ("MAX_PROOF_RECURSION", r"pub const MAX_PROOF_RECURSION: usize = (\d+);")):
        m = re.search(pat, t)
        if m:
            vals[name] = rust_int(m.group(1))
            record(PFX + name, rel, t, m, vals[name])
        else:
            fail(PFX + name, "constant not found")
            vals[name] = 0
    lines.append(f"def bitArrayLen : Nat := {vals['BIT_ARRAY_LEN']}")
    lines.append(f"def targetProofSizeTest : Nat := {vals['TARGET_PROOF_SIZE_TEST']}")
    lines.append(f"def targetProofSizeProd : Nat := {vals['TARGET_PROOF_SIZE_PROD']}")
    lines.append(f"def minProofRecursion : Nat := {vals['MIN_PROOF_RECURSION']}")
    lines.append(f"def maxProofRecursion : Nat := {vals['MAX_PROOF_RECURSION']}")
    m = re.search(r"const PRSS_RECORDS_PER_BATCH: usize = FirstProofGenerator::PROOF_LENGTH\s*\+ \(MAX_PROOF_RECURSION - 1\) \* CompressedProofGenerator::PROOF_LENGTH\s*\+ 2;", t)
    if m:
        record(PFX + "PRSS_RECORDS_PER_BATCH", rel, t, m, "P_first + (MAX-1)*P_compressed + 2")
    else:
        fail(PFX + "PRSS_RECORDS_PER_BATCH", "expression not recognised")
    m2 = re.search(r"let prss_record_id_start = RecordId::from\(batch_index \* PRSS_RECORDS_PER_BATCH\);\s*let prss_record_id_end = RecordId::from\(\(batch_index \+ 1\) \* PRSS_RECORDS_PER_BATCH\);", t)
    if m2:
        record(PFX + "prss_record_range", rel, t, m2, "[b*K, (b+1)*K)")
    else:
        fail(PFX + "prss_record_range", "range expression not recognised")
    m3 = re.search(r"let sum_of_uv = Fp61BitPrime::truncate_from\(u128::try_from\(m\)\.unwrap\(\)\)\s*\* Fp61BitPrime::MINUS_ONE_HALF;", t)
    if m3:
        record(PFX + "sum_of_uv", rel, t, m3, "m * MINUS_ONE_HALF")
    else:
        fail(PFX + "sum_of_uv", "expected-sum expression not recognised")
    # ---- generators
    rel = "protocol/ipa_prf/malicious_security/prover.rs"
    t = read(rel)
    gens = {}
    for gm in re.finditer(r"pub type (\w+) = ProofGenerator<Fp61BitPrime, (\d+), (\d+), (\d+)>;", t):
        gens[gm.group(1)] = tuple(int(x) for x in gm.groups()[1:])
        record(PFX + "generator." + gm.group(1), rel, t, gm, gens[gm.group(1)])
    rel2 = "protocol/ipa_prf/malicious_security/mod.rs"
    t2 = read(rel2)
    L = {}
    for which in ("FirstProofGenerator", "CompressedProofGenerator"):
        m = re.search(r"pub type " + which + r" = prover::(\w+);", t2)
        if m and m.group(1) in gens:
            L[which] = gens[m.group(1)]
            record(PFX + which, rel2, t2, m, {"alias": m.group(1), "L_P_M": L[which]})
        else:
            fail(PFX + which, "type alias to a known ProofGenerator<Fp61BitPrime, L, P, M> not found")
            L[which] = (0, 0, 0)
    for which, pre in (("FirstProofGenerator", "first"), ("CompressedProofGenerator", "compressed")):
        l_, p_, m_ = L[which]
        lines.append(f"def {pre}L : Nat := {l_}")
        lines.append(f"def {pre}P : Nat := {p_}")
        lines.append(f"def {pre}M : Nat := {m_}")
    lines.append("/-- `PRSS_RECORDS_PER_BATCH` = P_first + (MAX_PROOF_RECURSION − 1)·P_compressed + 2 -/")
    lines.append("def prssRecordsPerBatch : Nat := firstP + (maxProofRecursion - 1) * compressedP + 2")
    rel = "protocol/ipa_prf/validation_protocol/proof_generation.rs"
    t = read(rel)
    m = re.search(r"let max_uv_values: usize =\s*\(CRF - 1\) \* CRF\.pow\(u32::try_from\(MAX_PROOF_RECURSION - 2\)\.unwrap\(\)\);", t)
    if m:
        record(PFX + "max_uv_values", rel, t, m, "(CRF-1)*CRF^(MAX-2)")
    else:
        fail(PFX + "max_uv_values", "formula not recognised")
    lines.append("/-- `max_uv_values` = (CRF − 1)·CRF^(MAX_PROOF_RECURSION − 2) -/")
    lines.append("def maxUvValues : Nat := (compressedL - 1) * compressedL ^ (maxProofRecursion - 2)")
    m = re.search(r"while !did_set_masks \{\s*if uv_values\.len\(\) < CRF \{\s*did_set_masks = true;\s*uv_values\.set_masks\(my_p_mask, my_q_mask\)\.unwrap\(\);\s*\}", t)
    if m:
        record(PFX + "recursion_loop", rel, t, m, "while !did_set_masks { if len < CRF { set masks } ; prove ; recurse }")
    else:
        fail(PFX + "recursion_loop", "loop shape not recognised")
    lines.append("")
    # ---- batch-size formulas
    rel = "protocol/hybrid/oprf.rs"
    t = read(rel)
    m = re.search(r"non_zero_prev_power_of_two\(max\(2, TARGET_PROOF_SIZE / CONV_CHUNK / (\d+)\)\)", t)
    relc = "protocol/ipa_prf/mod.rs"
    tc = read(relc)
    mc = re.search(r"pub const CONV_CHUNK: usize = (\d+);", tc)
    if m and mc:
        record(PFX + "conv_proof_chunk", rel, t, m, {"gates_per_conversion": int(m.group(1)), "CONV_CHUNK": int(mc.group(1))})
        lines.append(f"def convChunk : Nat := {int(mc.group(1))}")
        lines.append(f"def convGates : Nat := {int(m.group(1))}")
    else:
        fail(PFX + "conv_proof_chunk", "formula not recognised")
    rel = "protocol/ipa_prf/aggregation/mod.rs"
    t = read(rel)
    m = re.search(r"non_zero_prev_power_of_two\(max\(\s*2,\s*TARGET_PROOF_SIZE / input_width / \(input_item_bits \+ 1\),?\s*\)\)", t)
    if m:
        record(PFX + "aggregate_values_proof_chunk", rel, t, m, "prev_pow2(max(2, T / width / (bits+1)))")
    else:
        fail(PFX + "aggregate_values_proof_chunk", "formula not recognised")
    rel = "protocol/hybrid/agg.rs"
    t = read(rel)
    m = re.search(r"non_zero_prev_power_of_two\(TARGET_PROOF_SIZE / \(BK::BITS as usize \+ V::BITS as usize\)\)", t)
    if m:
        record(PFX + "aggregate_reports_chunk", rel, t, m, "prev_pow2(T / (BK::BITS + V::BITS))")
    else:
        fail(PFX + "aggregate_reports_chunk", "formula not recognised")
    rel = "utils/power_of_two.rs"
    t = read(rel)
    m = re.search(r"pub fn non_zero_prev_power_of_two\(target: usize\) -> usize \{\s*let bits = usize::BITS - target\.leading_zeros\(\);\s*1 << \(std::cmp::max\(1, bits\) - 1\)\s*\}", t)
    if m:
        record(PFX + "non_zero_prev_power_of_two", rel, t, m, "1 << (max(1, bitlen) - 1)")
    else:
        fail(PFX + "non_zero_prev_power_of_two", "body not recognised")
    lines.append("")
    lines.append("end IpaVerif.Generated.Dzkp")
    return {"Dzkp.lean": "\n".join(lines) + "\n", "DzkpGDiff.lean": _gdiff_file()}
