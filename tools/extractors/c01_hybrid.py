"""Translator plugin (C01): constants, chunk formulas, type instantiation, stage order and the
empty-shard branches of the hybrid attribution pipeline -> lean/IpaVerif/Generated/HybridConsts.lean.

Sources: protocol/hybrid/{mod,oprf,agg,breakdown_reveal}.rs, protocol/ipa_prf/aggregation/mod.rs,
protocol/context/dzkp_validator.rs, utils/power_of_two.rs, helpers/mod.rs, query/runner/hybrid.rs."""
import re
from extract import read, record, fail, rust_int


def strip_comments(t):
    return re.sub(r"//[^\n]*", "", t)


def need(name, rel, raw, pattern, value=None, flags=re.S):
    """pattern is searched in the comment-stripped text; the recorded line is that of the first
    line of the match in the raw text."""
    t = strip_comments(raw)
    m = re.search(pattern, t, flags)
    if not m:
        fail(name, f"pattern not found in {rel}: {pattern[:100]}")
        return None
    first = m.group(0).strip().split("\n")[0].strip()
    mr = re.search(re.escape(first), raw) or re.search(r"\S", raw)
    record(name, rel, raw, mr, value if value is not None else re.sub(r"\s+", " ", m.group(0))[:200])
    return m


def ba_bits(name):
    m = re.fullmatch(r"BA(\d+)", name)
    return int(m.group(1)) if m else None


def extract():
    vals = {}

    # ---- constants
    rel = "protocol/hybrid/oprf.rs"
    oprf = read(rel)
    for cname, key in (("CONV_CHUNK", "convChunk"), ("PRF_CHUNK", "prfChunk")):
        m = need("hybrid.const." + cname, rel, oprf, r"pub const " + cname + r": usize = ([\d_]+);")
        if m:
            vals[key] = rust_int(m.group(1))
            record("hybrid.const." + cname, rel, oprf, re.search(r"pub const " + cname + r": usize = [\d_]+;", oprf), vals[key])
    rel_a = "protocol/ipa_prf/aggregation/mod.rs"
    agg = read(rel_a)
    m = need("hybrid.const.AGGREGATE_DEPTH", rel_a, agg, r"pub const AGGREGATE_DEPTH: usize = ([\d_]+);")
    if m:
        vals["aggregateDepth"] = rust_int(m.group(1))
        record("hybrid.const.AGGREGATE_DEPTH", rel_a, agg, re.search(r"pub const AGGREGATE_DEPTH: usize = [\d_]+;", agg), vals["aggregateDepth"])
    # the adder step used by aggregate_values bounds the output width
    m = need("hybrid.const.addition_step_bits", rel_a, agg,
             r"type AdditionStep = (\w+);\s*assert!\(\s*OV::BITS <= AdditionStep::BITS,")
    if m:
        words = {"ThirtyTwoBitStep": 32, "SixteenBitStep": 16, "EightBitStep": 8}
        if m.group(1) in words:
            vals["additionStepBits"] = words[m.group(1)]
            record("hybrid.const.addition_step_bits", rel_a, agg, re.search(r"type AdditionStep = \w+;", agg), vals["additionStepBits"])
        else:
            fail("hybrid.const.addition_step_bits", f"unknown step type {m.group(1)}")

    rel_d = "protocol/context/dzkp_validator.rs"
    dz = read(rel_d)
    m = need("hybrid.const.TARGET_PROOF_SIZE.test", rel_d, dz, r"#\[cfg\(test\)\]\s*pub const TARGET_PROOF_SIZE: usize = ([\d_]+);")
    if m:
        vals["tpsTest"] = rust_int(m.group(1))
        record("hybrid.const.TARGET_PROOF_SIZE.test", rel_d, dz, re.search(r"#\[cfg\(test\)\]\s*pub const TARGET_PROOF_SIZE: usize = [\d_]+;", dz), vals["tpsTest"])
    m = need("hybrid.const.TARGET_PROOF_SIZE.prod", rel_d, dz, r"#\[cfg\(not\(test\)\)\]\s*pub const TARGET_PROOF_SIZE: usize = ([\d_]+);")
    if m:
        vals["tpsProd"] = rust_int(m.group(1))
        record("hybrid.const.TARGET_PROOF_SIZE.prod", rel_d, dz, re.search(r"#\[cfg\(not\(test\)\)\]\s*pub const TARGET_PROOF_SIZE: usize = [\d_]+;", dz), vals["tpsProd"])

    # ---- formulas (the Lean definitions below transcribe exactly these shapes)
    rel_p = "utils/power_of_two.rs"
    p2 = read(rel_p)
    need("hybrid.formula.non_zero_prev_power_of_two", rel_p, p2,
         r"pub fn non_zero_prev_power_of_two\(target: usize\) -> usize \{\s*let bits = usize::BITS - target\.leading_zeros\(\);\s*1 << \(std::cmp::max\(1, bits\) - 1\)\s*\}",
         "1 << (max(1, bitlen(target)) - 1)")
    need("hybrid.formula.aggregate_values_proof_chunk", rel_a, agg,
         r"pub fn aggregate_values_proof_chunk\(input_width: usize, input_item_bits: usize\) -> usize \{\s*non_zero_prev_power_of_two\(max\(\s*2,\s*TARGET_PROOF_SIZE / input_width / \(input_item_bits \+ 1\),\s*\)\)\s*\}",
         "prev_pow2(max(2, TPS / input_width / (input_item_bits + 1)))")
    m = need("hybrid.formula.conv_proof_chunk", rel, oprf,
             r"pub fn conv_proof_chunk\(\) -> usize \{\s*non_zero_prev_power_of_two\(max\(2, TARGET_PROOF_SIZE / CONV_CHUNK / ([\d_]+)\)\)\s*\}")
    if m:
        vals["convGates"] = rust_int(m.group(1))
        record("hybrid.formula.conv_proof_chunk", rel, oprf, re.search(r"pub fn conv_proof_chunk\(\) -> usize \{", oprf),
               f"prev_pow2(max(2, TPS / CONV_CHUNK / {vals['convGates']}))")
    rel_g = "protocol/hybrid/agg.rs"
    ag = read(rel_g)
    need("hybrid.formula.aggregate_reports_chunk", rel_g, ag,
         r"let chunk_size =\s*non_zero_prev_power_of_two\(TARGET_PROOF_SIZE / \(BK::BITS as usize \+ V::BITS as usize\)\);",
         "prev_pow2(TPS / (BK::BITS + V::BITS))")
    rel_b = "protocol/hybrid/breakdown_reveal.rs"
    br = read(rel_b)
    need("hybrid.formula.agg_proof_chunk_args", rel_b, br,
         r"let agg_proof_chunk = aggregate_values_proof_chunk\(B, usize::try_from\(V::BITS\)\.unwrap\(\)\);",
         "aggregate_values_proof_chunk(B, V::BITS)")
    need("hybrid.formula.outer_chunk_loop", rel_b, br,
         r"while intermediate_results\.len\(\) > 1 \{.*?for \(chunk_counter, chunk\) in intermediate_results\.chunks\(agg_proof_chunk\)\.enumerate\(\) \{.*?next_intermediate_results\.push\(result\);\s*\}\s*depth \+= 1;\s*intermediate_results = next_intermediate_results;\s*\}",
         "while len > 1 { for chunk in chunks(agg_proof_chunk) { push(aggregate_values(chunk)) } }")
    # pairwise reduction with the odd pass-through element, carry kept while len < OV::BITS
    need("hybrid.formula.aggregate_values_tree", rel_a, agg,
         r"while num_rows > 1 \{.*?let next_num_rows = num_rows\.div_ceil\(2\);.*?\.try_chunks\(2\).*?Ok\(mut chunk_vec\) if chunk_vec\.len\(\) == 1 => \{\s*Ok\(chunk_vec\.pop\(\)\.unwrap\(\)\)\s*\}.*?if a\.len\(\) < usize::try_from\(OV::BITS\)\.unwrap\(\) \{.*?integer_add::<_, AdditionStep, B>\(.*?sum\.push\(carry\);.*?\} else \{.*?integer_sat_add::<C, AdditionStep, B>\(",
         "pairs added (carry kept while len < OV::BITS, saturating afterwards), odd last element passes through")
    need("hybrid.formula.pair_addition", rel_g, ag,
         r"let \(breakdown_key, _\) = integer_add::<_, EightBitStep, 1>\(\s*agg_ctx\.narrow\(&AggregateReportsStep::AddBK\),\s*idx\.into\(\),\s*&reports\[0\]\.breakdown_key\.to_bits\(\),\s*&reports\[1\]\.breakdown_key\.to_bits\(\),\s*\)\s*\.await\?;\s*let \(value, _\) = integer_add::<_, EightBitStep, 1>\(\s*agg_ctx\.narrow\(&AggregateReportsStep::AddV\),\s*idx\.into\(\),\s*&reports\[0\]\.value\.to_bits\(\),\s*&reports\[1\]\.value\.to_bits\(\),",
         "bk = integer_add(bk0, bk1) carry dropped; v = integer_add(v0, v1) carry dropped")

    # ---- type instantiation
    rel_q = "query/runner/hybrid.rs"
    q = read(rel_q)
    m = need("hybrid.inst.hybrid_protocol", rel_q, q, r"hybrid_protocol::<_, (\w+), (\w+), HV, (\d+), (\d+)>\(")
    if m:
        bk, v, ss, b = m.group(1), m.group(2), int(m.group(3)), int(m.group(4))
        if ba_bits(bk) is None or ba_bits(v) is None:
            fail("hybrid.inst.hybrid_protocol", f"unexpected type arguments {bk}, {v}")
        else:
            vals.update(bkBits=ba_bits(bk), vBits=ba_bits(v), ssBits=ss, buckets=b)
            record("hybrid.inst.hybrid_protocol", rel_q, q, re.search(r"hybrid_protocol::<_, \w+, \w+, HV, \d+, \d+>\(", q),
                   {"BK": bk, "V": v, "SS_BITS": ss, "B": b})
    m = need("hybrid.inst.HV", rel_q, q, r"Query::<_, (\w+), R>::new\(ipa_config, key_registry\)\s*\.execute\(ctx, config\.size, input\)")
    if m:
        if ba_bits(m.group(1)) is None:
            fail("hybrid.inst.HV", f"unexpected histogram value type {m.group(1)}")
        else:
            vals["hvBits"] = ba_bits(m.group(1))
            record("hybrid.inst.HV", rel_q, q, re.search(r"Query::<_, \w+, R>::new\(ipa_config, key_registry\)", q), m.group(1))
    m = need("hybrid.inst.encrypted_report_types", rel_q, q, r"LengthDelimitedStream::<EncryptedHybridReport<(\w+), (\w+)>, _>::new\(input_stream\)")
    if m and "bkBits" in vals and (ba_bits(m.group(1)) != vals["bkBits"] or ba_bits(m.group(2)) != vals["vBits"]):
        fail("hybrid.inst.encrypted_report_types", "decrypted report types differ from the hybrid_protocol instantiation")
    if "buckets" in vals:
        m = need("hybrid.inst.breakdown_key_buckets", rel, oprf, r"impl BreakdownKey<(\d+)> for BA" + str(vals.get("bkBits", 0)) + r" \{\}")
        if m and int(m.group(1)) != vals["buckets"]:
            fail("hybrid.inst.breakdown_key_buckets", "bucket count of the breakdown key type differs from B")
    need("hybrid.inst.padding_default", rel_q, q,
         r"#\[cfg\(not\(feature = \"relaxed-dp\"\)\)\]\s*let padding_params = PaddingParameters::default\(\);")
    need("hybrid.inst.dp_switch", rel_q, q, r"let dp_params: DpMechanism = match config\.with_dp \{\s*0 => DpMechanism::NoDp,")

    # ---- stage order inside hybrid_protocol
    rel_m = "protocol/hybrid/mod.rs"
    hm = read(rel_m)
    body_m = re.search(r"pub async fn hybrid_protocol<.*?\n\{\n(.*?)\n\}\n", strip_comments(hm), re.S)
    stages = [
        ("padding", r"apply_dp_padding::<_, IndistinguishableHybridReport<BK, V>, B>\(\s*ctx\.narrow\(&Step::PaddingDp\),\s*input_rows,"),
        ("shuffle", r"\.narrow\(&Step::InputShuffle\)\s*\.sharded_shuffle\(padded_input_rows\)"),
        ("prf_reshard", r"compute_prf_and_reshard\(ctx\.clone\(\), shuffled_input_rows\)\.await\?"),
        ("aggregate_reports", r"aggregate_reports::<BK, V, C>\(ctx\.clone\(\), sharded_reports\)\.await\?"),
        ("breakdown_reveal_aggregation", r"breakdown_reveal_aggregation::<C, BK, V, HV, B>\(\s*ctx\.narrow\(&Step::Aggregate\),\s*aggregated_reports,"),
        ("finalize", r"\.narrow\(&Step::Finalize\)\s*\.finalize\("),
        ("dp", r"if ctx\.is_leader\(\) \{\s*dp_for_histogram::<_, B, HV, SS_BITS>\(ctx, finalized_histogram\.values, dp_params\)\.await\?\s*\} else \{\s*finalized_histogram\.compose\(\)"),
    ]
    order = []
    if not body_m:
        fail("hybrid.stage_order", "hybrid_protocol body not found")
    else:
        body = body_m.group(1)
        pos = -1
        ok = True
        for name, pat in stages:
            m = re.search(pat, body, re.S)
            if not m:
                fail("hybrid.stage_order." + name, "stage call not found in hybrid_protocol")
                ok = False
                continue
            if m.start() < pos:
                fail("hybrid.stage_order." + name, "stages of hybrid_protocol are no longer in the modelled order")
                ok = False
            pos = m.start()
            order.append(name)
        if ok:
            record("hybrid.stage_order", rel_m, hm, re.search(r"pub async fn hybrid_protocol<", hm), order)
    # inner order of breakdown_reveal_aggregation: padding -> shuffle -> reveal -> chunked tree
    inner = [
        ("padding", r"apply_dp_padding::<_, AggregateableHybridReport<BK, V>, B>\("),
        ("shuffle", r"\.narrow\(&Step::Shuffle\)\s*\.sharded_shuffle\(attributed_values_padded\)"),
        ("reveal", r"reveal_breakdowns\(&validator\.context\(\), attributions\)\.await\?"),
        ("aggregate", r"while intermediate_results\.len\(\) > 1 \{"),
    ]
    brs = strip_comments(br)
    pos = -1
    inner_order = []
    ok = True
    for name, pat in inner:
        m = re.search(pat, brs, re.S)
        if not m or m.start() < pos:
            fail("hybrid.stage_order_breakdown." + name, "statement missing or out of the modelled order in breakdown_reveal_aggregation")
            ok = False
            continue
        pos = m.start()
        inner_order.append(name)
    if ok:
        record("hybrid.stage_order_breakdown", rel_b, br, re.search(r"pub async fn breakdown_reveal_aggregation<", br), inner_order)

    # ---- places where the code branches on an empty shard (finding F8, repaired; F11 fix): an empty shard
    # must still enter the collective steps (shuffles, reshard by PRF, finalize); only a LONE shard may return early
    sites = []
    if need("hybrid.early.input_rows_empty", rel_m, hm,
            r"if input_rows\.is_empty\(\) && usize::from\(ctx\.shard_count\(\)\) == 1 \{\s*return Ok\(vec!\[Replicated::ZERO; B\]\);\s*\}"):
        sites.append("hybrid_protocol.input_rows_empty_and_single_shard")
    # no other return / `?`-free exit before the finalize step except through the stages
    if body_m and len(re.findall(r"\breturn\b", body_m.group(1))) != 1:
        fail("hybrid.early.single_return", "hybrid_protocol has an early return other than the single-shard empty-input one")
    else:
        record("hybrid.early.single_return", rel_m, hm, re.search(r"pub async fn hybrid_protocol<", hm), True)
    if need("hybrid.early.prf_total_records", rel, oprf,
            r"\{\s*if input_rows\.is_empty\(\) \{\s*return reshard_try_stream\(\s*ctx\.narrow\(&HybridStep::ReshardByPrf\),\s*stream::empty\(\),\s*\|ctx, _, report: &PrfHybridReport<BK, V>\| report\.match_key % ctx\.shard_count\(\),\s*\)\s*\.await;\s*\}\s*let conv_records =\s*TotalRecords::specified\(div_round_up\(input_rows\.len\(\), Const::<CONV_CHUNK>\)\)\?;\s*let eval_records = TotalRecords::specified\(div_round_up\(input_rows\.len\(\), Const::<PRF_CHUNK>\)\)\?;"):
        sites.append("compute_prf_and_reshard.empty_reshards_empty_stream")
    if need("hybrid.early.report_pairs_empty", rel_g, ag,
            r"let report_pairs = group_report_pairs_ordered\(reports\);\s*if report_pairs\.is_empty\(\) \{\s*return Ok\(Vec::new\(\)\);\s*\}"):
        sites.append("aggregate_reports.report_pairs_empty")
    # aggregate_reports contains no collective step (nothing sharded / no shard channel)
    agm = re.search(r"pub async fn aggregate_reports<.*?\n\}\n", strip_comments(ag), re.S)
    if not agm or re.search(r"shard_send_channel|shard_recv_channel|recv_from_shards|reshard_|sharded_shuffle|finalize\(", agm.group(0)):
        fail("hybrid.early.aggregate_reports_local", "aggregate_reports not found or it now contains a cross-shard step")
    else:
        record("hybrid.early.aggregate_reports_local", rel_g, ag, re.search(r"pub async fn aggregate_reports<", ag), True)
    # the emptiness check of breakdown_reveal_aggregation sits AFTER the collective shuffle and before the reveal
    brs0 = strip_comments(br)
    mb = re.search(r"\.sharded_shuffle\(attributed_values_padded\)\s*\.instrument\(info_span!\(\"shuffle_attribution_outputs\"\)\)\s*\.await\?;\s*if attributions\.is_empty\(\) \{\s*return Ok\(BitDecomposed::new\(std::iter::repeat_n\(\s*Replicated::<Boolean, B>::ZERO,\s*usize::try_from\(HV::BITS\)\.unwrap\(\),\s*\)\)\);\s*\}", brs0)
    if not mb:
        fail("hybrid.early.breakdown_empty", "emptiness check directly after the second shuffle not found in breakdown_reveal_aggregation")
    elif re.search(r"attributed_values\.is_empty\(\)", brs0) or re.search(r"\breturn\b", brs0[:mb.start()].split("pub async fn breakdown_reveal_aggregation<")[-1]):
        fail("hybrid.early.breakdown_empty", "breakdown_reveal_aggregation returns before its collective shuffle")
    else:
        record("hybrid.early.breakdown_empty", rel_b, br, re.search(r"if attributions\.is_empty\(\) \{", br), "after shuffle")
        sites.append("breakdown_reveal_aggregation.attributions_empty_after_shuffle")
    rel_h = "helpers/mod.rs"
    hp = read(rel_h)
    need("hybrid.early.zero_records_error", rel_h, hp,
         r"pub fn specified\(value: usize\) -> Result<Self, ZeroRecordsError> \{\s*match NonZeroUsize::try_from\(value\) \{\s*Ok\(value\) => Ok\(TotalRecords::Specified\(value\)\),\s*Err\(_\) => Err\(ZeroRecordsError\),",
         "TotalRecords::specified(0) = Err(ZeroRecordsError)")

    g = lambda k: vals.get(k, 0)
    lines = [
        "/-! GENERATED by tools/extract.py (tools/extractors/c01_hybrid.py) from ipa-core/src/protocol/hybrid/*.rs,",
        "protocol/ipa_prf/aggregation/mod.rs, protocol/context/dzkp_validator.rs, utils/power_of_two.rs and",
        "query/runner/hybrid.rs — do not edit. -/",
        "namespace IpaVerif.Generated.Hybrid",
        "",
        f"def convChunk : Nat := {g('convChunk')}",
        f"def prfChunk : Nat := {g('prfChunk')}",
        f"def aggregateDepth : Nat := {g('aggregateDepth')}",
        f"def additionStepBits : Nat := {g('additionStepBits')}",
        "/-- `TARGET_PROOF_SIZE` under `cfg(test)` (every harness build) and in production builds. -/",
        f"def targetProofSizeTest : Nat := {g('tpsTest')}",
        f"def targetProofSizeProd : Nat := {g('tpsProd')}",
        "",
        "/-- `hybrid_protocol::<_, BK, V, HV, SS_BITS, B>` as instantiated by `Query::execute` /",
        "`execute_hybrid_protocol` (query/runner/hybrid.rs). -/",
        f"def bkBits : Nat := {g('bkBits')}",
        f"def vBits : Nat := {g('vBits')}",
        f"def hvBits : Nat := {g('hvBits')}",
        f"def ssBits : Nat := {g('ssBits')}",
        f"def buckets : Nat := {g('buckets')}",
        "",
        "/-- `usize::BITS - target.leading_zeros()` for a 64-bit `usize`. -/",
        "def bitLenAux : Nat → Nat → Nat",
        "  | 0, _ => 0",
        "  | fuel + 1, n => if n = 0 then 0 else 1 + bitLenAux fuel (n / 2)",
        "def bitLen (n : Nat) : Nat := bitLenAux 64 n",
        "",
        "/-- `non_zero_prev_power_of_two`: `1 << (max(1, bits) - 1)`. -/",
        "def prevPow2 (n : Nat) : Nat := 2 ^ (max 1 (bitLen n) - 1)",
        "",
        "/-- `aggregate_values_proof_chunk(input_width, input_item_bits)` for a given `TARGET_PROOF_SIZE`. -/",
        "def aggregateValuesProofChunk (tps inputWidth inputItemBits : Nat) : Nat :=",
        "  prevPow2 (max 2 (tps / inputWidth / (inputItemBits + 1)))",
        "",
        "/-- `conv_proof_chunk()`. -/",
        f"def convProofChunk (tps : Nat) : Nat := prevPow2 (max 2 (tps / convChunk / {g('convGates')}))",
        "",
        "/-- `chunk_size` of `aggregate_reports`. -/",
        "def aggregateReportsChunk (tps bk v : Nat) : Nat := prevPow2 (tps / (bk + v))",
        "",
        "/-- `agg_proof_chunk` of `breakdown_reveal_aggregation` = `aggregate_values_proof_chunk(B, V::BITS)`. -/",
        "def aggProofChunk (tps : Nat) : Nat := aggregateValuesProofChunk tps buckets vBits",
        "",
        "/-- stages of `hybrid_protocol` in source order. -/",
        "def stageOrder : List String := [" + ", ".join(f'"{s}"' for s in order) + "]",
        "/-- stages of `breakdown_reveal_aggregation` in source order. -/",
        "def breakdownStageOrder : List String := [" + ", ".join(f'"{s}"' for s in inner_order) + "]",
        "/-- places where the code branches on an empty shard (F8 repaired: none of them skips a collective step when there is more than one shard). -/",
        "def earlyReturnSites : List String := [" + ", ".join(f'"{s}"' for s in sites) + "]",
        "",
        "end IpaVerif.Generated.Hybrid",
    ]
    return {"HybridConsts.lean": "\n".join(lines) + "\n"}
