"""Translator plugin (C02): which step of the hybrid query is protected by which mechanism.

Reads the step enums of ipa-core/src/protocol/hybrid/step.rs (variant names, `name=`/`child=`/`count=`
attributes) and every `MaliciousProtocolSteps { protocol: &A, validate: &B }` pairing in the hybrid
protocol sources, and emits lean/IpaVerif/Generated/Coverage.lean: gate-path prefix -> protection kind.
"""
import re
from extract import read, record, fail


def snake(name):
    out = []
    for i, ch in enumerate(name):
        if ch.isupper() and i > 0:
            out.append("_")
        out.append(ch.lower())
    return "".join(out)


def norm(seg):
    t = seg.rstrip("0123456789")
    return t + "#" if len(t) < len(seg) else seg


def parse_enums(text):
    enums = {}
    for m in re.finditer(r"enum\s+(\w+)\s*\{(.*?)\n\}", text, re.S):
        variants = []
        body = m.group(2)
        for vm in re.finditer(r"((?:\s*#\[step\((.*?)\)\]\s*)?)\s*(\w+)(\(usize\))?\s*,", body, re.S):
            attrs = vm.group(2) or ""
            name = vm.group(3)
            a = {}
            mm = re.search(r'name\s*=\s*"([^"]+)"', attrs)
            if mm:
                a["name"] = mm.group(1)
            mm = re.search(r"child\s*=\s*([\w:]+)", attrs)
            if mm:
                a["child"] = mm.group(1).split("::")[-1]
            mm = re.search(r"count\s*=\s*(\d+)", attrs)
            if mm:
                a["count"] = int(mm.group(1))
            seg = a.get("name", snake(name))
            if vm.group(4) or "count" in a:
                seg = seg + "#"
            a["seg"] = norm(seg)
            variants.append((name, a))
        enums[m.group(1)] = variants
    return enums


def extract():
    rel = "protocol/hybrid/step.rs"
    t = read(rel)
    enums = parse_enums(t)
    for e in ("HybridStep", "AggregationStep", "FinalizeSteps"):
        if e not in enums:
            fail("coverage.enum." + e, "enum not found in hybrid/step.rs")
            return {}
    m0 = re.search(r"enum\s+HybridStep", t)
    record("coverage.enums", rel, t, m0, {e: [(n, a["seg"], a.get("child")) for n, a in v] for e, v in enums.items()})
    hyb = dict(enums["HybridStep"])
    prefix = {"HybridStep": [], "AggregationStep": [hyb["Aggregate"]["seg"]], "Step": [hyb["Aggregate"]["seg"]],
              "FinalizeSteps": [hyb["Finalize"]["seg"]]}
    enum_of_alias = {"HybridStep": "HybridStep", "AggregationStep": "AggregationStep", "Step": "AggregationStep", "FinalizeSteps": "FinalizeSteps"}
    rows = []  # (path segments, kind)
    # 1. protocol/validate pairs
    pair_re = re.compile(r"MaliciousProtocolSteps\s*\{\s*protocol:\s*&([\w:]+?)(?:\((\w+)\))?\s*,\s*validate:\s*&([\w:]+?)(?:\((\w+)\))?\s*,?\s*\}", re.S)
    pairs = []
    for rel2, alias_ok in (("protocol/hybrid/agg.rs", True), ("protocol/hybrid/mod.rs", True), ("protocol/hybrid/oprf.rs", True),
                           ("protocol/hybrid/breakdown_reveal.rs", True), ("protocol/dp/mod.rs", True)):
        t2 = read(rel2)
        for m in pair_re.finditer(t2):
            pairs.append((rel2, t2, m))
    if len(pairs) < 5:
        fail("coverage.pairs", f"expected at least 5 protocol/validate pairings in the hybrid sources, found {len(pairs)}")
    def path_of(expr):
        parts = expr.split("::")
        enum_alias, variant = parts[-2], parts[-1]
        if enum_alias not in enum_of_alias:
            return None
        en = enum_of_alias[enum_alias]
        # `Step::aggregate(depth)` constructor helpers are lower-case: map to the variant
        vmap = {snake(n): (n, a) for n, a in enums[en]}
        vd = dict(enums[en])
        if variant in vd:
            a = vd[variant]
        elif variant in vmap:
            a = vmap[variant][1]
        else:
            return None
        return prefix[enum_alias] + [a["seg"]]
    for rel2, t2, m in pairs:
        p, v = path_of(m.group(1)), path_of(m.group(3))
        if p is None or v is None:
            fail("coverage.pair." + m.group(1), f"cannot resolve {m.group(1)} / {m.group(3)} against hybrid/step.rs")
            continue
        record("coverage.pair." + "/".join(p), rel2, t2, m, {"protocol": p, "validate": v})
        rows.append((p, "dzkp"))
        rows.append((v, "dzkpProof"))
    # 2. MAC-protected PRF evaluation: EvalPrf has child MaliciousProtocolStep {MaliciousProtocol, Validate}
    rel3 = "protocol/context/malicious.rs"
    t3 = read(rel3)
    m = re.search(r"protocol:\s*&super::step::MaliciousProtocolStep::(\w+),\s*validate:\s*&super::step::MaliciousProtocolStep::(\w+)", t3)
    if m and hyb.get("EvalPrf", {}).get("child") == "MaliciousProtocolStep":
        record("coverage.mac", rel3, t3, m, [m.group(1), m.group(2)])
        rows.append(([hyb["EvalPrf"]["seg"], snake(m.group(1))], "mac"))
        rows.append(([hyb["EvalPrf"]["seg"], snake(m.group(2))], "macCheck"))
    else:
        fail("coverage.mac", "MaliciousProtocolSteps::default pairing or EvalPrf child not found")
    # 3. shuffles and padding passes by child step type
    for en, pre in (("HybridStep", []), ("AggregationStep", prefix["AggregationStep"])):
        for n, a in enums[en]:
            if a.get("child") == "ShardedShuffleStep":
                rows.append((pre + [a["seg"]], "shuffle"))
            if a.get("child") == "PaddingDpStep":
                rows.append((pre + [a["seg"]], "count"))
    rows.sort()
    # 4. execution order of the protected steps: declaration order of HybridStep (the enum is written in
    #    execution order), sub-steps of Aggregate / Finalize in their enums' order; DifferentialPrivacy runs
    #    after Finalize (checked on the body of hybrid_protocol).  Only `protocol` rows (the validate gates
    #    belong to the phase of their protocol step).  Suite c02_channels compares this order with the
    #    order of first traffic in real runs.
    kind_of = {tuple(p): k for p, k in rows}
    validate_of = {}
    for rel2, t2, m in pairs:
        p_, v_ = path_of(m.group(1)), path_of(m.group(3))
        if p_ is not None and v_ is not None:
            validate_of[tuple(p_)] = v_
    if tuple([hyb["EvalPrf"]["seg"], "malicious_protocol"]) in kind_of:
        validate_of[(hyb["EvalPrf"]["seg"], "malicious_protocol")] = [hyb["EvalPrf"]["seg"], "validate"]
    order = []
    def emit(path):
        k = kind_of.get(tuple(path))
        if k in ("dzkp", "mac", "shuffle", "count"):
            order.append((path, k))
    late = []
    for n, a in enums["HybridStep"]:
        if n == "Aggregate":
            for n2, a2 in enums["AggregationStep"]:
                emit([a["seg"], a2["seg"]])
        elif n == "Finalize":
            for n2, a2 in enums["FinalizeSteps"]:
                emit([a["seg"], a2["seg"]])
        elif n == "EvalPrf":
            emit([a["seg"], "malicious_protocol"])
        elif n == "DifferentialPrivacy":
            late.append([a["seg"]])
        else:
            emit([a["seg"]])
    tm = read("protocol/hybrid/mod.rs")
    mfin = re.search(r"\.finalize\(", tm)
    mdp = re.search(r"dp_for_histogram::<", tm)
    if mfin and mdp and mfin.start() < mdp.start():
        record("coverage.order.dp_last", "protocol/hybrid/mod.rs", tm, mdp, "dp_for_histogram after finalize")
        for p_ in late:
            emit(p_)
    else:
        fail("coverage.order.dp_last", "expected `.finalize(` before `dp_for_histogram::<` in hybrid_protocol")
    missing = [p for p, k in rows if k in ("dzkp", "mac", "shuffle", "count") and (p, k) not in order]
    if missing:
        fail("coverage.order", f"protected steps without a position in the execution order: {missing}")
    m0 = re.search(r"enum\s+HybridStep", t)
    record("coverage.order", rel, t, m0, [("/".join(p), k) for p, k in order])
    # 5. gates on which values are opened (two-copy reveal) inside a DZKP / MAC protected step: variants named
    #    `Reveal*` of the protocol step itself or of its child enum (one level; MaliciousProtocol -> PrfStep)
    child_files = {"PrfStep": "protocol/ipa_prf/step.rs", "Fp25519ConversionStep": "protocol/ipa_prf/boolean_ops/step.rs",
                   "MaliciousProtocolStep": "protocol/context/step.rs"}
    child_enums = {}
    for en, relc in child_files.items():
        tc = read(relc)
        ec = parse_enums(tc)
        if en not in ec:
            fail("coverage.open." + en, f"enum {en} not found in {relc}")
            continue
        child_enums[en] = ec[en]
        record("coverage.open." + en, relc, tc, re.search(r"enum\s+" + en, tc), [(n, a["seg"]) for n, a in ec[en]])
    open_gates = []
    def variant_of(path):
        # the enum variant that produced `path`
        if len(path) == 1:
            return next(((n, a) for n, a in enums["HybridStep"] if a["seg"] == path[0]), None)
        if path[0] == hyb["Aggregate"]["seg"]:
            return next(((n, a) for n, a in enums["AggregationStep"] if a["seg"] == path[1]), None)
        if path[0] == hyb["Finalize"]["seg"]:
            return next(((n, a) for n, a in enums["FinalizeSteps"] if a["seg"] == path[1]), None)
        if path[0] == hyb["EvalPrf"]["seg"] and "MaliciousProtocolStep" in child_enums:
            return next(((n, a) for n, a in child_enums["MaliciousProtocolStep"] if a["seg"] == path[1]), None)
        return None
    for pth, k in order:
        if k not in ("dzkp", "mac"):
            continue
        va = variant_of(pth)
        if va is None:
            continue
        n, a = va
        if n.startswith("Reveal"):
            open_gates.append(pth)
        ch = a.get("child")
        if ch in child_enums:
            for n2, a2 in child_enums[ch]:
                if n2.startswith("Reveal"):
                    open_gates.append(pth + [a2["seg"]])
    if len(open_gates) < 3:
        fail("coverage.open", f"expected the openings of convert / eval_prf / aggregate, found {open_gates}")
    # 6. the verified shuffle: rows are committed before the MAC keys are opened.  Statement order in
    #    `malicious_sharded_shuffle`: the `.await` of h{1,2,3}_shuffle_for_shard precedes `verify_shuffle`, the
    #    keys are opened (`reveal_keys`) only inside `verify_shuffle`, before the hashes are computed, and the
    #    shuffle is not joined with anything (no try_join in the function body).
    rel6 = "protocol/ipa_prf/shuffle/malicious.rs"
    t6 = read(rel6)
    mfn = re.search(r"pub async fn malicious_sharded_shuffle.*?\n\}\n", t6, re.S)
    commit_gates, key_gate = [], []
    if not mfn:
        fail("coverage.shuffle_order", "malicious_sharded_shuffle not found")
    else:
        body = mfn.group(0)
        calls = [m_.start() for m_ in re.finditer(r"h[123]_shuffle_for_shard\(ctx\.clone\(\), shares_and_tags\)\.await", body)]
        mq = re.search(r"\}\?;", body[calls[-1]:]) if calls else None
        mv = re.search(r"verify_shuffle::<_, S>\(", body)
        ok6 = (len(calls) == 3 and mq is not None and mv is not None and calls[-1] < mv.start()
               and "reveal_keys" not in body and "join" not in body)
        mvf = re.search(r"async fn verify_shuffle.*?\n\}\n", t6, re.S)
        if mvf:
            vb = mvf.group(0)
            mk = re.search(r"let keys = reveal_keys\(&k_ctx, key_shares\)\.await\?;", vb)
            mh = re.search(r"h1_verify::<_, S>\(", vb)
            ok6 = ok6 and mk is not None and mh is not None and mk.start() < mh.start() and vb.count("reveal_keys") == 1
        else:
            ok6 = False
        ok6 = ok6 and len(re.findall(r"reveal_keys\(", t6.split("#[cfg(all(test")[0])) == 1  # the call in verify_shuffle (the definition is generic: `reveal_keys<C`)
        if ok6:
            record("coverage.shuffle_order", rel6, t6, mfn, "shuffle .await; then verify_shuffle { reveal_keys; h*_verify }")
        else:
            fail("coverage.shuffle_order", "statement order of malicious_sharded_shuffle / verify_shuffle changed: the MAC keys must be opened only after the shuffle rounds were awaited")
    # 6b. evidence for finding F14 (recorded, never failing): H1's part of the rounds ends with the `cardinality`
    #     word, H2 sends that word before `c1`, and `malicious_reveal` sends its shares before it receives
    rel8 = "protocol/ipa_prf/shuffle/sharded.rs"
    t8 = read(rel8)
    mh1 = re.search(r"pub\(super\) async fn h1_shuffle_for_shard.*?\n\}\n", t8, re.S)
    mh2 = re.search(r"pub\(super\) async fn h2_shuffle_for_shard.*?\n\}\n", t8, re.S)
    if mh1 and mh2:
        b1, b2 = mh1.group(0), mh2.group(0)
        aw = [m_.start() for m_ in re.finditer(r"\.await", b1)]
        mc = re.search(r"ShuffleStep::Cardinality\)\s*\.recv_word", b1)
        record("coverage.shuffle_h1_early_open.h1_last_await_is_cardinality", rel8, t8, mh1,
               bool(mc and aw and mc.start() < aw[-1] and not re.search(r"\.await", b1[aw[-1] + 6:])) and "TransferC" not in b1)
        mcs = re.search(r"ShuffleStep::Cardinality\)\s*\.send_word", b2)
        mtc = re.search(r"ShuffleStep::TransferC\)", b2)
        record("coverage.shuffle_h1_early_open.h2_cardinality_before_c1", rel8, t8, mh2, bool(mcs and mtc and mcs.start() < mtc.start()))
    rel9 = "protocol/basics/reveal.rs"
    t9 = read(rel9)
    mr = re.search(r"pub async fn malicious_reveal.*?\n\}\n", t9, re.S)
    if mr:
        br = mr.group(0)
        ms_ = re.search(r"try_join\(send_left_fut, send_right_fut\)\.await\?;", br)
        mrc = re.search(r"left_receiver\.receive\(record_id\)", br)
        record("coverage.shuffle_h1_early_open.reveal_sends_before_receiving", rel9, t9, mr, bool(ms_ and mrc and ms_.start() < mrc.start()))
    rel7 = "protocol/ipa_prf/shuffle/step.rs"
    t7 = read(rel7)
    e7 = parse_enums(t7)
    try:
        ss = dict(e7["ShardedShuffleStep"])
        vs = dict(e7["VerifyShuffleStep"])
        commit_gates = [[ss[n]["seg"]] for n in ("TransferXY", "TransferC", "Cardinality")]
        key_gate = [ss["VerifyShuffle"]["seg"], vs["RevealMACKey"]["seg"]]
        record("coverage.shuffle_gates", rel7, t7, re.search(r"enum\s+ShardedShuffleStep", t7), {"commit": commit_gates, "key": key_gate})
    except KeyError as e:
        fail("coverage.shuffle_gates", f"shuffle step {e} not found in {rel7}")
    # 7. (b14, seed C02c) multiplications that bypass the context-dispatched `SecureMul::multiply`: every call site, in
    #    non-test code below ipa-core/src/protocol, of the routines that do NOT record their intermediates in a DZKP
    #    batch (`semi_honest_multiply` = `sh_multiply`, and the bare `multiplication_protocol`); what a DZKP-upgraded
    #    malicious context dispatches `multiply` to; and the statements of `zkp_multiply` (multiply, build the segment,
    #    push it into the batch).
    import os
    from extract import SRC
    raw = ("semi_honest_multiply", "sh_multiply", "multiplication_protocol")
    sites = []
    call_re = re.compile(r"(?<![\w])(" + "|".join(raw) + r")\s*(?:::<[^;{}()]*?>)?\s*\(")
    alias_re = re.compile(r"\b(" + "|".join(raw) + r")\s+as\s+(\w+)")
    for root, _, files in sorted(os.walk(os.path.join(SRC, "protocol"))):
        for fn in sorted(files):
            if not fn.endswith(".rs"):
                continue
            relf = os.path.relpath(os.path.join(root, fn), SRC)
            tf = read(relf)
            code = tf.split("#[cfg(all(test")[0]
            # drop line comments (keeps offsets irrelevant: we only need order and enclosing fn)
            code = "\n".join(l.split("//")[0] for l in code.split("\n"))
            for ma in alias_re.finditer(code):
                if not (relf == "protocol/basics/mul/mod.rs" and ma.group(1) == "sh_multiply" and ma.group(2) == "semi_honest_multiply"):
                    fail("coverage.mul.alias", f"{relf}: `{ma.group(0)}` renames an unrecorded multiplication routine")
            for mc in call_re.finditer(code):
                pre = code[:mc.start()]
                if re.search(r"fn\s+$", pre):
                    continue  # the definition itself
                fns = re.findall(r"\bfn\s+(\w+)", pre)
                sites.append((relf, fns[-1] if fns else "-", mc.group(1)))
                record("coverage.mul.site." + relf + ":" + (fns[-1] if fns else "-") + ":" + str(len(sites)), relf, code, mc, mc.group(1))
    if not sites:
        fail("coverage.mul.sites", "no call site of semi_honest_multiply / multiplication_protocol found at all (scan broken?)")
    relz = "protocol/basics/mul/dzkp_malicious.rs"
    tz = read(relz)
    mz = re.search(r"pub async fn zkp_multiply.*?\n\}\n", tz, re.S)
    zkp_body = []
    if not mz:
        fail("coverage.mul.zkp_multiply", "zkp_multiply not found")
    else:
        bz = "\n".join(l.split("//")[0] for l in mz.group(0).split("\n"))
        mstart = re.search(r"let z = ", bz)
        if not mstart:
            fail("coverage.mul.zkp_multiply", "`let z = …` not found in zkp_multiply")
        else:
            tail = bz[mstart.start():].rsplit("}", 1)[0]
            zkp_body = [re.sub(r"\s+", " ", st).strip() + (";" if i < tail.count(";") else "") for i, st in enumerate(tail.split(";")) if st.strip()]
            record("coverage.mul.zkp_multiply", relz, tz, mz, zkp_body)
    dispatch = []
    md = re.search(r"SecureMul<DZKPUpgradedMaliciousContext<'a, B>> for Replicated<F, N>\s*\{.*?\n\}\n", tz, re.S)
    if md:
        calls = re.findall(r"\b(\w+)\(ctx, record_id, self, rhs\)\.await", md.group(0))
        if len(calls) == 1:
            dispatch.append(("SecureMul", calls[0]))
            record("coverage.mul.dispatch.SecureMul", relz, tz, md, calls[0])
    relm = "protocol/basics/mul/mod.rs"
    tmm = read(relm)
    mb = re.search(r"BooleanArrayMul<DZKPUpgradedMaliciousContext<'a, B>>\s*for Replicated<\$vec>\s*\{.*?\n        \}\n", tmm, re.S)
    if mb:
        calls = re.findall(r"\n\s*(\w+)\(ctx, record_id, a, b\)\s*\n", mb.group(0))
        if len(calls) == 1:
            dispatch.append(("BooleanArrayMul", calls[0]))
            record("coverage.mul.dispatch.BooleanArrayMul", relm, tmm, mb, calls[0])
    if len(dispatch) != 2:
        fail("coverage.mul.dispatch", f"the multiply impls of DZKPUpgradedMaliciousContext (SecureMul in mul/dzkp_malicious.rs, BooleanArrayMul in mul/mod.rs) were not both found: {dispatch}")
    lines = [
        "/-! GENERATED by tools/extractors/c02_coverage.py from ipa-core/src/protocol/hybrid/*.rs — do not edit. -/",
        "namespace IpaVerif.Generated",
        "",
        "/-- gate-path prefix (run prefix dropped, trailing digits of a segment written `#`) and the mechanism protecting traffic below it -/",
        "def coverageTable : List (List String × String) := [",
    ]
    lines += ["  (" + "[" + ", ".join('"%s"' % s for s in p) + "]" + ', "%s")' % k + ("," if i + 1 < len(rows) else "") for i, (p, k) in enumerate(rows)]
    lines += ["]", ""]
    def lst(p):
        return "[" + ", ".join('"%s"' % x for x in p) + "]"
    lines += ["/-- the protected steps of the hybrid query in execution order (declaration order of `HybridStep` and of its",
              "child enums; `dp` after `finalize`), each with the mechanism protecting it -/",
              "def phaseOrder : List (List String × String) := ["]
    lines += ["  (" + lst(p) + ', "%s")' % k + ("," if i + 1 < len(order) else "") for i, (p, k) in enumerate(order)]
    lines += ["]", "",
              "/-- `MaliciousProtocolSteps { protocol, validate }` pairings: protocol step -> validate step -/",
              "def validateOf : List (List String × List String) := ["]
    vo = sorted(validate_of.items())
    lines += ["  (" + lst(list(p)) + ", " + lst(v) + ")" + ("," if i + 1 < len(vo) else "") for i, (p, v) in enumerate(vo)]
    lines += ["]", "",
              "/-- gates of DZKP / MAC protected steps on which values are opened (`Reveal*` steps) -/",
              "def openGates : List (List String) := ["]
    lines += ["  " + lst(p) + ("," if i + 1 < len(open_gates) else "") for i, p in enumerate(open_gates)]
    lines += ["]", "",
              "/-- gates of a verified shuffle that carry rows / row counts (below the shuffle's step) -/",
              "def shuffleCommitGates : List (List String) := [" + ", ".join(lst(g) for g in commit_gates) + "]", "",
              "/-- gate (below the shuffle's step) on which the MAC keys are opened -/",
              "def shuffleKeyGate : List String := " + lst(key_gate), "",
              "/-- every call site, in non-test code below ipa-core/src/protocol, of a multiplication routine that does NOT record its",
              "intermediates in a DZKP batch (`semi_honest_multiply` = `sh_multiply`, `multiplication_protocol`): (file, enclosing fn, callee) -/",
              "def directMulSites : List (String × String × String) := ["]
    def q(x):
        return '"' + x.replace("\\", "\\\\").replace('"', '\\"') + '"'
    lines += ["  (" + q(f) + ", " + q(g) + ", " + q(c) + ")" + ("," if i + 1 < len(sites) else "") for i, (f, g, c) in enumerate(sites)]
    lines += ["]", "",
              "/-- what `multiply` of a DZKP-upgraded malicious context is dispatched to: (trait, routine) -/",
              "def dzkpDispatch : List (String × String) := [" + ", ".join("(" + q(a) + ", " + q(b) + ")" for a, b in dispatch) + "]", "",
              "/-- the statements of `zkp_multiply` from the multiplication on (comments and whitespace removed) -/",
              "def zkpMultiplyBody : List String := ["]
    lines += ["  " + q(st) + ("," if i + 1 < len(zkp_body) else "") for i, st in enumerate(zkp_body)]
    lines += ["]", "",
              "end IpaVerif.Generated", ""]
    return {"Coverage.lean": "\n".join(lines)}
